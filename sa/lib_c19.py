"""Private helper of the C19 rule module: the separation decision of the -E token printer, decided against the tokenizer.

* CMachine: Engine I run on CONCRETE character buffers (arrays of signed chars, pointers into them), with python models of
  the few <string.h>/<ctype.h> primitives the tokenizer and the printer use.  Nothing is built or run: the typed AST of
  tokenize()/print_tokens() is interpreted on tiny inputs.
* lexer_table(): a complete table of token spellings the tokenizer itself accepts as ONE token (every punctuator it knows,
  one word / number / literal per class of first and last character), and for every ordered pair (A, B) whether
  tokenize(A B written without white space) gives back exactly the tokens A, B.
* printer_decision(): explores print_tokens on the list `; A B <eof>` where B carries "no white space, not at the
  beginning of a line" and every field the re-lexing cannot depend on (everything but kind and spelling) is unconstrained.
"""
import os, pickle, signal, string
from .interp import Obj, Arr, ElemPlace, _Ref, _ValPlace, wrap_int, Infeasible, NoReturn, NORETURN, _BUILTIN_MODELS
from .build import AnalysisBroken
from .lib_c09 import PInterp, chain

# glibc <ctype.h>: (*__ctype_b_loc())[c] & _ISxxx   (little endian layout of the classification bits)
ISBITS = {'_ISupper': 256, '_ISlower': 512, '_ISalpha': 1024, '_ISdigit': 2048, '_ISxdigit': 4096, '_ISspace': 8192,
          '_ISprint': 16384, '_ISgraph': 32768, '_ISblank': 1, '_IScntrl': 2, '_ISpunct': 4, '_ISalnum': 8}


def _ctype_bits(c):
    """classification of the "C" locale"""
    if c < 0 or c > 127:
        return 0
    ch = chr(c)
    al = ('a' <= ch <= 'z') or ('A' <= ch <= 'Z')
    dg = '0' <= ch <= '9'
    b = 0
    if 'A' <= ch <= 'Z': b |= 256
    if 'a' <= ch <= 'z': b |= 512
    if al: b |= 1024
    if dg: b |= 2048
    if ch in '0123456789abcdefABCDEF': b |= 4096
    if ch in ' \t\n\v\f\r': b |= 8192
    if 32 <= c < 127: b |= 16384
    if 33 <= c < 127: b |= 32768
    if ch in ' \t': b |= 1
    if c < 32 or c == 127: b |= 2
    if 33 <= c < 127 and not (al or dg): b |= 4
    if al or dg: b |= 8
    return b


_CTYPE = Arr([_ctype_bits(i - 128) for i in range(384)], 'ctype_b')
_CTYPE_FN = {'isalnum': 8, 'isalpha': 1024, 'isdigit': 2048, 'isxdigit': 4096, 'isspace': 8192, 'ispunct': 4, 'isupper': 256,
             'islower': 512, 'isprint': 16384, 'isgraph': 32768, 'isblank': 1, 'iscntrl': 2}


_TRK = []      # stack of read sets {id(buffer): [lowest index read, highest index read, buffer]} of the memoised calls in progress


class _Buf(list):
    """character buffer that reports which of its elements are read (for the read-set memo of CMachine.call_fn)"""
    __slots__ = ()

    def __getitem__(self, i):
        if _TRK and isinstance(i, int):
            _note(self, i, i)
        return list.__getitem__(self, i)


def _note(buf, lo, hi):
    d = _TRK[-1]
    e = d.get(id(buf))
    if e is None:
        d[id(buf)] = [lo, hi, buf]
    else:
        if lo < e[0]: e[0] = lo
        if hi > e[1]: e[1] = hi


def cbuf(bs, label='buf'):
    """bytes -> char * to a NUL-terminated array of (signed) chars"""
    return _Ref(ElemPlace(Arr(_Buf([b - 256 if b >= 128 else b for b in bs] + [0]), label), 0))


def cstr(v):
    """char * value -> list of signed char values up to the terminating NUL (None when not a concrete string)"""
    if isinstance(v, str):
        try:
            return [b - 256 if b >= 128 else b for b in v.encode('latin-1')]
        except UnicodeEncodeError:
            return None
    if isinstance(v, _Ref) and isinstance(v.place, ElemPlace) and isinstance(v.place.arr, Arr) and isinstance(v.place.i, int):
        out = []
        el = v.place.arr.elems
        i0 = v.place.i
        if i0 < 0:
            return None
        for k in range(i0, len(el)):
            e = list.__getitem__(el, k)
            if not isinstance(e, int):
                return None
            if e == 0:
                if _TRK and isinstance(el, _Buf):
                    _note(el, i0, k)
                return out
            out.append(e)
    return None


def spelling_of(loc, ln):
    """(loc, len) of a token over a concrete buffer -> bytes (None when not concrete)"""
    if isinstance(loc, str) and isinstance(ln, int):
        return loc[:ln].encode('latin-1', 'replace')
    if isinstance(loc, _Ref) and isinstance(loc.place, ElemPlace) and isinstance(loc.place.arr, Arr) and isinstance(loc.place.i, int) and isinstance(ln, int):
        el = loc.place.arr.elems[loc.place.i:loc.place.i + ln]
        if all(isinstance(e, int) for e in el) and len(el) == ln:
            return bytes(e & 255 for e in el)
    return None


def _shift(v, k):
    return v[k:] if isinstance(v, str) else v.shift(k)


def _need(name, *vals):
    if any(v is None for v in vals):
        raise AnalysisBroken('%s() on an operand that is not a concrete string' % name)


def _lower(c):
    return c + 32 if 65 <= c <= 90 else c


def _m_strlen(it, ctx, n, a):
    s = cstr(a[0]); _need('strlen', s)
    return len(s)


def _cmp(x, y):
    x = [c & 255 for c in x]; y = [c & 255 for c in y]
    return (x > y) - (x < y)


def _m_strcmp(it, ctx, n, a):
    return _walk2('strcmp', a, None)


def _walk2(name, a, k, fold=False):
    """compare two strings the way strncmp does, reading no further than the first difference / NUL / k characters"""
    def at(v, j):
        if isinstance(v, str):
            return (ord(v[j]) & 255) if j < len(v) else 0
        if isinstance(v, _Ref) and isinstance(v.place, ElemPlace) and isinstance(v.place.arr, Arr) and isinstance(v.place.i, int):
            el = v.place.arr.elems
            i = v.place.i + j
            if 0 <= i < len(el):
                e = el[i]           # (noted by _Buf)
                if isinstance(e, int):
                    return e & 255
        raise AnalysisBroken('%s() on an operand that is not a concrete string' % name)
    j = 0
    while k is None or j < k:
        x, y = at(a[0], j), at(a[1], j)
        if fold:
            x, y = _lower(x), _lower(y)
        if x != y:
            return (x > y) - (x < y)
        if x == 0:
            return 0
        j += 1
    return 0


def _m_strncmp(it, ctx, n, a):
    if not isinstance(a[2], int):
        raise AnalysisBroken('strncmp() with a length that is not concrete')
    return _walk2('strncmp', a, a[2])


def _m_strcasecmp(it, ctx, n, a):
    return _walk2('strcasecmp', a, None, True)


def _m_strncasecmp(it, ctx, n, a):
    if not isinstance(a[2], int):
        raise AnalysisBroken('strncasecmp() with a length that is not concrete')
    return _walk2('strncasecmp', a, a[2], True)


def _m_memcmp(it, ctx, n, a):
    k = a[2]
    if not isinstance(k, int):
        raise AnalysisBroken('memcmp() with a length that is not concrete')
    def raw(v):
        if isinstance(v, str):
            s = cstr(v)
            return None if s is None else (s + [0])[:k]
        if isinstance(v, _Ref) and isinstance(v.place, ElemPlace) and isinstance(v.place.arr, Arr) and isinstance(v.place.i, int):
            el = v.place.arr.elems[v.place.i:v.place.i + k]
            return el if all(isinstance(e, int) for e in el) else None
        return None
    x, y = raw(a[0]), raw(a[1]); _need('memcmp', x, y)
    return _cmp(x, y)


def _m_strchr(it, ctx, n, a):
    s = cstr(a[0]); _need('strchr', s)
    if not isinstance(a[1], int):
        raise AnalysisBroken('strchr() for a character that is not concrete')
    c = wrap_int(a[1], 'char')
    if c == 0:
        return _shift(a[0], len(s))
    return _shift(a[0], s.index(c)) if c in s else 0


def _m_strrchr(it, ctx, n, a):
    s = cstr(a[0]); _need('strrchr', s)
    c = wrap_int(a[1], 'char') if isinstance(a[1], int) else None
    _need('strrchr', c)
    if c == 0:
        return _shift(a[0], len(s))
    return _shift(a[0], len(s) - 1 - s[::-1].index(c)) if c in s else 0


def _m_strstr(it, ctx, n, a):
    x, y = cstr(a[0]), cstr(a[1]); _need('strstr', x, y)
    for i in range(len(x) - len(y) + 1):
        if x[i:i + len(y)] == y:
            return _shift(a[0], i)
    return 0


def _m_strspn(it, ctx, n, a):
    x, y = cstr(a[0]), cstr(a[1]); _need('strspn', x, y)
    k = 0
    while k < len(x) and x[k] in y:
        k += 1
    return k


def _m_strcspn(it, ctx, n, a):
    x, y = cstr(a[0]), cstr(a[1]); _need('strcspn', x, y)
    k = 0
    while k < len(x) and x[k] not in y:
        k += 1
    return k


def _m_strpbrk(it, ctx, n, a):
    x, y = cstr(a[0]), cstr(a[1]); _need('strpbrk', x, y)
    for i, c in enumerate(x):
        if c in y:
            return _shift(a[0], i)
    return 0


def _m_memchr(it, ctx, n, a):
    v, c, k = a
    if not (isinstance(v, _Ref) and isinstance(v.place, ElemPlace) and isinstance(v.place.arr, Arr) and isinstance(v.place.i, int) and isinstance(c, int) and isinstance(k, int)):
        raise AnalysisBroken('memchr() on an operand that is not concrete')
    el = v.place.arr.elems[v.place.i:v.place.i + k]
    c = wrap_int(c, 'char')
    return v.shift(el.index(c)) if c in el else 0


def _m_ctype_b_loc(it, ctx, n, a):
    return _Ref(_ValPlace(_Ref(ElemPlace(_CTYPE, 128))))


def _mk_ctype_fn(bit):
    def m(it, ctx, n, a):
        if not isinstance(a[0], int):
            raise AnalysisBroken('<ctype.h> classification of a character that is not concrete')
        return 1 if (-128 <= a[0] < 256 and _CTYPE.elems[a[0] + 128] & bit) else 0
    return m


def _m_tolower(it, ctx, n, a):
    if not isinstance(a[0], int):
        raise AnalysisBroken('tolower() of a character that is not concrete')
    return _lower(a[0])


def _m_toupper(it, ctx, n, a):
    if not isinstance(a[0], int):
        raise AnalysisBroken('toupper() of a character that is not concrete')
    return a[0] - 32 if 97 <= a[0] <= 122 else a[0]


def _m_calloc(it, ctx, n, a):
    if all(isinstance(x, int) for x in a) and 0 <= a[0] * a[1] <= 4096:
        return _Ref(ElemPlace(Arr([0] * (a[0] * a[1]), 'mem'), 0))
    return Obj(None, lazy=False)


def _m_malloc(it, ctx, n, a):
    if isinstance(a[0], int) and 0 <= a[0] <= 4096:
        return _Ref(ElemPlace(Arr([0] * a[0], 'mem'), 0))
    return Obj(None, lazy=False)


# <stdio.h> calls that write no text: they report on the stream or release it (close_file() of main.c: fflush, ferror, fclose).
# The printer is analysed for a stream that takes everything written to it - they answer 0, the error path (error()) is not
# the subject.  Printer.status_paths() decides, on abstract tokens, that once the first of them has been called the printer
# writes nothing more and comes to its end; the table then follows a path only up to that call (_m_stream_end), which
# keeps decisions about the stream (is it stdout? close it?) from multiplying the paths of every pair of the table.
STATUS = ('fflush', 'ferror', 'fclose')


def _m_stream_ok(it, ctx, n, a):
    ctx.emit('call', n.callee(), a, n.line, 0)
    return 0


def _m_stream_end(it, ctx, n, a):
    raise NoReturn(n.callee(), a, n.line)


def printer_helpers(u, fn, outs):
    """the functions a token printer consults that an exploration over ABSTRACT tokens cannot follow: library functions and
    helpers that look at spellings (`->loc`); a helper that only redistributes the flag logic is followed"""
    reach, todo = set(), [fn]
    while todo:
        f = todo.pop()
        for c in u.fn(f).walk():
            g = c.callee() if c.kind == 'CallExpr' else None
            if g and g not in outs and g not in reach:
                reach.add(g)
                if g in u.functions:
                    todo.append(g)
    return sorted(set(g for g in reach if g not in u.functions or any(m.kind == 'MemberExpr' and m.name == 'loc' for m in u.fn(g).walk())) | {'open_file'})


MODELS = {'strlen': _m_strlen, 'strcmp': _m_strcmp, 'strncmp': _m_strncmp, 'strcasecmp': _m_strcasecmp, 'strncasecmp': _m_strncasecmp,
          'memcmp': _m_memcmp, 'strchr': _m_strchr, 'strrchr': _m_strrchr, 'strstr': _m_strstr, 'strspn': _m_strspn, 'strcspn': _m_strcspn,
          'strpbrk': _m_strpbrk, 'memchr': _m_memchr, '__ctype_b_loc': _m_ctype_b_loc, 'tolower': _m_tolower, 'toupper': _m_toupper,
          'calloc': _m_calloc, 'malloc': _m_malloc}
MODELS.update({k: _mk_ctype_fn(v) for k, v in _CTYPE_FN.items()})


class CMachine(PInterp):
    """concrete evaluation: a call that can neither be followed nor is modelled is an analysis failure, never a guess"""

    def __init__(self, P, unit, cfg=None):
        cfg = dict(cfg or {})
        m = dict(MODELS)
        m.update(cfg.get('models', {}))
        cfg['models'] = m
        super().__init__(P, unit, cfg)
        self._pure = {}
        self._memo = {}

    def e_DeclRefExpr(self, n, env):
        if n.ref_kind == 'EnumConstantDecl' and n.ref_name in ISBITS and self.unit.enum_value(n.ref_name) is None:
            return ISBITS[n.ref_name]
        return super().e_DeclRefExpr(n, env)

    def cmp(self, op, a, b):
        # pointers into different character buffers are pointers to different objects
        if op in ('==', '!=') and isinstance(a, _Ref) and isinstance(b, _Ref) and isinstance(a.place, ElemPlace) and isinstance(b.place, ElemPlace) \
                and isinstance(a.place.arr, Arr) and isinstance(b.place.arr, Arr) and a.place.arr is not b.place.arr:
            return int(op == '!=')
        return super().cmp(op, a, b)

    def e_CallExpr(self, n, env):
        name = n.callee()
        if name is not None and name not in self.cut and name not in self.models and name not in self.noreturn \
                and name not in self.opaque_fns and name not in _BUILTIN_MODELS and self.find_def(name)[1] is None:
            raise AnalysisBroken('call of %s() at %s:%d can neither be followed nor is it modelled' % (name, self.unit.name, n.line))
        return super().e_CallExpr(n, env)

    def _is_pure(self, unit, fn, depth=0):
        k = (unit.name, fn.name)
        if k in self._pure:
            return self._pure[k]
        self._pure[k] = False       # recursion: not pure
        ok = depth < 6
        own, auto = set(), set()
        for d in fn.walk():
            if d.kind in ('VarDecl', 'ParmVarDecl'):
                own.add(d.id)
                if d.d.get('storageClass') != 'static':
                    auto.add(d.id)
        for x in fn.walk():
            if not ok:
                break
            tgt = None
            if x.kind in ('BinaryOperator', 'CompoundAssignOperator') and x.opcode and x.opcode.endswith('=') and x.opcode not in ('==', '!=', '<=', '>='):
                tgt = x.inner[0]
            elif x.kind == 'UnaryOperator' and x.opcode in ('++', '--'):
                tgt = x.inner[0]
            if tgt is not None:
                t = tgt.strip()
                if not (t.kind == 'DeclRefExpr' and t.ref_id in auto):
                    ok = False
            if x.kind == 'DeclRefExpr' and x.ref_kind == 'VarDecl' and x.ref_id not in own:
                ok = False          # reads a file-scope variable
            if x.kind == 'CallExpr':
                c = x.callee()
                if c is None or c in self.cut or c in self.opaque_fns or c in self.noreturn:
                    ok = False
                elif c in self.models or c in _BUILTIN_MODELS:
                    pass
                else:
                    u2, f2 = self.find_def(c)
                    if f2 is None or not self._is_pure(u2, f2, depth + 1):
                        ok = False
        self._pure[k] = ok
        return ok

    def call_fn(self, unit, fn, args):
        """read-set memo: a function that writes nothing but its own locals (and calls only such functions and modelled libc
        primitives) is deterministic in its integer arguments and in the characters it reads through its pointer arguments;
        a later call with the same integers and the same characters at the same offsets from its pointers has the same result"""
        if not args or not self._is_pure(unit, fn):
            return super().call_fn(unit, fn, args)
        ptrs = []
        for i, a in enumerate(args):
            if isinstance(a, bool) or not isinstance(a, (int, str)):
                if isinstance(a, _Ref) and isinstance(a.place, ElemPlace) and isinstance(a.place.arr, Arr) and isinstance(a.place.arr.elems, _Buf) and isinstance(a.place.i, int):
                    ptrs.append(i)
                else:
                    return super().call_fn(unit, fn, args)
        bufs = [args[i].place.arr.elems for i in ptrs]
        if len(set(id(b) for b in bufs)) != len(bufs):
            return super().call_fn(unit, fn, args)      # two pointers into one buffer: ranges are not attributed
        base = (unit.name, fn.name, tuple(a if not isinstance(a, _Ref) else None for a in args))
        ent = self._memo.get(base)
        if ent is not None:
            for shape, table in ent.items():
                key = []
                for (lo, hi), i in zip(shape, ptrs):
                    b, p0 = args[i].place.arr.elems, args[i].place.i
                    if lo is None:
                        key.append(None)
                    elif p0 + lo < 0 or p0 + hi >= len(b):
                        key = None
                        break
                    else:
                        key.append(tuple(list.__getitem__(b, k) for k in range(p0 + lo, p0 + hi + 1)))
                if key is None:
                    continue
                r = table.get(tuple(key))
                if r is not None:
                    if _TRK:
                        for (lo, hi), i in zip(shape, ptrs):
                            if lo is not None:
                                _note(args[i].place.arr.elems, args[i].place.i + lo, args[i].place.i + hi)
                    return r[0]
        nd = len(self.ctx.decisions), self.ctx.di
        ne = len(self.ctx.events)
        _TRK.append({})
        try:
            r = super().call_fn(unit, fn, args)
        finally:
            reads = _TRK.pop()
            if _TRK:
                for lo, hi, b in reads.values():
                    _note(b, lo, hi)
        if isinstance(r, int) and (len(self.ctx.decisions), self.ctx.di) == nd and all(e[0] == 'loop_done' for e in self.ctx.events[ne:]) \
                and all(id(b) in set(id(x) for x in bufs) for _, _, b in reads.values()):
            shape, key = [], []
            for i in ptrs:
                b, p0 = args[i].place.arr.elems, args[i].place.i
                e = reads.get(id(b))
                if e is None:
                    shape.append((None, None)); key.append(None)
                else:
                    shape.append((e[0] - p0, e[1] - p0))
                    key.append(tuple(list.__getitem__(b, k) for k in range(e[0], e[1] + 1)))
            self._memo.setdefault(base, {}).setdefault(tuple(shape), {})[tuple(key)] = (r,)
        return r


# ------------------------------------------------------------------------------------------------ the tokenizer ---
class Lexer:
    """tokenize() of tokenize.c interpreted on a concrete buffer"""

    def __init__(self, P):
        self.P = P
        self.u = P.unit('tokenize.c')
        if 'tokenize' not in self.u.functions:
            raise AnalysisBroken('anchor tokenize vanished from tokenize.c')
        # line numbering walks the buffer again after all tokens exist; it cannot change kinds or spellings' extents that the
        # comparison below looks at, and is left out
        opaque = [f for f in ('add_line_numbers',) if f in self.u.functions]
        self.it = CMachine(P, self.u, {'opaque': opaque, 'loop_limit': 0})
        self.cache = {}
        self.eof = self.u.enums.get('TK_EOF')
        if self.eof is None:
            raise AnalysisBroken('enumerator TK_EOF vanished')

    def lex(self, bs):
        """bytes -> tuple of (kind, spelling) without the EOF token, or ('error', fn) when tokenize() rejects the text.
        Raises AnalysisBroken when the interpretation is not one concrete run."""
        if bs in self.cache:
            return self.cache[bs]
        it = self.it

        def mk(ctx):
            return [Obj('File', lazy=False, label='file', fields={'name': 'x', 'display_name': 'x', 'file_no': 1, 'line_delta': 0, 'contents': cbuf(bs)})]
        ps = it.explore('tokenize', mk, max_paths=4)
        if len(ps) != 1:
            raise AnalysisBroken('tokenize() on the concrete text %r does not evaluate to one run (%d paths)' % (bs, len(ps)))
        ctx, out = ps[0]
        if out[0] != 'ret':
            r = ('error', out[1])
        else:
            toks, tail = chain(it, out[1], limit=256)
            r = []
            for t in toks:
                k = it.settle(t.fields.get('kind'))
                sp = spelling_of(t.fields.get('loc'), it.settle(t.fields.get('len')))
                if not isinstance(k, int) or sp is None:
                    raise AnalysisBroken('tokenize() on the concrete text %r yields a token whose kind/spelling is not concrete' % (bs,))
                if k == self.eof:
                    break
                r.append((k, sp))
            else:
                raise AnalysisBroken('tokenize() on the concrete text %r yields a list without EOF' % (bs,))
            r = tuple(r)
        self.cache[bs] = r
        return r


C11_PUNCT = ['[', ']', '(', ')', '{', '}', '.', '->', '++', '--', '&', '*', '+', '-', '~', '!', '/', '%', '<<', '>>', '<', '>', '<=', '>=', '==', '!=',
             '^', '|', '&&', '||', '?', ':', ';', '...', '=', '*=', '/=', '%=', '+=', '-=', '<<=', '>>=', '&=', '^=', '|=', ',', '#', '##',
             '<:', ':>', '<%', '%>', '%:', '%:%:']

CHAR_NAME = {'!': 'bang', '"': 'quote', '#': 'hash', '$': 'dollar', '%': 'percent', '&': 'amp', "'": 'apostrophe', '(': 'lparen', ')': 'rparen',
             '*': 'star', '+': 'plus', ',': 'comma', '-': 'minus', '.': 'dot', '/': 'slash', ':': 'colon', ';': 'semicolon', '<': 'lt', '=': 'eq',
             '>': 'gt', '?': 'question', '@': 'at', '[': 'lbracket', '\\': 'backslash', ']': 'rbracket', '^': 'caret', '_': 'underscore',
             '`': 'backquote', '{': 'lbrace', '|': 'bar', '}': 'rbrace', '~': 'tilde'}


def char_class(b, exponent_letters=False):
    """stable name of the class of one byte of a spelling"""
    if b >= 128:
        return 'non-ascii'
    ch = chr(b)
    if ch.isdigit():
        return 'digit'
    if ch.isalpha():
        if exponent_letters and ch in 'eEpP':
            return 'letter-' + ch.lower() + ('-upper' if ch.isupper() else '')
        return 'letter'
    return CHAR_NAME.get(ch, 'char-%02x' % b)


def candidate_spellings(P):
    """a generous superset of one-token spellings, grouped; the tokenizer itself decides which of them are one token"""
    u = P.unit('tokenize.c')
    lits = []
    for fn in u.functions.values():
        for s in fn.walk():
            if s.kind == 'StringLiteral':
                v = s.str_value()
                if v and v not in lits and len(v) <= 4 and all(33 <= ord(c) < 127 and not c.isalnum() for c in v):
                    lits.append(v)
    puncts = []
    for p in C11_PUNCT + lits + [c for c in string.punctuation]:
        if p not in puncts:
            puncts.append(p)
    kws = []
    if 'is_keyword' in u.functions:
        for s in u.fn('is_keyword').walk():
            if s.kind == 'StringLiteral':
                v = s.str_value()
                if v and v.isidentifier() and v.isascii() and v not in kws:
                    kws.append(v)
    kws = ([kws[0], kws[-1]] if len(kws) > 1 else kws) or ['int', 'sizeof']
    words = ['x', 'x1', '_', '$', 'é', '中', '\U0001d465', 'L', 'u', 'U', 'u8']
    nums = ['1', '0x7E', '0x7e', '1.', '.5', '1u', '1e5', '0x1p3']
    quoted = ["'c'", '"s"', "L'c'", 'L"s"', 'u8"s"']
    # (insertion order matters: `_` and `$` are words for this tokenizer, not punctuators)
    return {'word': [w.encode('utf-8') for w in words], 'keyword': [k.encode() for k in kws], 'number': [n.encode() for n in nums],
            'quoted': [q.encode() for q in quoted], 'punct': [p.encode() for p in puncts]}


def converted_at_printer(P):
    """are pp-numbers/keywords converted (convert_pp_tokens) before the list reaches print_tokens? 'always' | 'never' | 'sometimes'"""
    try:
        pu = P.unit('preprocess.c')
    except AnalysisBroken:
        return 'sometimes'
    if 'preprocess' not in pu.functions:
        return 'sometimes'
    calls = pu.fn('preprocess').calls('convert_pp_tokens')
    if not calls:
        tu = P.unit('tokenize.c')
        return 'never' if 'convert_pp_tokens' in tu.functions else 'sometimes'
    cond = [a.kind for c in calls for a in c.ancestors() if a.kind in ('IfStmt', 'ConditionalOperator', 'ForStmt', 'WhileStmt', 'DoStmt', 'SwitchStmt')]
    return 'sometimes' if cond else 'always'


# ------------------------------------------------------------------------------------------------ the printer ---
OUTS = ('fprintf', 'fputs', 'fputc', 'putc', 'fwrite', 'putchar', 'puts', 'printf')


class Printer:
    def __init__(self, P, fn='print_tokens', unit='main.c'):
        self.P = P
        self.u = P.unit(unit)
        self.fn = fn
        if fn not in self.u.functions:
            raise AnalysisBroken('anchor %s vanished from %s' % (fn, unit))
        E = self.u.enums
        for k in ('TK_EOF', 'TK_PUNCT'):
            if k not in E:
                raise AnalysisBroken('enumerator %s vanished' % k)
        self.E = E
        opaque = [f for f in ('open_file',) if f in self.u.functions]
        # (where status_paths() cannot justify ending a path at the first stream-status call, the calls just answer 0 and
        # every path is followed to its end: slower, same decisions)
        self.full_paths = self.status_paths()
        self.it = CMachine(P, self.u, {'opaque': opaque, 'cut': {k: None for k in OUTS}, 'models': {k: (_m_stream_ok if self.full_paths else _m_stream_end) for k in STATUS}, 'loop_limit': 0})

    def status_paths(self):
        """decides what lets decide() end a path at the first call of a stream-status function (STATUS): on every path of the
        printer over abstract tokens (lists of 0..3 tokens, the helpers' answers free), with the stream reporting success,
        no text is written after that call and the printer returns.  -> None when that holds, else the reason why not."""
        u, fn = self.u, self.fn
        helpers = [h for h in printer_helpers(u, fn, OUTS) if h not in STATUS and h not in NORETURN]
        it = PInterp(self.P, u, {'opaque': helpers, 'cut': {k: None for k in OUTS}, 'models': {k: _m_stream_ok for k in STATUS}, 'loop_limit': 3})
        try:
            paths = it.explore(fn, lambda ctx: [Obj('Token', lazy=True, label='tok')], max_paths=4096)
        except AnalysisBroken as e:
            return '%s cannot be followed over abstract tokens: %s' % (fn, e)
        for ctx, out in paths:
            evs = [e for e in ctx.events if e[0] == 'call' and (e[1] in OUTS or e[1] in STATUS)]
            first = next((i for i, e in enumerate(evs) if e[1] in STATUS), None)
            if first is None:
                continue
            late = [e for e in evs[first + 1:] if e[1] in OUTS]
            if late:
                return '%s writes text (%s() at %s:%d) after it has called %s() at line %d' % (fn, late[0][1], u.name, late[0][3], evs[first][1], evs[first][3])
            if out[0] != 'ret':
                return '%s does not return on a path on which %s() at %s:%d reported success (it ends in %s() at line %d)' % (fn, evs[first][1], u.name, evs[first][3], out[1], out[3])
        return None

    def decide(self, kind_a, a, b_kind, b, max_paths=256):
        """-> list of (separated?, trail, fields consulted) per returning path of print_tokens on `; A B`"""
        it, E = self.it, self.E
        def tok(label, kind, bs, **kw):
            f = {'kind': kind, 'loc': cbuf(bs, label), 'len': len(bs), 'at_bol': 0, 'has_space': 0, 'next': 0}
            f.update(kw)
            return Obj('Token', lazy=True, label=label, fields=f)

        def mk(ctx):
            x = tok('first', E['TK_PUNCT'], b';', at_bol=1)
            A = tok('prev', kind_a, a)
            del A.fields['at_bol'], A.fields['has_space']       # how A itself was separated from `;` says nothing about A|B: unconstrained
            B = tok('tok', b_kind, b)
            e = Obj('Token', lazy=True, label='eof', fields={'kind': E['TK_EOF'], 'loc': cbuf(b'', 'eof'), 'len': 0, 'at_bol': 1, 'has_space': 0, 'next': 0})
            x.fields['next'] = A; A.fields['next'] = B; B.fields['next'] = e
            ctx.c19 = {'A': A, 'B': B, 'base': {id(t): set(t.fields) for t in (x, A, B, e)}, 'toks': (x, A, B, e)}
            return [x]
        res = []
        for ctx, out in it.explore(self.fn, mk, max_paths=max_paths):
            if out[0] != 'ret' and not (out[0] == 'noreturn' and out[1] in STATUS):
                continue        # (a path that ends at a stream-status call has written all its text: status_paths())
            box = ctx.c19
            A, B = box['A'], box['B']
            text = []       # ('sep', str) | ('tok', arr)
            und = None
            for e in ctx.events:
                if e[0] != 'call' or e[1] not in OUTS:
                    continue
                t = _out_items(e[1], e[2])
                if t is None:
                    und = 'output call %s(...) at line %d is not understood' % (e[1], e[3])
                    break
                text += t
            if und:
                res.append((None, ctx.trail, und))
                continue
            ia = [i for i, t in enumerate(text) if t[0] == 'tok' and _same_buf(t[2], A.fields['loc'])]
            ib = [i for i, t in enumerate(text) if t[0] == 'tok' and _same_buf(t[2], B.fields['loc'])]
            if len(ia) != 1 or len(ib) != 1 or ib[0] < ia[0]:
                res.append((None, ctx.trail, 'the spellings of the two tokens are not written once each, in order'))
                continue
            between = text[ia[0] + 1:ib[0]]
            sep = ''.join(t[1] for t in between if t[0] == 'sep')
            other = [t for t in between if t[0] != 'sep']
            consulted = _Consulted()
            for t in box['toks']:
                for f in sorted(t.fields):
                    if f not in box['base'][id(t)]:
                        v = it.settle(t.fields[f])
                        consulted['%s->%s' % (t.label, f)] = v if isinstance(v, (int, str)) else ('object' if isinstance(v, Obj) else 'value')
            res.append(((' ' in sep or '\n' in sep or '\t' in sep) and not other, ctx.trail, consulted))
        return res


class _Consulted(dict):
    """fields of the tokens that a path of the printer materialised (asked about) beyond kind/spelling/flags of the next token, with the
    value the path assumed; iterates in sorted order like the list of names it replaces"""

    def __iter__(self):
        return iter(sorted(self.keys()))


def _culprits(glued, separated):
    """names of the fields on which gluing hangs: a glued and a separated path that agree on every other field they both asked about"""
    names = set()
    for p in glued:
        for q in separated:
            diff = set(k.split('->')[-1] for k in set(p) | set(q) if p.get(k, None) != q.get(k, None))
            if len(diff) == 1:
                names |= diff
    return sorted(names) or sorted(set(k.split('->')[-1] for p in glued for k in p))


def _same_buf(v, loc):
    return isinstance(v, _Ref) and isinstance(v.place, ElemPlace) and v.place.arr is loc.place.arr


def format_items(fmt, a, lit=None):
    """what printf(fmt, *a) writes, for formats made of plain text and the conversions %%, %c, %s (of a constant string) and
    %.*s (a counted spelling): list of ('sep', text) / ('tok', len, loc) in output order; None when not understood.
    lit(v) -> python text of a constant string argument or None"""
    if lit is None:
        lit = lambda v: v if isinstance(v, str) else None
    out, text, i, k = [], '', 0, 0
    a = list(a)
    while i < len(fmt):
        c = fmt[i]
        if c != '%':
            text += c
            i += 1
            continue
        if fmt.startswith('%%', i):
            text += '%'
            i += 2
        elif fmt.startswith('%.*s', i):
            if k + 2 > len(a):
                return None
            if text:
                out.append(('sep', text)); text = ''
            out.append(('tok', a[k], a[k + 1]))
            k += 2
            i += 4
        elif fmt.startswith('%s', i):
            s = lit(a[k]) if k < len(a) else None
            if s is None:
                return None
            text += s
            k += 1
            i += 2
        elif fmt.startswith('%c', i):
            if k >= len(a) or not isinstance(a[k], int) or isinstance(a[k], bool):
                return None
            text += chr(a[k] & 255)
            k += 1
            i += 2
        else:
            return None
    if k != len(a):
        return None
    if text:
        out.append(('sep', text))
    return out


def _out_items(name, args):
    """what one stdio call writes: list of ('sep', text) / ('tok', len, loc); None when not understood"""
    def lit(v):
        if isinstance(v, str):
            return v
        s = cstr(v)
        return None if s is None else ''.join(chr(c & 255) for c in s)
    if name in ('fprintf', 'printf'):
        a = args[1:] if name == 'fprintf' else args
        if not a:
            return None
        fmt = lit(a[0])
        if fmt is None:
            return None
        # (characters of a buffer written through %s are not a constant separator: only string constants count)
        return format_items(fmt, a[1:], lambda v: None if isinstance(v, _Ref) else lit(v))
    if name in ('fputs', 'puts'):
        s = lit(args[0]) if args and not isinstance(args[0], _Ref) else None
        return None if s is None else [('sep', s + ('\n' if name == 'puts' else ''))]
    if name in ('fputc', 'putc', 'putchar'):
        return [('sep', chr(args[0] & 255))] if args and isinstance(args[0], int) else None
    if name == 'fwrite' and len(args) == 4:
        return [('tok', args[2] if args[1] == 1 else args[1], args[0])]
    return None


# ------------------------------------------------------------------------------------------------ the table ---
def build_table(P):
    """-> dict(singles={spelling: (kind,)}, prev=[...], nxt=[...], group={spelling: group}) of spellings that the tokenizer reads as ONE token"""
    lx = Lexer(P)
    cand = candidate_spellings(P)
    group, kind = {}, {}
    dropped = []
    for g, lst in cand.items():
        for s in lst:
            if s in group:
                continue
            try:
                r = lx.lex(s)
            except Infeasible:
                r = ()
            if isinstance(r, tuple) and len(r) == 1 and r[0][1] == s and r[0] != 'error':
                group[s] = g
                kind[s] = r[0][0]
            else:
                dropped.append(s)
    return lx, group, kind, dropped


def _work(P, lx, pr, group, kind, kinds_at_printer, prevs, nxts):
    """for every pair: does the tokenizer give back (A, B) from the glued text; for those that it does not, the printer's decision"""
    out = []
    for a in prevs:
        for b in nxts:
            try:
                r = lx.lex(a + b)
            except AnalysisBroken as e:
                out.append((a, b, 'undecided', str(e), None))
                continue
            if r == ((kind[a], a), (kind[b], b)):
                continue
            how = 'rejected by the tokenizer (%s)' % r[1] if (r and r[0] == 'error') else ' '.join(sp.decode('utf-8', 'replace') for _, sp in r) or '(nothing)'
            for ka in kinds_at_printer[a]:
                for kb in kinds_at_printer[b]:
                    try:
                        d = pr.decide(ka, a, kb, b)
                    except AnalysisBroken as e:
                        out.append((a, b, 'undecided', str(e), ka))
                        continue
                    if not d:
                        out.append((a, b, 'undecided', 'print_tokens has no returning path on the list `; A B`', ka))
                        continue
                    bad = [x for x in d if x[0] is None]
                    if bad:
                        out.append((a, b, 'undecided', bad[0][2], ka))
                        continue
                    miss = [x for x in d if x[0] is False]
                    if miss and len(miss) < len(d) and all(x[2] for x in miss):
                        # separated on some paths, glued on others, and the glued ones asked about fields that say nothing about spellings
                        cul = _culprits([x[2] for x in miss], [x[2] for x in d if x[0]])
                        out.append((a, b, 'depends', (how, miss[0][1][-6:], sorted(set(f for x in miss for f in x[2] if f.split('->')[-1] in cul)), len(miss), len(d)), ka))
                    elif miss:
                        out.append((a, b, 'glued', (how, miss[0][1][-6:], list(miss[0][2]), len(miss), len(d)), ka))
                    else:
                        out.append((a, b, 'separated', (how, len(d)), ka))
    return out


def run_table(P, workers=None):
    """-> (results, info). results: list of (A, B, verdict, detail, kind of A at the printer) for every pair the tokenizer
    does not give back unchanged."""
    lx, group, kind, dropped = build_table(P)
    pr = Printer(P)
    E = pr.E
    conv = converted_at_printer(P)
    kap = {}
    for s, g in group.items():
        ks = [kind[s]]
        if conv != 'never':
            alt = None
            if g == 'number' and 'TK_NUM' in E and kind[s] == E.get('TK_PP_NUM'):
                alt = E['TK_NUM']
            if g == 'keyword' and 'TK_KEYWORD' in E and kind[s] == E.get('TK_IDENT'):
                alt = E['TK_KEYWORD']
            if alt is not None:
                ks = [alt] if conv == 'always' else ks + [alt]
        kap[s] = ks
    # a keyword spelling is also listed as a word (same characters); keep one entry per spelling
    prevs = sorted(group)
    nxts = sorted(group)
    info = {'spellings': len(group), 'dropped': [d.decode('utf-8', 'replace') for d in dropped], 'pairs': len(prevs) * len(nxts), 'converted': conv,
            'group': group, 'kind': kind}
    n = workers if workers is not None else min(8, max(1, (os.cpu_count() or 2) // 2))
    chunks = [prevs[i::n] for i in range(n)] if n > 1 else [prevs]
    results = [None] * len(chunks)
    pids = []
    if n > 1:
        try:
            for i, ch in enumerate(chunks):
                rfd, wfd = os.pipe()
                pid = os.fork()
                if pid == 0:
                    code = 0
                    try:
                        signal.alarm(200)       # a worker never outlives the budget of the check
                        os.close(rfd)
                        data = pickle.dumps(_work(P, lx, pr, group, kind, kap, ch, nxts))
                        with os.fdopen(wfd, 'wb') as w:
                            w.write(data)
                    except BaseException:
                        code = 3
                    finally:
                        os._exit(code)
                os.close(wfd)
                pids.append((i, pid, rfd))
        except OSError:
            pass
        for i, pid, rfd in pids:
            try:
                with os.fdopen(rfd, 'rb') as r:
                    data = r.read()
                _, st = os.waitpid(pid, 0)
                if st == 0 and data:
                    results[i] = pickle.loads(data)
                elif os.WIFSIGNALED(st):
                    results[i] = [(b'?', b'?', 'undecided', 'the evaluation of a part of the table did not finish in time', None)]
            except Exception:
                results[i] = None
    for i, ch in enumerate(chunks):
        if results[i] is None:      # no fork, or a worker failed: same computation in this process
            results[i] = _work(P, lx, pr, group, kind, kap, ch, nxts)
    return [x for r in results for x in r], info


def describe_pair(info, enum_name, a, b):
    """stable class name of a pair: kind and last-character class of the previous token, first-character class of the next one
    (punctuators by their full spelling)"""
    g = info['group']
    def pn(s):
        return 'punct-' + '-'.join(CHAR_NAME.get(chr(c), 'char-%02x' % c) for c in s)
    da = pn(a) if g[a] == 'punct' else '%s-ends-%s' % (g[a], char_class(a[-1], g[a] == 'number'))
    db = pn(b) if g[b] == 'punct' else 'starts-%s' % char_class(b[0])
    return '%s(%s)+%s' % (enum_name, da, db)
