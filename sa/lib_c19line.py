"""Private helper of the C19 rule module: the LINE structure of the -E text, read back.

print_tokens() is interpreted on short CONCRETE token lists (lib_c19.Printer's machine; fields other than kind, spelling
and the two separator flags stay unconstrained, so every answer about origin / hide set / file forks a path); the text it
writes goes through the text phases of tokenize_file() (lib_c19rb.ReadBack: line splicing happens there) and through
tokenize() (lib_c19.Lexer's machine), and what comes back is compared with the list that was printed: the spellings, and
which tokens are the first of their line.  No directive reaches the printer (preprocess2 consumes every line that begins
with the directive introducer and has no origin), so a token that comes back as the first token of a line AND is spelled
like the introducer that is_hash() of preprocess.c tests for has become a directive that the program never had.

Nothing is built or run.
"""
from .interp import Obj, Infeasible
from .build import AnalysisBroken
from .lib_c09 import chain, literals_compared
from .lib_c19 import Printer, Lexer, cbuf, spelling_of, _out_items, OUTS, STATUS, build_table
from .lib_c19rb import ReadBack

PU = 'preprocess.c'


def introducers(P):
    """spellings that begin a directive: what the predicate of preprocess.c that preprocess2 asks about the first token of a
    line (a function that reads ->at_bol and compares the token with string literals, and that preprocess2 calls) compares with"""
    u = P.unit(PU)
    if 'preprocess2' not in u.functions:
        raise AnalysisBroken('anchor preprocess2 vanished from %s' % PU)
    out = []
    called = set(c.callee() for c in u.fn('preprocess2').walk() if c.kind == 'CallExpr' and c.callee())
    for g in sorted(called):
        if g not in u.functions or len(u.params(g)) != 1:
            continue
        fn = u.fn(g)
        if not any(m.kind == 'MemberExpr' and m.name == 'at_bol' for m in fn.walk()):
            continue
        for s in literals_compared(fn):
            if s and s not in out:
                out.append(s)
    if not out:
        # the test is written inline
        fn = u.fn('preprocess2')
        for c in fn.calls('equal'):
            a = c.args()
            s = a[-1].str_value() if a else None
            p = c.parent
            k = 0
            while p is not None and k < 4 and p.kind not in ('IfStmt',):
                p = p.parent
                k += 1
            if s and p is not None and any(m.kind == 'MemberExpr' and m.name == 'at_bol' for m in p.inner[0].walk()) and s not in out:
                out.append(s)
    if not out:
        raise AnalysisBroken('the test for the beginning of a directive (a token at the beginning of a line compared with "#") is not recognised in %s' % PU)
    return [s.encode() for s in out]


class Lines:
    def __init__(self, P):
        self.P = P
        self.pr = Printer(P)
        self.rb = ReadBack(P)
        self.lx = Lexer(P)
        self.E = self.pr.E

    def kind_of(self, bs):
        r = self.lx.lex(bs)
        if not (isinstance(r, tuple) and len(r) == 1 and r[0] != 'error' and r[0][1] == bs):
            raise AnalysisBroken('the tokenizer does not read %r as one token' % bs)
        return r[0][0]

    def printed(self, specs, max_paths=256):
        """specs: list of (spelling, at_bol, has_space) -> list of (text bytes | None, trail) per returning path of the printer"""
        it, E = self.pr.it, self.E
        kinds = [self.kind_of(s[0]) for s in specs]

        def mk(ctx):
            toks = []
            for i, (bs, ab, hs) in enumerate(specs):
                toks.append(Obj('Token', lazy=True, label='t%d' % i, fields={'kind': kinds[i], 'loc': cbuf(bs, 't%d' % i), 'len': len(bs), 'at_bol': ab, 'has_space': hs, 'next': 0}))
            toks.append(Obj('Token', lazy=True, label='eof', fields={'kind': E['TK_EOF'], 'loc': cbuf(b'', 'eof'), 'len': 0, 'at_bol': 1, 'has_space': 0, 'next': 0}))
            for a, b in zip(toks, toks[1:]):
                a.fields['next'] = b
            return [toks[0]]
        res = []
        for ctx, out in it.explore(self.pr.fn, mk, max_paths=max_paths):
            if out[0] != 'ret' and not (out[0] == 'noreturn' and out[1] in STATUS):
                continue        # (error paths write no -E text that is read again)
            text = b''
            for e in ctx.events:
                if e[0] != 'call' or e[1] not in OUTS:
                    continue
                t = _out_items(e[1], e[2])
                if t is None:
                    text = None
                    break
                for x in t:
                    if x[0] == 'sep':
                        text += x[1].encode('latin-1', 'replace')
                    else:
                        sp = spelling_of(x[2], it.settle(x[1]))
                        if sp is None:
                            text = None
                            break
                        text += sp
                if text is None:
                    break
            res.append((text, ctx.trail))
        return res

    def read_back(self, text):
        """bytes -> list of (spelling, first of its line?) as tokenize_file()'s text phases and tokenize() give them, or ('error', fn)"""
        y = self.rb.phases(text)
        it = self.lx.it

        def mk(ctx):
            return [Obj('File', lazy=False, label='file', fields={'name': 'x', 'display_name': 'x', 'file_no': 1, 'line_delta': 0, 'contents': cbuf(y)})]
        ps = it.explore('tokenize', mk, max_paths=4)
        if len(ps) != 1:
            raise AnalysisBroken('tokenize() on the concrete text %r does not evaluate to one run (%d paths)' % (y, len(ps)))
        ctx, out = ps[0]
        if out[0] != 'ret':
            return ('error', out[1])
        toks, _ = chain(it, out[1], limit=256)
        r = []
        for t in toks:
            k = it.settle(t.fields.get('kind'))
            sp = spelling_of(t.fields.get('loc'), it.settle(t.fields.get('len')))
            ab = it.settle(t.fields.get('at_bol'))
            if not isinstance(k, int) or sp is None or not isinstance(ab, int):
                raise AnalysisBroken('tokenize() on the concrete text %r yields a token whose kind/spelling/at_bol is not concrete' % (y,))
            if k == self.lx.eof:
                return r
            r.append((sp, 1 if ab else 0))
        raise AnalysisBroken('tokenize() on the concrete text %r yields a list without EOF' % (y,))

    def sample_spellings(self):
        """one-token spellings of the tokenizer's own table (lib_c19.build_table), by group"""
        _, group, kind, _ = build_table(self.P)
        return group
