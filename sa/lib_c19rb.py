"""Private helper of the C19 rule module: the -E text is read back through tokenize_file().

The text that print_tokens writes is made of token spellings.  A spelling either comes from a source file - then it has
been through the text phases of tokenize_file() (line-ending canonicalisation, line splicing, \\uXXXX decoding) once - or
from a text the preprocessor spells and tokenises itself (the string made for __FILE__ / # by quoting, a number, a -D
body), which has been through none of them.  When the output is compiled or preprocessed again, tokenize_file() applies
the phases to ALL of it.  So

* readback(): tokenize_file() interpreted on a CONCRETE buffer (lib_c19.CMachine) up to the call of tokenize(): the text
  the tokenizer is given for a file with these contents;
* producers(): the functions of preprocess.c that hand a text made from a `char *` parameter to tokenize(); produced():
  such a function interpreted on a concrete string up to the call of tokenize(): the text that is tokenised.

Nothing is built or run.
"""
from .interp import Obj, Arr, ElemPlace, _Ref, NORETURN
from .build import AnalysisBroken
from .lib_c19 import CMachine, cbuf, cstr

TU = 'tokenize.c'
PU = 'preprocess.c'


def _bytes_of(v):
    s = cstr(v)
    return None if s is None else bytes(c & 255 for c in s)


def _contents_at_tokenize(it, out):
    """outcome of a path that was cut at tokenize(file): the concrete contents of `file`"""
    if out[0] != 'noreturn' or out[1] != 'tokenize' or not out[2]:
        return None
    f = it.settle(out[2][0])
    if not isinstance(f, Obj):
        return None
    return _bytes_of(it.settle(f.fields.get('contents')))


def _cut_new_file(it, ctx, n, args):
    if len(args) != 3:
        raise AnalysisBroken('new_file() no longer takes (name, file_no, contents)')
    return Obj('File', lazy=False, label='file', fields={'name': args[0], 'display_name': args[0], 'file_no': args[1], 'line_delta': 0, 'contents': args[2]})


def _m_strdup(it, ctx, n, a):
    s = cstr(a[0])
    if s is None:
        raise AnalysisBroken('strdup() of a string that is not concrete')
    return _Ref(ElemPlace(Arr(list(s) + [0], 'dup'), 0))


def _m_strndup(it, ctx, n, a):
    s = cstr(a[0])
    if s is None or not isinstance(a[1], int):
        raise AnalysisBroken('strndup() of a string that is not concrete')
    return _Ref(ElemPlace(Arr(list(s[:a[1]]) + [0], 'dup'), 0))


def _m_strcpy(it, ctx, n, a):
    s = cstr(a[1])
    d = a[0]
    if s is None or not (isinstance(d, _Ref) and isinstance(d.place, ElemPlace) and isinstance(d.place.arr, Arr) and isinstance(d.place.i, int)) \
            or d.place.i + len(s) >= len(d.place.arr.elems):
        raise AnalysisBroken('strcpy() on operands that are not concrete')
    for k, c in enumerate(list(s) + [0]):
        d.place.arr.elems[d.place.i + k] = c
    return d


def _m_format(it, ctx, n, a):
    """format(fmt, ...) of strings.c (a printf into a fresh buffer) for a concrete format made of literal characters, %%,
    %s / %.*s (concrete strings), %c and %d %i %u %ld %lu (concrete integers, no flags / width).  Anything else - a
    conversion not listed, a format or an operand that is not concrete, operands left over - is not interpreted."""
    fmt = cstr(a[0]) if a else None
    if fmt is None:
        raise AnalysisBroken('format() with a format string that is not concrete')
    out, k, j = [], 1, 0

    def arg():
        nonlocal k
        if k >= len(a):
            raise AnalysisBroken('format(): the format %r asks for more operands than the call has' % bytes(c & 255 for c in fmt))
        k += 1
        return it.settle(a[k - 1])
    while j < len(fmt):
        c = fmt[j]; j += 1
        if c != 37:
            out.append(c)
            continue
        spec = ''
        while j < len(fmt):
            spec += chr(fmt[j] & 255); j += 1
            if spec[-1] in '%scdiuxXpfgeo':
                break
        if spec == '%':
            out.append(37)
        elif spec in ('s', '.*s'):
            lim = arg() if spec == '.*s' else None
            s = cstr(arg())
            if s is None or (spec == '.*s' and (isinstance(lim, bool) or not isinstance(lim, int))):
                raise AnalysisBroken('format(): the string for %%%s is not concrete' % spec)
            out += s if lim is None or lim < 0 else s[:lim]
        elif spec == 'c':
            v = arg()
            if isinstance(v, bool) or not isinstance(v, int) or not v & 255:
                raise AnalysisBroken('format(): the character for %c is not concrete')
            v &= 255
            out.append(v - 256 if v >= 128 else v)
        elif spec in ('d', 'i', 'u', 'ld', 'li', 'lu'):
            v = arg()
            if isinstance(v, bool) or not isinstance(v, int) or (spec[-1] == 'u' and v < 0):
                raise AnalysisBroken('format(): the integer for %%%s is not concrete' % spec)
            out += [ord(ch) for ch in str(v)]
        else:
            raise AnalysisBroken('format(): the conversion %%%s is not interpreted' % spec)
    if k != len(a):
        raise AnalysisBroken('format(): the format %r does not consume every operand of the call' % bytes(c & 255 for c in fmt))
    return _Ref(ElemPlace(Arr(out + [0], 'formatted'), 0))


COPY_MODELS = {'strdup': _m_strdup, 'strndup': _m_strndup, 'strcpy': _m_strcpy, 'format': _m_format}


class ReadBack:
    """tokenize_file() on concrete contents"""

    def __init__(self, P):
        self.P = P
        self.u = P.unit(TU)
        for f in ('tokenize_file', 'tokenize', 'new_file'):
            if f not in self.u.functions:
                raise AnalysisBroken('anchor %s vanished from %s' % (f, TU))
        if not self.u.fn('tokenize_file').calls('read_file'):
            raise AnalysisBroken('tokenize_file no longer reads its text through read_file()')
        self.cache = {}
        self.box = {}
        box = self.box

        def m_read(it, ctx, n, args):
            return cbuf(box['text'], 'contents')

        def m_realloc(it, ctx, n, args):
            return _Ref(ElemPlace(Arr([0] * 64, 'mem'), 0))
        self.it = CMachine(P, self.u, {'models': dict(COPY_MODELS, read_file=m_read, realloc=m_realloc), 'cut': {'new_file': _cut_new_file},
                                       'noreturn': set(NORETURN) | {'tokenize'}, 'loop_limit': 0})

    def phases(self, bs):
        """bytes -> bytes: what tokenize() is given for a file with the contents bs"""
        if bs in self.cache:
            return self.cache[bs]
        self.box['text'] = bs
        ps = self.it.explore('tokenize_file', lambda ctx: ['x.c'], max_paths=8)
        if len(ps) != 1:
            raise AnalysisBroken('tokenize_file() on the concrete text %r does not evaluate to one run (%d paths)' % (bs, len(ps)))
        r = _contents_at_tokenize(self.it, ps[0][1])
        if r is None:
            raise AnalysisBroken('tokenize_file() on the concrete text %r does not reach tokenize() with concrete contents (%s)' % (bs, ps[0][1][0:2]))
        self.cache[bs] = r
        return r


def _ptype(p):
    return (p.type or '').replace(' ', '').replace('const', '')


def producers(P):
    """functions of preprocess.c that call tokenize() and have a `char *` parameter the tokenised text can be made from:
    list of (name, index of the text parameter, ...)"""
    u = P.unit(PU)
    out = []
    for name, fn in sorted(u.functions.items()):
        if not fn.calls('tokenize'):
            continue
        ps = u.params(name)
        idx = [i for i, p in enumerate(ps) if _ptype(p) == 'char*']
        if idx:
            out.append((name, idx))
    return out


class Producer:
    def __init__(self, P):
        self.P = P
        self.u = P.unit(PU)
        su = P.unit('strings.c')
        if 'format' not in su.functions or not su.fn('format').calls({'vfprintf', 'vsnprintf', 'vsprintf', 'vasprintf'}):
            raise AnalysisBroken('format() of strings.c is no longer a printf into a fresh buffer (the model of it would be a guess)')
        self.it = CMachine(P, self.u, {'models': dict(COPY_MODELS), 'cut': {'new_file': _cut_new_file}, 'noreturn': set(NORETURN) | {'tokenize'}, 'loop_limit': 0})

    def produced(self, fname, which, raw):
        """the text(s) fname hands to tokenize() when its `char *` parameter number `which` is the string raw (its other
        `char *` parameters a plain word): set of bytes over all paths; raises AnalysisBroken when not concrete"""
        ps = self.u.params(fname)

        def mk(ctx):
            a = []
            for i, p in enumerate(ps):
                t = _ptype(p)
                if t == 'char*':
                    a.append(cbuf(raw if i == which else b'w', p.name or 'p%d' % i))
                elif t == 'Token*':
                    a.append(Obj('Token', lazy=True, label=p.name or 'p%d' % i))
                elif t in ('int', 'long', 'bool', '_Bool', 'unsigned', 'unsignedint'):
                    a.append(7)
                else:
                    raise AnalysisBroken('%s() has a parameter of type %s the rule does not supply' % (fname, p.type))
            return a
        res = set()
        n = 0
        for ctx, out in self.it.explore(fname, mk, max_paths=32):
            if out[0] == 'noreturn' and out[1] != 'tokenize':
                continue
            n += 1
            r = _contents_at_tokenize(self.it, out)
            if r is None:
                raise AnalysisBroken('%s() does not reach tokenize() with a concrete text on every path' % fname)
            res.add(r)
        if not n:
            raise AnalysisBroken('%s() has no path that reaches tokenize()' % fname)
        return res


# raw strings (values, not spellings) whose spelled form contains what the text phases look for; no line ends: a token
# spelling, a file name and a -D body that the rule speaks about do not contain any
RAW = [
    ('universal-character-name-u', b'a\\u00e9b'),
    ('universal-character-name-U', b'a\\U000000e9b'),
    ('escaped-backslash-then-u-and-four-hex-digits', b'"rep\\\\u00e9rt"'),
    ('escaped-backslash-then-U-and-eight-hex-digits', b'"rep\\\\U000000e9rt"'),
    ('double-quote-then-u-and-hex-digits', b'q"u00e9'),
    ('plain', b'x+1'),
]

# texts of a source file: the phases applied twice give what they give applied once
FILE_TEXTS = [
    ('universal-character-name-u', b'int a\\u00e9b;'),
    ('universal-character-name-U', b'int a\\U000000e9b;'),
    ('two-universal-character-names', b'"\\u00e9\\u00e8"'),
    ('escaped-backslash-then-u', b'"rep\\\\u00e9rt"'),
    ('escaped-backslash-then-U', b'"rep\\\\U000000e9rt"'),
    ('escaped-backslash-then-universal-character-name', b'"\\\\\\u00e9"'),
    ('universal-character-name-with-too-few-digits', b'"\\u00g9 \\u12"'),
    ('backslash-pairs', b'"a\\\\" \'\\\\\' "\\\\\\\\u00e9"'),
    ('spliced-line', b'ab\\\ncd\n'),
    ('spliced-universal-character-name', b'"\\u00\\\ne9"\n'),
    ('crlf-line-ends', b'a\r\nb\rc\n'),
    ('backslash-crlf', b'a\\\r\nb\n'),
    ('two-backslashes-newline', b'"a\\\\\nb"\n'),
]
