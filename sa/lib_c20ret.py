"""C20 R20.16: the shape of a return statement as the PARSER builds it.

gen_stmt's ND_RETURN arm evaluates node->lhs with gen_expr() and jumps to the epilogue; what is then on the x87 register stack is decided by the
TYPE of node->lhs alone (contract R20.1: +1 iff long double). The caller, on the other hand, takes from %st(0) what the function's RETURN TYPE
says (R20.5).  The two agree only if the parser gives node->lhs the x87 class of the return type - by converting the returned expression to the
return type (a conversion to void is what routes the expression through the discarding generator).  Here the parser's `return` arm is interpreted
on abstract tokens for every (return type kind, expression type kind) pair C allows."""
from .interp import Obj, View, Cell, _Ref, VarPlace, NoReturn
from .build import AnalysisBroken

RULE = 'R20.16'
KINDS = ('TY_VOID', 'TY_BOOL', 'TY_CHAR', 'TY_SHORT', 'TY_INT', 'TY_LONG', 'TY_FLOAT', 'TY_DOUBLE', 'TY_LDOUBLE', 'TY_ENUM', 'TY_PTR', 'TY_STRUCT', 'TY_UNION')
AGG = ('TY_STRUCT', 'TY_UNION')
SIZE = {'TY_VOID': 1, 'TY_BOOL': 1, 'TY_CHAR': 1, 'TY_SHORT': 2, 'TY_INT': 4, 'TY_LONG': 8, 'TY_FLOAT': 4, 'TY_DOUBLE': 8, 'TY_LDOUBLE': 16, 'TY_ENUM': 4, 'TY_PTR': 8,
        'TY_STRUCT': 24, 'TY_UNION': 24}


def _cls(E, k):
    """what evaluating / receiving a value of this type kind means for the x87 stack: 'ld' one value, 'agg' whatever the layout of the aggregate
    says (gen_stmt loads a returned aggregate into the return registers, %st(0) among them), 'none' nothing"""
    if not isinstance(k, int):
        return None
    return 'ld' if k == E['TY_LDOUBLE'] else ('agg' if k in (E['TY_STRUCT'], E['TY_UNION']) else 'none')


def _is_c(rk, ek):
    """is `return <expression of kind ek>;` in a function returning rk a program of C (6.8.6.4, 6.5.16.1; GNU C lets a void function return any
    expression)?  Only the aggregate / scalar mix and a void value for a non-void function are excluded: the other pairs convert."""
    if rk == 'TY_VOID':
        return True
    if ek == 'TY_VOID':
        return False
    if (rk in AGG) != (ek in AGG):
        return False
    if rk in AGG and rk != ek:
        return False
    return True


def return_builders(pu):
    """functions of parse.c that hand the enumerator ND_RETURN to a constructor / store it (not: compare with it)"""
    out = set()
    for fname, fd in pu.functions.items():
        for n in fd.walk():
            if n.kind == 'DeclRefExpr' and n.ref_name == 'ND_RETURN':
                par = n.parent
                while par is not None and par.kind in ('ImplicitCastExpr', 'ParenExpr', 'ConstantExpr'):
                    par = par.parent
                if par is not None and (par.kind == 'CaseStmt' or (par.kind == 'BinaryOperator' and par.opcode in ('==', '!='))):
                    continue
                out.add(fname)
    return out


def r_return_shape(P, rep):
    from .lib_parse import TokenModel
    rep.rule(RULE, 'the return statement the parser builds carries an operand whose x87 class (long double: one value / aggregate: by its layout / anything else, void included: nothing) is that of the function\'s return type, for every '
                   'pair of return type and type of the returned expression C allows (also `return e;` in a void function): gen_stmt leaves on the x87 stack what the type of '
                   'that operand says (R20.1/R20.2), the caller takes what the return type says (R20.5)', floor=80)
    pu = P.unit('parse.c')
    E = pu.enums
    builders = return_builders(pu)
    if not builders:
        raise AnalysisBroken('parse.c: no function builds ND_RETURN nodes')
    for k in KINDS + ('ND_RETURN', 'ND_CAST'):
        if k not in E:
            raise AnalysisBroken('enumerator %s vanished' % k)
    if 'stmt' not in pu.functions:
        raise AnalysisBroken('parse.c: stmt vanished')
    # the statement parser is interpreted on a `return` token (helpers it calls are interpreted with it); a function that builds return nodes
    # and is not called by the statement parser is interpreted by itself
    reach = {c.callee() for c in pu.fn('stmt').find('CallExpr')}
    entries = ['stmt'] + sorted(f for f in builders if f != 'stmt' and f not in reach)
    for fname in entries:
        where = 'parse.c:%d' % pu.fn(fname).line
        ps = pu.params(fname)
        sig = [(p.type or '').replace(' ', '') for p in ps]
        if sig != ['Token**', 'Token*']:
            rep.undecided(RULE, 'parse.c:%s:return-operand' % fname, '%s builds ND_RETURN nodes but is not a (Token **rest, Token *tok) parser function' % fname, where=where)
            continue
        for rk in KINDS:
            for ek in KINDS:
                if not _is_c(rk, ek):
                    continue
                _pair(P, pu, E, rep, fname, rk, ek, where, TokenModel)


def _mk_type(E, k, label):
    t = Obj('Type', lazy=True, label=label)
    t.fields.update({'kind': E[k], 'size': SIZE[k], 'align': min(SIZE[k], 16) if k not in AGG else 8, 'is_unsigned': 0, 'is_atomic': 0, 'origin': 0})
    return t


def _pair(P, pu, E, rep, fname, rk, ek, where, TokenModel):
    key = 'parse.c:%s:return-operand/%s-function/%s-expression' % (fname, rk[3:].lower(), ek[3:].lower())
    box = {}

    def m_expr(it, ctx, n, args):
        # the returned expression: any expression of the kind under test, already typed
        e = Obj('Node', lazy=True, label='exp')
        e.fields['ty'] = ctx.ety
        e.fields['tok'] = Obj('Token', lazy=True, label='exp.tok')
        ctx.exp = e
        ctx.emit('call', 'expr', args, n.line, e)
        tm.advance(it, ctx, args[0], 'expr')
        return e

    def m_add_type(it, ctx, n, args):
        return None      # typed already (add_type returns at once on a typed node)

    tm = TokenModel(P, pu, [fname], extra_opaque=[], cut={'expr': m_expr, 'add_type': m_add_type}, loop_limit=1)
    it = tm.interp()

    def mk(ctx):
        rty = _mk_type(E, rk, 'return_ty')
        ety = _mk_type(E, ek, 'exp.ty')
        fty = Obj('Type', lazy=True, label='fnty')
        fty.fields.update({'kind': E['TY_FUNC'], 'return_ty': rty})
        fn = Obj('Obj', lazy=True, label='current_fn')
        fn.fields.update({'ty': fty, 'name': 'f', 'is_function': 1})
        ctx.globals['current_fn'] = fn
        ctx.rty, ctx.ety = rty, ety
        tok = tm.token('tok')
        tok.meta['spell'] = Cell(['return'], 'tok.spelling')
        nxt = tm.token('tok.next')
        nxt.meta['spell'] = Cell([k for k in tm.keys if k not in (';', 'return')] or ['<other>'], 'tok.next.spelling')    # `return;` has no operand
        tok.fields['next'] = nxt
        return [_Ref(VarPlace({'rest': None}, 'rest')), tok]
    try:
        allp = it.explore(fname, mk, max_paths=400)
    except AnalysisBroken as e:
        rep.undecided(RULE, key, '%s is not explorable on a return statement: %s' % (fname, e), where=where)
        return
    rets = [(c, o) for c, o in allp if o[0] == 'ret']
    if not allp:
        rep.undecided(RULE, key, '%s has no path on a return statement' % fname, where=where)
        return
    if not rets:
        return            # diagnosed: no such node reaches the code generator
    want = _cls(E, E[rk])
    bad = set()
    und = None
    for c, o in rets:
        node = it.settle(o[1]) if isinstance(o[1], View) else o[1]
        if not isinstance(node, Obj) or node.fields.get('kind') != E['ND_RETURN']:
            und = 'the result of %s on `return e;` is not a return node' % fname
            break
        lhs = node.fields.get('lhs')
        lhs = it.settle(lhs) if isinstance(lhs, View) else lhs
        if not isinstance(lhs, Obj):
            bad.add('the return node has no operand (the returned expression is not evaluated)' if getattr(c, 'exp', None) is not None else 'the returned expression is not parsed')
            continue
        t = lhs.fields.get('ty')
        t = it.settle(t) if isinstance(t, View) else t
        k = t.fields.get('kind') if isinstance(t, Obj) else None
        k = it.settle(k) if isinstance(k, View) else k
        got = _cls(E, k)
        if got is None:
            und = 'the type of the operand of the return node is not concrete'
            break
        if got != want:
            bad.add('the operand of the return node is %s of x87 class `%s`' % ('the unconverted expression' if lhs is getattr(c, 'exp', None) else 'an expression', got))
        # the operand evaluates the returned expression
        inner = lhs
        seen = 0
        while inner is not getattr(c, 'exp', None) and isinstance(inner, Obj) and seen < 4:
            nx = inner.fields.get('lhs')
            inner = it.settle(nx) if isinstance(nx, View) else nx
            seen += 1
        if inner is not getattr(c, 'exp', None):
            bad.add('the operand of the return node does not evaluate the returned expression')
    if und:
        rep.undecided(RULE, key, und, where=where)
        return
    what = {'ld': 'one value (the long double result)', 'none': 'nothing', 'agg': 'what the class of the aggregate says'}[want]
    rep.ob(RULE, key, not bad,
           '`return e;` with e of type %s in a function returning %s: %s; the return type is of x87 class `%s`. gen_stmt(ND_RETURN) generates that operand with gen_expr() and jumps to the epilogue, '
           'so the x87 stack holds what the operand\'s type says, while every caller expects %s there: each call leaves a value on (or pops one too many from) the eight-register x87 stack, '
           'after eight calls every long double computation yields NaN' % (ek[3:].lower(), rk[3:].lower(), '; '.join(sorted(bad)), want, what),
           where=where, facts={'paths': len(rets)})
