"""R01.9: operator table and precedence ladder of the expression parser, by interpreting each
level of parse.c on abstract tokens (sa/lib_parse.py)."""
import re
from .interp import Obj, View, Sym, _Ref, VarPlace
from .lib_parse import TokenModel
from .build import AnalysisBroken

# level -> (operand parser, {token: (node kind or constructor, swapped?)})
LEVELS = [
    ('mul', 'cast', {'*': ('ND_MUL', False), '/': ('ND_DIV', False), '%': ('ND_MOD', False)}),
    ('add', 'mul', {'+': ('new_add', False), '-': ('new_sub', False)}),
    ('shift', 'add', {'<<': ('ND_SHL', False), '>>': ('ND_SHR', False)}),
    ('relational', 'shift', {'<': ('ND_LT', False), '<=': ('ND_LE', False), '>': ('ND_LT', True), '>=': ('ND_LE', True)}),
    ('equality', 'relational', {'==': ('ND_EQ', False), '!=': ('ND_NE', False)}),
    ('bitand', 'equality', {'&': ('ND_BITAND', False)}),
    ('bitxor', 'bitand', {'^': ('ND_BITXOR', False)}),
    ('bitor', 'bitxor', {'|': ('ND_BITOR', False)}),
    ('logand', 'bitor', {'&&': ('ND_LOGAND', False)}),
    ('logor', 'logand', {'||': ('ND_LOGOR', False)}),
]
ASSIGN_OPS = {'=': 'ND_ASSIGN', '+=': 'new_add', '-=': 'new_sub', '*=': 'ND_MUL', '/=': 'ND_DIV', '%=': 'ND_MOD', '&=': 'ND_BITAND', '|=': 'ND_BITOR', '^=': 'ND_BITXOR', '<<=': 'ND_SHL', '>>=': 'ND_SHR'}


def describe(it, n, NK, depth=0):
    """string form of a built tree: KIND(lhs, rhs) with leaves named after the parser call that produced them"""
    if isinstance(n, View):
        n = it.settle(n)
    if isinstance(n, View):
        return n.cell.label or '?'
    if not isinstance(n, Obj):
        return repr(n)
    if n.lazy or n.label:
        return re.sub(r'#\d+$', lambda m: m.group(0), n.label or '?')
    if depth > 6:
        return '...'
    k = NK.get(n.fields.get('kind'), '?')
    parts = [describe(it, n.fields[f], NK, depth + 1) for f in ('lhs', 'rhs') if isinstance(n.fields.get(f), (Obj, View))]
    return '%s(%s)' % (k, ', '.join(parts))


def renumber(s):
    """leaf names carry a global creation counter; renumber them 1,2,3.. in creation order"""
    nums = sorted({int(m.group(2)) for m in re.finditer(r'([A-Za-z_][\w.]*)#(\d+)', s)})
    order = {n: i + 1 for i, n in enumerate(nums)}
    return re.sub(r'([A-Za-z_][\w.]*)#(\d+)', lambda m: '%s#%d' % (m.group(1), order[int(m.group(2))]), s)


def ops_taken(ctx):
    out = []
    for t in ctx.trail:
        m = re.match(r"^(\S+)\.spelling in \{'(.*)'\}$", t)
        if m and "','" not in m.group(2):
            out.append(m.group(2))
    return out


def r_operator_table(P, rep, rule):
    pu = P.unit('parse.c')
    NK = {v: k for k, v in pu.enums.items() if k.startswith('ND_')}
    for fname, sub, table in LEVELS:
        if fname not in pu.functions:
            raise AnalysisBroken('parse.c: %s vanished' % fname)
        where = 'parse.c:%d' % pu.fn(fname).line

        def h_ctor(name):
            def h(it, ctx, n, args):
                o = Obj('Node', lazy=False, label=None)
                o.fields['kind'] = name       # pseudo kind: the constructor's name
                o.fields['lhs'] = args[0]; o.fields['rhs'] = args[1]
                return o
            return h
        tm = TokenModel(P, pu, [fname], extra_opaque=[sub, fname], cut={'new_add': h_ctor('new_add'), 'new_sub': h_ctor('new_sub')}, forever_limit=2)
        it = tm.interp()
        NK2 = dict(NK); NK2['new_add'] = 'new_add'; NK2['new_sub'] = 'new_sub'
        seen = {}
        res = it.explore(fname, lambda ctx: [_Ref(VarPlace({'rest': None}, 'rest')), tm.token('tok')], max_paths=3000)
        for ctx, out in res:
            if out[0] != 'ret':
                continue
            ops = [o for o in ops_taken(ctx) if o in table or o == '<other>']
            tree = renumber(describe(it, out[1], NK2))
            taken = [o for o in ops if o != '<other>']
            if len(taken) == 0:
                ok = tree == '%s#1' % sub
                rep.ob(rule, 'parse.c:%s:operand-parser' % fname, ok, 'with no operator of its level, %s returns %s; the grammar requires the result of %s (next-higher precedence)' % (fname, tree, sub), where=where)
            elif len(taken) == 1:
                kind, swap = table[taken[0]]
                a, b = '%s#1' % sub, '%s#2' % sub
                want = '%s(%s, %s)' % (kind, b, a) if swap else '%s(%s, %s)' % (kind, a, b)
                seen[taken[0]] = tree
                rep.ob(rule, 'parse.c:%s:token-%s' % (fname, taken[0]), tree == want, 'for `a %s b` %s builds %s; C11 6.5 prescribes %s' % (taken[0], fname, tree, want), where=where)
            elif len(taken) == 2 and taken[0] == taken[1] and not table[taken[0]][1]:
                kind = table[taken[0]][0]
                want = '%s(%s(%s#1, %s#2), %s#3)' % (kind, kind, sub, sub, sub)
                rep.ob(rule, 'parse.c:%s:left-associative' % fname, tree == want, '`a %s b %s c` is parsed as %s; the operator is left-associative: %s' % (taken[0], taken[0], tree, want), where=where)
        for tok_ in table:
            if tok_ not in seen:
                rep.ob(rule, 'parse.c:%s:token-%s' % (fname, tok_), False, '%s does not recognise the operator `%s`' % (fname, tok_), where=where)
    # assignment operators
    if 'assign' not in pu.functions:
        raise AnalysisBroken('parse.c: assign vanished')
    where = 'parse.c:%d' % pu.fn('assign').line

    def h_ctor(name):
        def h(it, ctx, n, args):
            o = Obj('Node', lazy=False, label=None)
            o.fields['kind'] = name; o.fields['lhs'] = args[0]
            if len(args) > 1 and isinstance(args[1], (Obj, View)):
                o.fields['rhs'] = args[1]
            return o
        return h
    tm = TokenModel(P, pu, ['assign'], extra_opaque=['conditional', 'assign'], cut={'new_add': h_ctor('new_add'), 'new_sub': h_ctor('new_sub'), 'to_assign': h_ctor('to_assign')})
    it = tm.interp()
    NK2 = dict(NK); NK2.update({'new_add': 'new_add', 'new_sub': 'new_sub', 'to_assign': 'to_assign'})
    seen = {}
    for ctx, out in it.explore('assign', lambda ctx: [_Ref(VarPlace({'rest': None}, 'rest')), tm.token('tok')], max_paths=3000):
        if out[0] != 'ret':
            continue
        ops = [o for o in ops_taken(ctx) if o in ASSIGN_OPS]
        tree = renumber(describe(it, out[1], NK2))
        if not ops:
            rep.ob(rule, 'parse.c:assign:operand-parser', tree == 'conditional#1', 'assign without an assignment operator returns %s, expected the conditional expression' % tree, where=where)
            continue
        op = ops[0]
        k = ASSIGN_OPS[op]
        want = 'ND_ASSIGN(conditional#1, assign#2)' if op == '=' else 'to_assign(%s(conditional#1, assign#2))' % k
        seen[op] = tree
        rep.ob(rule, 'parse.c:assign:token-%s' % op, tree == want, 'for `a %s b` assign builds %s; C11 6.5.16 prescribes %s (right-associative, operator of the compound assignment)' % (op, tree, want), where=where)
    for op in ASSIGN_OPS:
        if op not in seen:
            rep.ob(rule, 'parse.c:assign:token-%s' % op, False, 'assign does not recognise `%s`' % op, where=where)


# ------------------------------------------------------------------ conversions at use sites ---
def r_conversion_sites(P, rep, rule):
    """R01.4: return values and call arguments are converted to the declared type; float variadic arguments are promoted"""
    from .interp import Interp, Cell
    pu = P.unit('parse.c')
    for f in ('funcall', 'stmt', 'new_inc_dec'):
        if f not in pu.functions:
            raise AnalysisBroken('parse.c: %s vanished' % f)
    NK = {v: k for k, v in pu.enums.items() if k.startswith('ND_')}
    TK = {v: k for k, v in pu.enums.items() if k.startswith('TY_')}
    # ---- call arguments
    where = 'parse.c:%d' % pu.fn('funcall').line
    tm = TokenModel(P, pu, ['funcall'], extra_opaque=['assign', 'add_type', 'new_cast', 'new_lvar', 'copy_type'], loop_limit=2)
    it = tm.interp()

    def mk(ctx):
        fn = Obj('Node', lazy=True, label='fn')
        fty = Obj('Type', lazy=True, label='fty')
        fty.fields['kind'] = pu.enums['TY_FUNC']
        fn.fields['ty'] = fty
        return [_Ref(VarPlace({'rest': None}, 'rest')), tm.token('tok'), fn]
    n_decl = n_var = 0
    try:
        first_paths = it.explore('funcall', mk, max_paths=4000)
    except AnalysisBroken as e:
        rep.undecided(rule, 'parse.c:funcall:declared', 'generic exploration of funcall not possible: %s' % e, where=where)
        first_paths = []
    for ctx, out in first_paths:
        if out[0] != 'ret':
            continue
        node = it.settle(out[1]) if isinstance(out[1], View) else out[1]
        casts = [e for e in ctx.events if e[0] == 'call' and e[1] == 'new_cast']
        args = [e for e in ctx.events if e[0] == 'call' and e[1] == 'assign']
        # walk the argument list as built
        lst = []
        a = node.fields.get('args') if isinstance(node, Obj) else None
        while a is not None and not (isinstance(a, int)) and len(lst) < 6:
            a = it.settle(a) if isinstance(a, View) else a
            if isinstance(a, View):
                a = [c for c in a.cell.cands if isinstance(c, Obj)][0]
            lst.append(a)
            a = a.fields.get('next') if isinstance(a, Obj) else None
        for i, (ae, built) in enumerate(zip(args, lst)):
            raw = ae[4]
            rawobj = [c for c in raw.cell.cands if isinstance(c, Obj)][0] if isinstance(raw, View) else raw
            # parameter i: fty.params, .next, .next.next
            plabel = 'fty.params' + '.next' * i
            cast = [c for c in casts if (c[2][0] is raw or c[2][0] is rawobj)]
            pty = None
            for c in cast:
                t = c[2][1]
                t = it.settle(t) if isinstance(t, View) else t
                pty = getattr(t, 'label', None) or repr(t)
            # was there a declared parameter for this argument on this path?
            declared = any(('%s in {<Type %s>}' % (plabel, plabel)) in t for t in ctx.trail)
            aggregate = any(plabel + '.kind' in t and ('TY_STRUCT' in t or 'TY_UNION' in t) and 'in {' in t and t.count(',') <= 1 and 'TY_VOID' not in t for t in ctx.trail)
            if declared and not aggregate:
                n_decl += 1
                ok = len(cast) == 1 and pty == plabel and built is (it.settle(cast[0][4]) if isinstance(cast[0][4], View) else cast[0][4]) or (len(cast) == 1 and pty == plabel)
                rep.ob(rule, 'parse.c:funcall:argument-converted-to-parameter-type', ok,
                       'argument %d of a call to a function with a prototype is converted to %s (expected the type of parameter %d, %s): C11 6.5.2.2p7' % (i, pty, i, plabel), where=where, facts={'path': ctx.trail[-8:]})
            elif not declared:
                isfloat = any(('assign#' in t and '.ty.kind' in t and 'TY_FLOAT' in t and t.count(',') == 0) for t in ctx.trail)
                if cast:
                    n_var += 1
                    rep.ob(rule, 'parse.c:funcall:float-variadic-argument-promoted', pty == 'g:ty_double', 'an argument without a declared parameter is converted to %s; the default argument promotions take float to double' % pty, where=where)
    if n_decl == 0:
        rep.undecided(rule, 'parse.c:funcall:declared', 'no path converts an argument to a declared parameter type', where=where)
    if n_var == 0:
        rep.ob(rule, 'parse.c:funcall:float-variadic-argument-promoted', False, 'no path promotes a float argument passed through "..." to double', where=where)
    # ---- the same for an argument whose type is a *copy* of float (what casts, float arithmetic and float parameters carry: new_cast()/func_params()
    # copy the type object): the promotion must look at the kind of the type, not at the identity of the ty_float object
    where = 'parse.c:%d' % pu.fn('funcall').line

    def float_copy_hook(it_, ctx, o, f, t):
        if o.tname == 'Node' and f == 'ty' and (o.label or '').startswith('assign'):
            ty = Obj('Type', lazy=False, label='copy-of-float')
            ty.fields.update({'kind': pu.enums['TY_FLOAT'], 'size': 4, 'align': 4, 'is_unsigned': 0, 'base': 0, 'next': 0, 'origin': 0, 'is_atomic': 0})
            return ty
        return NotImplemented
    tm2 = TokenModel(P, pu, ['funcall'], extra_opaque=['assign', 'add_type', 'new_cast', 'new_lvar', 'copy_type'], loop_limit=2, lazy_field=float_copy_hook)
    it2 = tm2.interp()

    def mk2(ctx):
        fn = Obj('Node', lazy=True, label='fn')
        fty = Obj('Type', lazy=True, label='fty')
        fty.fields['kind'] = pu.enums['TY_FUNC']
        fty.fields['params'] = 0          # no declared parameter: every argument is passed through "..." / an unprototyped call
        fn.fields['ty'] = fty
        return [_Ref(VarPlace({'rest': None}, 'rest')), tm2.token('tok'), fn]
    n_args = n_prom = 0
    for ctx, out in it2.explore('funcall', mk2, max_paths=2000):
        if out[0] != 'ret':
            continue
        casts = [e for e in ctx.events if e[0] == 'call' and e[1] == 'new_cast']
        for ae in [e for e in ctx.events if e[0] == 'call' and e[1] == 'assign']:
            raw = ae[4]
            rawobj = [c for c in raw.cell.cands if isinstance(c, Obj)][0] if isinstance(raw, View) else raw
            n_args += 1
            mine = [c for c in casts if (c[2][0] is raw or c[2][0] is rawobj)]
            tys = []
            for c in mine:
                t = c[2][1]
                t = it2.settle(t) if isinstance(t, View) else t
                tys.append(getattr(t, 'label', None) or repr(t))
            okp = tys == ['g:ty_double']
            n_prom += 1 if okp else 0
            rep.ob(rule, 'parse.c:funcall:float-typed-variadic-argument-promoted', okp,
                   'an argument whose type is a float type object other than the ty_float singleton (a cast to float, float arithmetic, a float parameter) is passed through "..." %s: it must be converted to double (C11 6.5.2.2p6)'
                   % ('unconverted' if not tys else 'converted to %r' % tys), where=where, facts={'path': ctx.trail[-8:]})
    if n_args == 0:
        rep.undecided(rule, 'parse.c:funcall:float-typed-variadic-argument-promoted', 'no path of funcall consumes an argument in the unprototyped scenario', where=where)
    # ---- concrete (argument type, parameter type) pairs of equal size: the conversion is still required (char -> _Bool is not the identity,
    # and the callee relies on the parameter's own representation)
    from .lib_types import Types as _Types
    _T = _Types(P)
    for aty, pty_name in (('char', 'bool'), ('uchar', 'bool'), ('int', 'uint'), ('uint', 'int'), ('long', 'ulong'), ('uchar', 'char'), ('short', 'ushort')):
        box = {}

        def hook3(it_, ctx, o, f, t, aty=aty):
            if o.tname == 'Node' and f == 'ty' and (o.label or '').startswith('assign'):
                return _T.make(it_, aty)
            return NotImplemented
        tm3 = TokenModel(P, pu, ['funcall'], extra_opaque=['assign', 'add_type', 'new_cast', 'new_lvar', 'copy_type'], loop_limit=1, lazy_field=hook3)
        it3 = tm3.interp()

        def mk3(ctx, pty_name=pty_name):
            it3.ctx = ctx
            fn = Obj('Node', lazy=True, label='fn')
            fty = Obj('Type', lazy=True, label='fty')
            fty.fields['kind'] = pu.enums['TY_FUNC']
            base = _T.make(it3, pty_name)
            par = Obj('Type', lazy=False, label='param0', fields=dict(base.fields))
            par.fields['next'] = 0
            fty.fields['params'] = par
            fty.fields['is_variadic'] = 0
            box['par'] = par
            fn.fields['ty'] = fty
            return [_Ref(VarPlace({'rest': None}, 'rest')), tm3.token('tok'), fn]
        key3 = 'parse.c:funcall:same-size-argument-converted/%s-to-%s' % (aty, pty_name)
        try:
            paths3 = [(c, o) for c, o in it3.explore('funcall', mk3, max_paths=1500) if o[0] == 'ret']
        except AnalysisBroken as e:
            rep.undecided(rule, key3, 'funcall not explorable for this pair: %s' % e, where=where); continue
        seen = 0
        bad3 = None
        for ctx, out in paths3:
            asg = [e for e in ctx.events if e[0] == 'call' and e[1] == 'assign']
            if len(asg) != 1:
                continue          # the one-argument call
            seen += 1
            raw = asg[0][4]
            rawobj = [c for c in raw.cell.cands if isinstance(c, Obj)][0] if isinstance(raw, View) else raw
            casts = [e for e in ctx.events if e[0] == 'call' and e[1] == 'new_cast' and (e[2][0] is raw or e[2][0] is rawobj)]
            tys = [(it3.settle(c[2][1]) if isinstance(c[2][1], View) else c[2][1]) for c in casts]
            if not (len(tys) == 1 and getattr(tys[0], 'label', None) == 'param0'):
                bad3 = 'unconverted' if not tys else 'converted to another type'
        if seen == 0:
            rep.undecided(rule, key3, 'no path of funcall consumes exactly one argument for a one-parameter prototype', where=where); continue
        rep.ob(rule, key3, bad3 is None, 'an argument of type %s for a parameter of type %s is passed %s: C11 6.5.2.2p7 converts every argument to the type of its parameter (the value representation differs although the size is the same, e.g. 2 as _Bool must become 1)' % (aty, pty_name, bad3), where=where)
    # ---- postfix ++ / --
    where = 'parse.c:%d' % pu.fn('new_inc_dec').line

    def ctor(name):
        def h(it_, ctx, n, args):
            o = Obj('Node', lazy=False)
            o.fields['kind'] = name; o.fields['args'] = list(args)
            return o
        return h
    it2 = Interp(P, pu, {'cut': {'new_add': ctor('new_add'), 'to_assign': ctor('to_assign'), 'new_cast': ctor('new_cast'), 'add_type': lambda it_, ctx, n, a: None}})
    A = {}

    def mk2(ctx):
        a = Obj('Node', lazy=True, label='A')
        A['a'] = a
        ctx.c01_A = a
        return [a, Obj('Token', lazy=True, label='tok'), Sym('k', 'int')]
    try:
        outs = [(ctx, o[1]) for ctx, o in it2.explore('new_inc_dec', mk2, max_paths=400) if o[0] == 'ret']
    except Exception as e:       # a lowering that does not go through the cut constructors: its meaning is decided by R01.15 (lib_c01unary.r_incdec)
        outs = []
    # every path that uses the recompute-the-old-value form (T)((A += k) - k') must use it with k' == k and T the operand's type, for every k;
    # paths with another lowering (e.g. a saved old value) are judged by their meaning in R01.15, not by shape
    n_formula = 0
    for ctx, r in outs:
        try:
            cast = r
            if not (isinstance(cast, Obj) and cast.fields.get('kind') == 'new_cast'):
                continue
            add2 = cast.fields['args'][0]
            if not (isinstance(add2, Obj) and add2.fields.get('kind') == 'new_add'):
                continue
            asg = add2.fields['args'][0]
            if not (isinstance(asg, Obj) and asg.fields.get('kind') == 'to_assign'):
                continue
            add1 = asg.fields['args'][0]
            k1 = add1.fields['args'][1].fields.get('val'); k2 = add2.fields['args'][1].fields.get('val')
            from .interp import Lin
            opp = Lin.of(k1).add(Lin.of(k2)) == 0 and repr(k1) == 'k'
            ty_ok = getattr(it2.settle(cast.fields['args'][1]) if isinstance(cast.fields['args'][1], View) else cast.fields['args'][1], 'label', '') .startswith('A.ty') or 'A.ty' in repr(cast.fields['args'][1])
            ok = add1.fields['kind'] == 'new_add' and add1.fields['args'][0] is getattr(ctx, 'c01_A', None) and opp and ty_ok
            detail = 'built %s(%s(%s(%s(A, %r)), %r), %r)' % (cast.fields['kind'], add2.fields['kind'], asg.fields['kind'], add1.fields['kind'], k1, k2, cast.fields['args'][1])
        except Exception as e:
            continue
        n_formula += 1
        rep.ob(rule, 'parse.c:new_inc_dec:postfix-shape', ok, 'A++ / A-- lowered as (typeof A)((A += k) - k): %s' % detail, where=where)
    return n_formula
