"""Tiny evaluator for the C subset used by the function definitions in chibicc's own headers
(include/stdarg.h: __va_arg_mem/__va_arg_gp/__va_arg_fp). clang cannot type-check these functions
(they do integer arithmetic on `void *`, which chibicc accepts), so they are parsed here: declarations
with initialiser, if/else, assignment and op=, return, calls between the header's functions; pointers
are integers, `->` reads/writes a field of a dict. Anything else raises NotInSubset (-> undecided).
The parser keeps the tokens of every type name it skips (4th element of 'decl', 3rd of 'cast'): Eval ignores them, the typed
evaluator of sa/lib_c16.py (C16 R16.8) gives declarations and casts their C meaning."""
import re


class NotInSubset(Exception):
    pass


_TOK = re.compile(r'\s*(?:(0[xX][0-9a-fA-F]+[uUlL]*|\d+[uUlL]*)|([A-Za-z_]\w*)|(->|\+\+|--|\+=|-=|\*=|/=|%=|\^=|&=|\|=|<<=|>>=|<<|>>|<=|>=|==|!=|&&|\|\||[-+*/%&|^~!<>=(){};,?:.\[\]]))')
TYPEWORDS = {'void', 'char', 'short', 'int', 'long', 'unsigned', 'signed', 'static', 'const', 'float', 'double', '_Bool'}


def tokenize(text):
    text = re.sub(r'/\*.*?\*/', ' ', text, flags=re.S)
    text = re.sub(r'//[^\n]*', ' ', text)
    out = []
    pos = 0
    while True:
        m = _TOK.match(text, pos)
        if not m:
            if text[pos:].strip():
                raise NotInSubset('cannot tokenize %r' % text[pos:pos + 20])
            break
        pos = m.end()
        if m.group(1) is not None:
            out.append(('num', int(re.sub(r'[uUlL]+$', '', m.group(1)), 0)))
        elif m.group(2) is not None:
            out.append(('id', m.group(2)))
        else:
            out.append(('p', m.group(3)))
    return out


class Parser:
    typed_builtins = ('__builtin_reg_class',)

    def __init__(self, toks, typenames=()):
        self.t = toks; self.i = 0; self.typenames = set(typenames) | TYPEWORDS

    def peek(self, k=0):
        return self.t[self.i + k] if self.i + k < len(self.t) else ('eof', None)

    def eat(self, p=None):
        tok = self.peek()
        if p is not None and tok != ('p', p):
            raise NotInSubset('expected %r, got %r' % (p, tok))
        self.i += 1
        return tok

    def is_type(self, k=0):
        tok = self.peek(k)
        return tok[0] == 'id' and (tok[1] in self.typenames or tok[1] in ('typeof', '__typeof__', '_Atomic'))

    def skip_type(self):
        """skip a type name; returns the tokens it consisted of (for the typed evaluator of sa/lib_c16.py)"""
        n = 0
        start = self.i
        while self.is_type():
            tok = self.peek()
            self.i += 1; n += 1
            if tok[1] in ('typeof', '__typeof__') or (tok[1] == '_Atomic' and self.peek() == ('p', '(')):
                # typeof(expr) / _Atomic(type): skip the balanced parentheses, the operand is not evaluated
                self.eat('(')
                depth = 1
                while depth:
                    t = self.eat()
                    if t[0] == 'eof':
                        raise NotInSubset('unbalanced typeof')
                    if t == ('p', '('):
                        depth += 1
                    elif t == ('p', ')'):
                        depth -= 1
        while self.peek() == ('p', '*'):
            self.i += 1
        if not n:
            raise NotInSubset('type expected')
        return list(self.t[start:self.i])

    # statements -------------------------------------------------------------------
    def block(self):
        self.eat('{')
        out = []
        while self.peek() != ('p', '}'):
            out.append(self.stmt())
        self.eat('}')
        return ('block', out)

    def stmt(self):
        tok = self.peek()
        if tok == ('p', '{'):
            return self.block()
        if tok == ('id', 'if'):
            self.eat(); self.eat('(')
            c = self.expr(); self.eat(')')
            th = self.stmt()
            el = None
            if self.peek() == ('id', 'else'):
                self.eat(); el = self.stmt()
            return ('if', c, th, el)
        if tok == ('id', 'return'):
            self.eat()
            e = self.expr(); self.eat(';')
            return ('return', e)
        if tok == ('id', 'while'):
            self.eat(); self.eat('(')
            c = self.expr(); self.eat(')')
            return ('while', c, self.stmt())
        if tok == ('p', ';'):
            self.eat()
            return ('block', [])
        if tok == ('id', 'for'):
            self.eat(); self.eat('(')
            init = self.stmt() if self.peek() != ('p', ';') else (self.eat() and ('block', []))
            cond = self.expr() if self.peek() != ('p', ';') else ('num', 1)
            self.eat(';')
            inc = self.expr() if self.peek() != ('p', ')') else None
            self.eat(')')
            return ('for', init, cond, inc, self.stmt())
        if tok == ('id', 'do'):
            self.eat()
            body = self.stmt()
            if self.peek() != ('id', 'while'):
                raise NotInSubset('do without while')
            self.eat(); self.eat('(')
            c = self.expr(); self.eat(')'); self.eat(';')
            return ('dowhile', body, c)
        if tok[0] == 'id' and tok[1] in ('switch', 'goto'):
            raise NotInSubset('statement %s' % tok[1])
        if self.is_type():
            tt = self.skip_type()
            name = self.eat()
            if name[0] != 'id':
                raise NotInSubset('declarator')
            init = None
            if self.peek() == ('p', '='):
                self.eat(); init = self.expr()
            self.eat(';')
            return ('decl', name[1], init, tt)
        e = self.expr()
        self.eat(';')
        return ('expr', e)

    # expressions ------------------------------------------------------------------
    LEVELS = [['||'], ['&&'], ['|'], ['^'], ['&'], ['==', '!='], ['<', '>', '<=', '>='], ['<<', '>>'], ['+', '-'], ['*', '/', '%']]

    def expr(self):
        lhs = self.cond()
        tok = self.peek()
        if tok[0] == 'p' and tok[1] in ('=', '+=', '-=', '*=', '/=', '%=', '^=', '&=', '|=', '<<=', '>>='):
            self.eat()
            rhs = self.expr()
            return ('assign', tok[1], lhs, rhs)
        return lhs

    def cond(self):
        c = self.binary(0)
        if self.peek() == ('p', '?'):
            self.eat(); a = self.expr(); self.eat(':'); b = self.cond()
            return ('cond', c, a, b)
        return c

    def binary(self, lvl):
        if lvl == len(self.LEVELS):
            return self.unary()
        lhs = self.binary(lvl + 1)
        while self.peek()[0] == 'p' and self.peek()[1] in self.LEVELS[lvl]:
            op = self.eat()[1]
            rhs = self.binary(lvl + 1)
            lhs = ('bin', op, lhs, rhs)
        return lhs

    def unary(self):
        tok = self.peek()
        if tok == ('p', '(') and self.is_type(1):
            self.eat(); tt = self.skip_type(); self.eat(')')
            return ('cast', self.unary(), tt)
        if tok[0] == 'p' and tok[1] in ('-', '~', '!', '+'):
            self.eat()
            return ('un', tok[1], self.unary())
        if tok[0] == 'id' and tok[1] in ('sizeof', '_Alignof') and self.peek(1) == ('p', '('):
            self.eat(); self.eat('(')
            depth = 1; words = []
            while depth:
                t = self.eat()
                if t[0] == 'eof':
                    raise NotInSubset('unbalanced sizeof')
                if t == ('p', '('):
                    depth += 1
                elif t == ('p', ')'):
                    depth -= 1
                if depth:
                    words.append(str(t[1]))
            return ('typeop', tok[1], ' '.join(words))
        if tok == ('p', '*'):
            self.eat()
            return ('deref', self.unary())
        if tok == ('p', '&'):
            self.eat()
            return ('addr', self.unary())
        return self.postfix()

    def postfix(self):
        tok = self.eat()
        if tok[0] == 'num':
            e = ('num', tok[1])
        elif tok[0] == 'id':
            e = ('var', tok[1])
        elif tok == ('p', '(') and self.peek() == ('p', '{'):
            e = ('stmtexpr', self.block()); self.eat(')')
        elif tok == ('p', '('):
            e = self.expr()
            while self.peek() == ('p', ','):        # comma operator (only inside parentheses: argument lists never get here)
                self.eat(); e = ('comma', e, self.expr())
            self.eat(')')
        else:
            raise NotInSubset('primary %r' % (tok,))
        while True:
            tok = self.peek()
            if tok == ('p', '->'):
                self.eat(); f = self.eat()
                e = ('arrow', e, f[1])
            elif tok == ('p', '[') :
                self.eat(); ix = self.expr(); self.eat(']')
                e = ('index', e, ix)
            elif tok[0] == 'p' and tok[1] in ('++', '--'):
                self.eat()
                e = ('assign', '+=' if tok[1] == '++' else '-=', e, ('num', 1), 'post')
            elif tok == ('p', '(') and e[0] == 'var' and e[1] in self.typed_builtins:
                self.eat()
                depth = 1; words = []
                while depth:
                    t = self.eat()
                    if t[0] == 'eof':
                        raise NotInSubset('unbalanced call')
                    if t == ('p', '('):
                        depth += 1
                    elif t == ('p', ')'):
                        depth -= 1
                    if depth:
                        words.append(str(t[1]))
                e = ('typeop', e[1], ' '.join(words))
            elif tok == ('p', '('):
                self.eat()
                args = []
                while self.peek() != ('p', ')'):
                    args.append(self.expr())
                    if self.peek() == ('p', ','):
                        self.eat()
                self.eat(')')
                if e[0] != 'var':
                    raise NotInSubset('indirect call')
                e = ('call', e[1], args)
            else:
                return e


def parse_functions(text, typenames=()):
    """{name: (params [names], body)} for every `static <type> name(params) { ... }` of the header text"""
    out = {}
    for m in re.finditer(r'\bstatic\s+[\w\s]+?\*?\s*(\w+)\s*\(([^)]*)\)\s*\{', text):
        name = m.group(1)
        depth = 0
        j = m.end() - 1
        while j < len(text):
            if text[j] == '{':
                depth += 1
            elif text[j] == '}':
                depth -= 1
                if depth == 0:
                    break
            j += 1
        body = text[m.end() - 1:j + 1]
        params = []
        for p in m.group(2).split(','):
            mm = re.search(r'(\w+)\s*$', p.strip())
            if mm and p.strip() != 'void':
                params.append(mm.group(1))
        out[name] = (params, Parser(tokenize(body), typenames).block())
    return out


class _Return(Exception):
    def __init__(self, v):
        self.v = v


M64 = (1 << 64) - 1


class Cell:
    """an object: variables are cells, `&x` is the cell, `*p` is its content"""
    def __init__(self, v=0, name='?'):
        self.v = v; self.name = name

    def get(self):
        return self.v

    def set(self, v):
        self.v = v


class Eval:
    def __init__(self, fns, builtins=None):
        self.fns = fns
        self.builtins = builtins or {}
        self.depth = 0
        self.steps = 0
        self.mem = {}            # flat byte memory for integer addresses
        self.lvalues = False     # True: `*p` of an address / object yields ('lvalue', p) instead of a value

    def load_byte(self, b, i):
        if isinstance(b, Cell):
            return getattr(b, 'bytes', {}).get(i, 0)
        if isinstance(b, int):
            return self.mem.get(b + i, 0)
        raise NotInSubset('subscript of a non-pointer')

    def store_byte(self, b, i, v):
        if isinstance(b, Cell):
            if not hasattr(b, 'bytes'):
                b.bytes = {}
            b.bytes[i] = v & 0xff
        elif isinstance(b, int):
            self.mem[b + i] = v & 0xff
        else:
            raise NotInSubset('store through a non-pointer')

    def call(self, name, args):
        if name not in self.fns:
            raise NotInSubset('call of %s' % name)
        params, body = self.fns[name]
        if len(params) != len(args):
            raise NotInSubset('arity of %s' % name)
        self.depth += 1
        if self.depth > 8:
            raise NotInSubset('recursion')
        env = {p_: Cell(a, p_) for p_, a in zip(params, args)}
        try:
            self.exec(body, env)
        except _Return as r:
            return r.v
        finally:
            self.depth -= 1
        return None

    def exec(self, s, env):
        k = s[0]
        if k == 'block':
            for x in s[1]:
                self.exec(x, env)
        elif k == 'if':
            if self.ev(s[1], env):
                self.exec(s[2], env)
            elif s[3] is not None:
                self.exec(s[3], env)
        elif k == 'return':
            raise _Return(self.ev(s[1], env))
        elif k == 'decl':
            env[s[1]] = Cell(self.ev(s[2], env) if s[2] is not None else 0, s[1])
        elif k == 'for':
            inner = env
            self.exec(s[1], inner)
            while self.ev(s[2], inner):
                self.steps += 1
                if self.steps > 2000:
                    raise NotInSubset('loop does not terminate within 2000 iterations')
                self.exec(s[4], inner)
                if s[3] is not None:
                    self.ev(s[3], inner)
        elif k == 'while':
            while self.ev(s[1], env):
                self.steps += 1
                if self.steps > 200:
                    raise NotInSubset('loop does not terminate within 200 iterations')
                self.exec(s[2], env)
        elif k == 'dowhile':
            while True:
                self.steps += 1
                if self.steps > 200:
                    raise NotInSubset('loop does not terminate within 200 iterations')
                self.exec(s[1], env)
                if not self.ev(s[2], env):
                    break
        elif k == 'expr':
            self.ev(s[1], env)
        else:
            raise NotInSubset(k)

    def ev(self, e, env):
        k = e[0]
        if k == 'num':
            return e[1]
        if k == 'var':
            if e[1] not in env:
                raise NotInSubset('unknown identifier %s' % e[1])
            v = env[e[1]]
            return v.get() if isinstance(v, Cell) else v
        if k == 'deref':
            p_ = self.ev(e[1], env)
            if not isinstance(p_, Cell):
                if isinstance(p_, int) and self.lvalues:
                    return ('lvalue', p_)
                raise NotInSubset('dereference of a non-pointer')
            if self.lvalues:
                return ('lvalue', p_)
            return p_.get()
        if k == 'addr':
            t = e[1]
            if t[0] == 'var' and isinstance(env.get(t[1]), Cell):
                return env[t[1]]
            if t[0] == 'deref':
                return self.ev(t[1], env)
            raise NotInSubset('address of this expression')
        if k == 'typeop':
            if e[1] not in self.builtins:
                raise NotInSubset('%s(%s)' % (e[1], e[2]))
            return self.builtins[e[1]](e[2])
        if k == 'index':
            b = self.ev(e[1], env); i = self.ev(e[2], env)
            return self.load_byte(b, i)
        if k == 'stmtexpr':
            inner = dict(env)
            last = None
            for st in e[1][1]:
                if st[0] == 'expr':
                    last = self.ev(st[1], inner)
                else:
                    last = None
                    self.exec(st, inner)
            return last
        if k == 'cast':
            return self.ev(e[1], env)
        if k == 'un':
            v = self.ev(e[2], env)
            return {'-': -v, '~': ~v, '!': int(not v), '+': v}[e[1]]
        if k == 'bin':
            op = e[1]
            if op == '&&':
                return int(bool(self.ev(e[2], env)) and bool(self.ev(e[3], env)))
            if op == '||':
                return int(bool(self.ev(e[2], env)) or bool(self.ev(e[3], env)))
            a, b = self.ev(e[2], env), self.ev(e[3], env)
            if op in ('/', '%'):
                if b == 0:
                    raise NotInSubset('division by zero')
                q = abs(a) // abs(b) * (1 if (a >= 0) == (b >= 0) else -1)
                return q if op == '/' else a - q * b
            return {'+': lambda: a + b, '-': lambda: a - b, '*': lambda: a * b, '<<': lambda: a << b, '>>': lambda: a >> b,
                    '<': lambda: int(a < b), '>': lambda: int(a > b), '<=': lambda: int(a <= b), '>=': lambda: int(a >= b),
                    '==': lambda: int(a == b), '!=': lambda: int(a != b), '&': lambda: a & b, '|': lambda: a | b, '^': lambda: a ^ b}[op]()
        if k == 'cond':
            return self.ev(e[2], env) if self.ev(e[1], env) else self.ev(e[3], env)
        if k == 'comma':
            self.ev(e[1], env)
            return self.ev(e[2], env)
        if k == 'arrow':
            o = self.ev(e[1], env)
            if not isinstance(o, dict) or e[2] not in o:
                raise NotInSubset('->%s' % e[2])
            return o[e[2]]
        if k == 'call':
            if e[1] in self.builtins:
                return self.builtins[e[1]](*[self.ev(a, env) for a in e[2]])
            return self.call(e[1], [self.ev(a, env) for a in e[2]])
        if k == 'assign' and len(e) == 5:
            old_ = self.ev(e[2], env)
            self.ev(e[:4], env)
            return old_
        if k == 'assign':
            op, lhs, rhs = e[1], e[2], e[3]
            v = self.ev(rhs, env)
            if op != '=' and not (lhs[0] == 'deref' and hasattr(self.ev(lhs[1], env), 'rmw')):
                v = self.ev(('bin', op[:-1], lhs, ('num', v)), env)
            if lhs[0] == 'index':
                self.store_byte(self.ev(lhs[1], env), self.ev(lhs[2], env), v)
                return v
            if lhs[0] == 'deref':
                p_ = self.ev(lhs[1], env)
                if not isinstance(p_, Cell):
                    raise NotInSubset('store through a non-pointer')
                if op != '=' and hasattr(p_, 'rmw'):
                    return p_.rmw(op[:-1], self.ev(rhs, env))      # op= on a shared atomic object is one indivisible update (C16 R16.1/R16.2)
                p_.set(v)
            elif lhs[0] == 'var':
                if isinstance(env.get(lhs[1]), Cell):
                    env[lhs[1]].set(v)
                else:
                    env[lhs[1]] = v
            elif lhs[0] == 'arrow':
                o = self.ev(lhs[1], env)
                if not isinstance(o, dict):
                    raise NotInSubset('store through non-object')
                o[lhs[2]] = v
            else:
                raise NotInSubset('assignment target')
            return v
        raise NotInSubset(k)


# ------------------------------------------------------------------ object-like / function-like macros of a header ---
def parse_macros(text):
    """{name: (params or None, body tokens)} for the #define lines of a header (continuation lines joined)"""
    text = re.sub(r'/\*.*?\*/', ' ', text, flags=re.S)
    text = re.sub(r'\\\n', ' ', text)
    out = {}
    for m in re.finditer(r'^[ \t]*#[ \t]*define[ \t]+(\w+)(\(([^)]*)\))?(.*)$', text, re.M):
        name, has, params, body = m.group(1), m.group(2), m.group(3), m.group(4)
        body = re.sub(r'//.*$', '', body)
        try:
            toks = tokenize(body)
        except NotInSubset:
            continue
        out[name] = ([p.strip() for p in params.split(',')] if has and params.strip() else ([] if has else None), toks)
    return out


def expand(toks, macros, depth=0):
    """plain token substitution (no # / ##), enough for the wrappers of the bundled headers"""
    if depth > 20:
        raise NotInSubset('macro recursion')
    out = []
    i = 0
    while i < len(toks):
        t = toks[i]
        if t[0] == 'id' and t[1] in macros:
            params, body = macros[t[1]]
            if params is None:
                out += expand(body, macros, depth + 1); i += 1; continue
            if i + 1 < len(toks) and toks[i + 1] == ('p', '('):
                args = [[]]; d = 0; j = i + 2
                while j < len(toks):
                    u = toks[j]
                    if u == ('p', '(') or u == ('p', '{'):
                        d += 1
                    elif u == ('p', ')') or u == ('p', '}'):
                        if d == 0 and u == ('p', ')'):
                            break
                        d -= 1
                    if u == ('p', ',') and d == 0:
                        args.append([])
                    else:
                        args[-1].append(u)
                    j += 1
                if j >= len(toks):
                    raise NotInSubset('unterminated macro invocation')
                if len(args) != len(params) and not (len(params) == 0 and args == [[]]):
                    raise NotInSubset('macro %s: %d arguments for %d parameters' % (t[1], len(args), len(params)))
                amap = dict(zip(params, args))
                sub = []
                for b in body:
                    if b in (('p', '#'), ('p', '##')):
                        raise NotInSubset('# / ## in macro %s' % t[1])
                    if b[0] == 'id' and b[1] in amap:
                        sub += amap[b[1]]
                    else:
                        sub.append(b)
                out += expand(sub, macros, depth + 1)
                i = j + 1
                continue
        out.append(t); i += 1
    return out
