"""Token model for interpreting parse.c functions with Engine I.

A Token object gets a *spelling cell*: the finite set of strings the function
under analysis compares tokens against (collected from its own equal()/
consume()/skip() calls, resolved through the AST) plus '<other>'.  equal(tok,
"kw") is then a view on that cell, so the interpreter forks exactly on the
distinctions the parser makes."""
from .interp import Interp, Obj, Sym, View, Cell, Term, Infeasible
from .build import AnalysisBroken

OTHER = '<other>'


def spellings(unit, fnames):
    ks = []
    for f in fnames:
        fd = unit.functions.get(f)
        if fd is None:
            continue
        for c in fd.calls(('equal', 'consume', 'skip')):
            a = c.args()
            s = a[-1].str_value() if a else None
            if s is not None and s not in ks:
                ks.append(s)
    return ks


class TokenModel:
    def __init__(self, P, unit, fnames, extra_opaque=(), cut=None, globals_=None, loop_limit=1, track_stores=True, lazy_field=None, forever_limit=64):
        self.P = P
        self.u = unit
        self.keys = spellings(unit, fnames) + [OTHER]
        self.cut = {'equal': self.m_equal, 'consume': self.m_consume, 'skip': self.m_skip}
        # opaque parser functions that take `Token **rest` advance the caller's cursor
        for name in extra_opaque:
            ps = unit.params(name)
            if ps and (ps[0].type or '').replace(' ', '') == 'Token**':
                self.cut[name] = self._advancing(name)
        if cut:
            self.cut.update(cut)
        self.cfg = {'cut': self.cut, 'opaque': list(extra_opaque), 'globals': globals_ or {}, 'loop_limit': loop_limit,
                    'track_stores': track_stores, 'lazy_field': lazy_field, 'forever_limit': forever_limit}

    def _advancing(self, name):
        def h(it, ctx, n, args):
            t = n.dtype or n.type
            r = None if t == 'void' else it.lazy_value(t, ctx.fresh(name))
            ctx.emit('call', name, args, n.line, r)
            self.advance(it, ctx, args[0], name)
            return r
        return h

    def advance(self, it, ctx, rest, why):
        self._store_rest(it, rest, Obj('Token', lazy=True, label=ctx.fresh('tok.after.' + why)))

    def interp(self):
        return Interp(self.P, self.u, self.cfg)

    def token(self, label):
        return Obj('Token', lazy=True, label=label)

    # -- models -------------------------------------------------------------------
    def _tok(self, it, n, t):
        if isinstance(t, View):
            t = it.deref_target(t, n)
        if not isinstance(t, Obj):
            raise AnalysisBroken('token model: %r is not a token object at %s:%d' % (t, self.u.name, n.line))
        return t

    def spell(self, it, n, t):
        t = self._tok(it, n, t)
        c = t.meta.get('spell')
        if c is None:
            c = Cell(list(self.keys), (t.label or 'tok') + '.spelling')
            t.meta['spell'] = c
        return t, c

    def m_equal(self, it, ctx, n, args):
        t, c = self.spell(it, n, args[0])
        kw = args[1]
        if not isinstance(kw, str):
            return Term('equal', Sym(t.label or 'tok'), kw)
        return View(c, lambda s, kw=kw: int(s == kw), 'is:' + kw)

    def m_consume(self, it, ctx, n, args):
        rest, tok, kw = args
        v = self.m_equal(it, ctx, n, [tok, kw])
        r = it.truth(v, n)
        t = self._tok(it, n, tok)
        nxt = it.read_field(t, 'next') if r else t
        self._store_rest(it, rest, nxt)
        return 1 if r else 0

    def _store_rest(self, it, rest, val):
        from .interp import _Ref
        if isinstance(rest, _Ref):
            rest.place.set(it, val)
        # else: opaque pointer; ignore

    def m_skip(self, it, ctx, n, args):
        tok, kw = args
        v = self.m_equal(it, ctx, n, [tok, kw])
        if not it.truth(v, n):
            from .interp import NoReturn
            raise NoReturn('error_tok', ['expected ' + str(kw)], n.line)
        t = self._tok(it, n, tok)
        return it.read_field(t, 'next')


def spelled(it, tok):
    """remaining spellings of a token on this path"""
    c = tok.meta.get('spell') if isinstance(tok, Obj) else None
    return list(c.cands) if c else None
