"""Shared by C01/C02/C04/C16: run the emitted templates of one node kind, for one
concrete operand type, through the term-level machine (sa/x86.py)."""
from .interp import Obj, View, Infeasible
from .chibi import CG, Trace, linearise, apply_invariants, INT_CATS, cat_of
from .x86 import Machine, State, Unknown, lo, ext, norm_bin, C

INTSZ = {'bool': 1, 'char': 1, 'uchar': 1, 'short': 2, 'ushort': 2, 'int': 4, 'uint': 4, 'enum': 4, 'long': 8, 'ulong': 8, 'ptr': 8}
UNSIGNED = {'bool', 'uchar', 'ushort', 'uint', 'ulong', 'ptr'}
FP = {'float': 32, 'double': 64, 'ldouble': 80}


def child_value(name, cat):
    """what the contract says a child expression of type class `cat` leaves: (where, term)"""
    if cat in FP:
        return ('x87' if cat == 'ldouble' else 'xmm0', ('r', name, 'f%d' % FP[cat]))
    if cat in INTSZ:
        sz = INTSZ[cat]
        if sz == 8:
            return ('rax', ('r', name, 64))
        if sz == 4:
            return ('rax', ('hig', ('r', name, 32)))
        if cat in UNSIGNED:
            # every producer of an unsigned narrow value writes a 32-bit register: the whole of %rax is the zero-extension
            return ('rax', ext('zx', sz * 8, 64, ('r', name, sz * 8)))
        return ('rax', ('hig', ext('sx', sz * 8, 32, ('r', name, sz * 8))))
    # aggregates / functions: address in rax
    return ('rax', ('r', name, 64))


def settle_cat(it, v):
    if isinstance(v, View):
        v = it.settle(v)
    c = cat_of(v)
    return c[0] if len(c) == 1 else None


def label_of(o):
    l = getattr(o, 'label', None) or '?'
    return l[5:] if l.startswith('node.') else l


def repclass(cat):
    if cat in FP:
        return cat
    if cat in INTSZ:
        sz = INTSZ[cat]
        if sz == 8:
            return '64'
        if sz == 4:
            return '32'
        return ('u' if cat in UNSIGNED else 's') + str(sz * 8)
    return 'agg:' + str(cat)


def run_paths(cg, fname, mk, want_root=True, max_combos=48):
    """explore, then evaluate each returning path's emitted code with the term machine, once per
    assignment of representation classes to the children whose type the path left open.
    returns list of (ctx, trace, finals | Unknown instance, child_cats, it)"""
    it, res = cg.explore(fname, mk)
    out = []
    for ctx, o in res:
        if o[0] != 'ret':
            continue
        try:
            apply_invariants(it, ctx, ctx.root)
        except Infeasible:
            continue
        tr = Trace(ctx)
        nodes = linearise(tr)
        # children and their still-possible type classes (one representative per representation class)
        kids = {}
        cellof = {}
        for n in nodes:
            if n[0] == 'pseudo' and n[1] == 'expr':
                child = it.settle(n[2]) if isinstance(n[2], View) else n[2]
                name = label_of(child)
                t = child.fields.get('ty') if isinstance(child, Obj) else None
                if t is None:
                    kids[name] = ['int']; cellof[name] = ('free', name); continue   # type never inspected on this path
                if isinstance(t, View):
                    t = it.settle(t)
                cs = cat_of(t)
                reps = {}
                for c in cs:
                    reps.setdefault(repclass(c), c)
                kids[name] = list(reps.values())
                cellof[name] = id(t.cell) if isinstance(t, View) else id(t)
        # children sharing one type cell get the same class
        cells = {}
        for name, cid in cellof.items():
            cells.setdefault(cid, []).append(name)
        cids = list(cells)

        def combos(i, cur):
            if i == len(cids):
                yield dict(cur); return
            names = cells[cids[i]]
            for c in kids[names[0]]:
                for nm in names:
                    cur[nm] = c
                yield from combos(i + 1, cur)
        count = 0
        for cats in combos(0, {}):
            count += 1
            if count > max_combos:
                break

            def pseudo(s, n, it=it, cats=cats):
                kind, child = n[1], n[2]
                if isinstance(child, View):
                    child = it.settle(child)
                name = label_of(child)
                s.events.append(('eval', kind, name))
                # a child may clobber every caller-saved register and the flags
                for r in ('rcx', 'rdx', 'rsi', 'rdi', 'r8', 'r9', 'r10', 'r11'):
                    s.reg[r] = ('clobber', r, name)
                for x in list(s.xmm):
                    s.xmm[x] = ('clobber', 'xmm%d' % x, name)
                s.flags = None
                s.scratch = {}
                if kind == 'addr':
                    s.reg['rax'] = ('r', name + '&', 64)
                    return
                if kind == 'stmt':
                    s.reg['rax'] = ('clobber', 'rax', name)
                    return
                cat = cats.get(name)
                if cat is None:
                    raise Unknown('type class of child %s is not determined on this path' % name)
                where, term = child_value(name, cat)
                if where == 'rax':
                    s.reg['rax'] = term
                elif where == 'xmm0':
                    s.reg['rax'] = ('clobber', 'rax', name)
                    s.xmm[0] = term
                else:
                    s.reg['rax'] = ('clobber', 'rax', name)
                    s.st.append(term)
            try:
                finals = Machine().run(nodes, lambda s: None, pseudo)
            except Unknown as e:
                finals = e
            out.append((ctx, tr, finals, dict(cats), it))
    return out


# ----------------------------------------------------------------- canonical forms ---
BOOLK = ('cmp', 'feq', 'fne', 'flt', 'fle', 'fcc', 'flt_or_unord', 'fle_or_unord', 'feq_or_unord', 'fne_and_ord', 'ford', 'funord')


def canon(t):
    """canonical form of a term (recursive): fp condition codes -> named predicates,
    `x & 1` on a boolean -> x, sorted operands of symmetric predicates"""
    if not isinstance(t, tuple):
        return t
    t = tuple(canon(x) if isinstance(x, tuple) else x for x in t)
    k = t[0]
    if k == 'fcc':
        _, cc, p, d, s = t
        if cc == 'gt_u':
            return ('flt', p, s, d)
        if cc == 'ge_u':
            return ('fle', p, s, d)
        if cc == 'lt_u':
            return ('flt_or_unord', p, d, s)
        if cc == 'le_u':
            return ('fle_or_unord', p, d, s)
        if cc == 'eq':
            a, b = sorted([d, s], key=repr)
            return ('feq_or_unord', p, a, b)
        if cc == 'ne':
            a, b = sorted([d, s], key=repr)
            return ('fne_and_ord', p, a, b)
        if cc == 'np':
            a, b = sorted([d, s], key=repr)
            return ('ford', p, a, b)
        if cc == 'p':
            a, b = sorted([d, s], key=repr)
            return ('funord', p, a, b)
    if k in ('feq', 'fne'):
        a, b = sorted([t[2], t[3]], key=repr)
        return (k, t[1], a, b)
    if k == 'bin' and t[1] == 'and' and t[2] == 8:
        a, b = t[3], t[4]
        if a == C(1) and b[0] in BOOLK:
            return b
        if b == C(1) and a[0] in BOOLK:
            return a
    if k == 'cmp' and t[1] in ('eq', 'ne') and t[2] == 8:
        # a materialised truth value compared with 1 is the truth value itself (or its negation)
        for x, y in ((t[3], t[4]), (t[4], t[3])):
            if y == C(1) and isinstance(x, tuple) and x[0] in BOOLK:
                if t[1] == 'eq':
                    return x
                if x[0] in ('feq', 'fne'):
                    return ({'feq': 'fne', 'fne': 'feq'}[x[0]],) + x[1:]
                if x[0] == 'cmp' and x[1] in ('eq', 'ne'):
                    return ('cmp', {'eq': 'ne', 'ne': 'eq'}[x[1]]) + x[2:]
    if k == 'cmp' and t[1] in ('eq', 'ne'):
        a, b = t[3], t[4]
        if repr(a) > repr(b):
            a, b = b, a
        return ('cmp', t[1], t[2], a, b)
    if k == 'cmp' and t[1] in ('gt_s', 'gt_u', 'ge_s', 'ge_u'):
        m = {'gt_s': 'lt_s', 'gt_u': 'lt_u', 'ge_s': 'le_s', 'ge_u': 'le_u'}
        return ('cmp', m[t[1]], t[2], t[4], t[3])
    if k in ('zx', 'sx'):
        return ext(k, t[1], t[2], t[3])
    if k == 'lo':
        return lo(t[1], t[2])
    return t


def fbin(op, prec, a, b):
    if op in ('add', 'mul') and repr(a) > repr(b):
        a, b = b, a
    return ('fbin', op, prec, a, b)


def int_operand(name, cat):
    """(w, term) of an integer operand as the instruction sees it (w = 32 or 64)"""
    sz = INTSZ[cat]
    where, t = child_value(name, cat)
    w = 64 if sz == 8 else 32
    return w, lo(w, t)


# ------------------------------------------------------------------------ casts ---
CAST_CATS = ('char', 'short', 'int', 'long', 'uchar', 'ushort', 'uint', 'ulong', 'float', 'double', 'ldouble')


def _nonneg64(t):
    """t, read as a signed 64-bit number, is >= 0 whatever the operand (a zero-extension from fewer than 64 bits)"""
    t = canon(t)
    return isinstance(t, tuple) and t[0] == 'zx' and len(t) > 3 and t[2] == 64 and t[1] < 64


def feasible_state(s):
    """False when the path condition of the final state s contains a sign test of a 64-bit value that is a zero-extension of a narrower
    one, decided the way it cannot come out (a `test %rax,%rax; js` sequence run on a zero-extended _Bool never takes the negative branch)"""
    for c, truth in s.cond:
        c = canon(c)
        if not (isinstance(c, tuple) and c[0] == 'cmp' and len(c) == 5 and c[2] == 64):
            continue
        zero = C(0)
        if c[1] == 'lt_s' and c[4] == zero and _nonneg64(c[3]) and truth:
            return False
        if c[1] == 'ge_s' and c[4] == zero and _nonneg64(c[3]) and not truth:
            return False
        if c[1] == 'le_s' and c[3] == zero and _nonneg64(c[4]) and not truth:
            return False
        if c[1] == 'gt_s' and c[3] == zero and _nonneg64(c[4]) and truth:
            return False
    return True


def prune_infeasible(pack):
    """run_paths() result with the final states removed whose path condition feasible_state() refutes"""
    out = []
    for ctx, tr, finals, cats, it in pack:
        if not isinstance(finals, Exception):
            finals = [s for s in finals if feasible_state(s)]
        out.append((ctx, tr, finals, cats, it))
    return out


def fp_source(name, cat):
    return ('r', name, 'f%d' % FP[cat])


def cast_expectation(frm, to, name='lhs'):
    """what C11 + the register convention prescribe for (to)value-of-type-frm.
    returns (where, w, term, note) ; where in rax|xmm0|st ; or ('special', tag)"""
    if frm in INTSZ:
        sf = INTSZ[frm]
        _, V = child_value(name, frm)
        src64 = ext('zx' if frm in UNSIGNED else 'sx', sf * 8, 64, lo(sf * 8, V))     # the source value as a 64-bit two's complement number
        if to == 'bool':
            wz = 64 if sf == 8 else 32
            return ('rax', 64, ext('zx', 8, 64, ('cmp', 'ne', wz, lo(wz, V), C(0))))
        if to in INTSZ:
            st = INTSZ[to]
            if st < 4:
                if to in UNSIGNED:
                    return ('rax', 64, ext('zx', st * 8, 64, lo(st * 8, V)))
                return ('rax', 32, ext('sx', st * 8, 32, lo(st * 8, V)))
            if st == 4:
                return ('rax', 32, lo(32, V))
            return ('rax', 64, src64)
        prec = FP[to]
        if frm == 'ulong':
            return ('special', 'u64-to-fp', prec)
        return ('fp', prec, ('int2fp', prec, src64))
    # floating source
    pf = FP[frm]
    X = fp_source(name, frm)
    if to == 'bool':
        return ('rax', 64, ext('zx', 8, 64, ('fne', pf, X, ('fconst', pf, 0))))
    if to in FP:
        if FP[to] == pf:
            return ('fp', pf, X)
        return ('fp', FP[to], ('f2f', pf, FP[to], X))
    st = INTSZ[to]
    if to == 'ulong':
        return ('special', 'fp-to-u64', pf)
    if to == 'uint':
        # value range [0, 2^32): needs a conversion at least 64 bits wide
        return ('rax', 32, lo(32, ('fp2int', 64, pf, X)))
    if st == 8:
        return ('rax', 64, ('fp2int', 64, pf, X))
    if st == 4:
        return ('rax', 32, ('fp2int', 32, pf, X))
    # sub-int: truncate toward zero, then the register convention's extension;
    # unsigned 16 needs >16-bit conversion, unsigned 8 needs > 8
    return ('rax', 32, ('narrow', to, pf, X))


def canon_cast(t):
    """map machine terms of conversions onto the expectation vocabulary"""
    if not isinstance(t, tuple):
        return t
    t = tuple(canon_cast(x) if isinstance(x, tuple) else x for x in t)
    k = t[0]
    if k == 'i2f':
        _, prec, w, x = t
        return ('int2fp', prec, ext('sx', w, 64, x))        # cvtsi2s* / fild read a signed w-bit integer
    if k == 'cvt_i':
        _, w, mode, prec, x = t
        if mode != 'trunc':
            return ('fp2int_rounding_%s' % mode, w, prec, x)
        return ('fp2int', w, prec, x)
    if k in ('zx', 'sx'):
        return ext(k, t[1], t[2], t[3])
    if k == 'lo':
        return lo(t[1], t[2])
    return t


def narrow_ok(to, pf, X, actual):
    """acceptable lowering of fp -> sub-int `to`: truncating conversion of width >= the
    width needed for the target's full range, then extension of the low bits per target"""
    st = INTSZ[to] * 8
    k = 'zx' if to in UNSIGNED else 'sx'
    need = st + (1 if to in UNSIGNED else 0)
    for w in (16, 32, 64):
        if w < need:
            continue
        if actual == ext(k, st, 64 if to in UNSIGNED else 32, lo(st, ('fp2int', w, pf, X))):
            return True
    return False


# ------------------------------------------------------------- path signatures ---
def zero_test_terms(name, cat):
    """canonical conditions that test a child value of class `cat` against zero:
    {cond_term: (nonzero_when_true, quality)}"""
    out = {}
    if cat in INTSZ:
        _, V = child_value(name, cat)
        wz = 64 if INTSZ[cat] == 8 else 32
        out[canon(('cmp', 'eq', wz, lo(wz, V), C(0)))] = (False, 'exact')
        out[canon(('cmp', 'ne', wz, lo(wz, V), C(0)))] = (True, 'exact')
    elif cat in FP:
        p = FP[cat]
        X = ('r', name, 'f%d' % p)
        Z = ('fconst', p, 0)
        a, b = sorted([X, Z], key=repr)
        out[('feq_or_unord', p, a, b)] = (False, 'nan-is-false')
        out[('fne_and_ord', p, a, b)] = (True, 'nan-is-false')
        out[('fne', p, a, b)] = (True, 'exact')
        out[('feq', p, a, b)] = (False, 'exact')
    return out


def signature(s, cats):
    """token string of one path through the emitted code: evaluations, truth tests
    (decoded against the last evaluated child), node-carried labels, exits"""
    toks = []
    last = None
    quality = set()
    for e in s.events:
        if e[0] == 'eval':
            kind, name = e[1], e[2]
            toks.append(('E:' if kind == 'expr' else ('A:' if kind == 'addr' else 'S:')) + name)
            if kind == 'expr':
                last = name
        elif e[0] == 'label':
            if e[1].startswith('{'):
                toks.append('L:' + e[1].strip('{}'))
        elif e[0] == 'branch':
            c = canon(e[1])
            taken = e[2]
            dec = None
            if last is not None and cats.get(last):
                zt = zero_test_terms(last, cats[last])
                if c in zt:
                    nz, q = zt[c]
                    quality.add(q)
                    dec = 'T:%s:%d' % (last, int(nz == taken))
            toks.append(dec or ('B:%r:%d' % (c, int(taken))))
        elif e[0] == 'jump_out':
            toks.append('OUT:' + e[1].strip('{}*'))
    toks.append('END' if not (s.events and s.events[-1][0] == 'jump_out') else 'EXIT')
    return ' '.join(toks), quality
