"""Typing-side rules shared by C01/C02: get_common_type over all pairs, add_type per operator."""
from .interp import Interp, Obj, Sym, View, Ctx
from .build import AnalysisBroken

ARITH = ['bool', 'char', 'short', 'int', 'long', 'uchar', 'ushort', 'uint', 'ulong', 'float', 'double', 'ldouble']
INTS = ARITH[:9]
RANK = {'bool': 0, 'char': 1, 'uchar': 1, 'short': 2, 'ushort': 2, 'int': 3, 'uint': 3, 'enum': 3, 'long': 4, 'ulong': 4}
UNS = {'bool', 'uchar', 'ushort', 'uint', 'ulong'}
SIZE = {'bool': 1, 'char': 1, 'uchar': 1, 'short': 2, 'ushort': 2, 'int': 4, 'uint': 4, 'enum': 4, 'long': 8, 'ulong': 8}
FPR = {'float': 1, 'double': 2, 'ldouble': 3}


def promote(t):
    """C11 6.3.1.1p2 on LP64"""
    if t in FPR:
        return t
    if RANK[t] < 3 or t == 'enum':
        return 'int'
    return t


def common(a, b):
    """C11 6.3.1.8 on LP64; type names as above"""
    if a in FPR or b in FPR:
        return max([x for x in (a, b) if x in FPR], key=lambda x: FPR[x])
    a, b = promote(a), promote(b)
    if a == b:
        return a
    ua, ub = a in UNS, b in UNS
    if ua == ub:
        return a if RANK[a] >= RANK[b] else b
    u, s = (a, b) if ua else (b, a)
    if RANK[u] >= RANK[s]:
        return u
    if SIZE[s] > SIZE[u]:
        return s
    return {'int': 'uint', 'long': 'ulong'}[s]


class Types:
    """concrete Type objects of type.c (the ty_* singletons + constructed ones)"""

    def __init__(self, P):
        self.P = P
        self.tu = P.unit('type.c')
        self.E = self.tu.enums
        for f in ('get_common_type', 'add_type', 'pointer_to', 'enum_type'):
            if f not in self.tu.functions:
                raise AnalysisBroken('type.c: %s vanished' % f)

    def interp(self, **cfg):
        return Interp(self.P, self.tu, cfg)

    def glob(self, it, name):
        d = self.tu.globals.get(name)
        if d is None:
            raise AnalysisBroken('type.c: %s vanished' % name)
        g = it.ctx.globals
        if name not in g:
            g[name] = it.materialise_global(name, d)
        return g[name]

    def make(self, it, tname):
        """Type object for a type name of this module's vocabulary"""
        if tname == 'enum':
            u, fn = it.find_def('enum_type')
            return it.call_fn(u, fn, [])
        if tname == 'ptr':
            u, fn = it.find_def('pointer_to')
            return it.call_fn(u, fn, [self.glob(it, 'ty_int')])
        if tname == 'voidptr':
            u, fn = it.find_def('pointer_to')
            return it.call_fn(u, fn, [self.glob(it, 'ty_void')])
        return self.glob(it, 'ty_' + tname)

    def classify(self, it, o):
        """name in this vocabulary of a Type object (by kind/size/signedness)"""
        if isinstance(o, View):
            o = it.settle(o)
        if not isinstance(o, Obj):
            return repr(o)
        k = o.fields.get('kind')
        sz = o.fields.get('size')
        un = bool(o.fields.get('is_unsigned'))
        names = {v: n for n, v in self.E.items() if n.startswith('TY_')}
        kn = names.get(k, '?')
        if kn == 'TY_PTR':
            return 'ptr'
        if kn == 'TY_ENUM':
            return 'int' if (sz == 4 and not un) else 'enum(size %r)' % sz     # enumerated types are compatible with int here
        m = {'TY_VOID': 'void', 'TY_BOOL': 'bool', 'TY_FLOAT': 'float', 'TY_DOUBLE': 'double', 'TY_LDOUBLE': 'ldouble', 'TY_STRUCT': 'struct', 'TY_UNION': 'union',
             'TY_ARRAY': 'array', 'TY_FUNC': 'func', 'TY_VLA': 'vla'}
        if kn in m:
            return m[kn]
        base = {'TY_CHAR': 'char', 'TY_SHORT': 'short', 'TY_INT': 'int', 'TY_LONG': 'long'}.get(kn, '?')
        want = {'char': 1, 'short': 2, 'int': 4, 'long': 8}.get(base)
        if want != sz:
            return '%s(size %r)' % (base, sz)
        return ('u' + base) if un else base


def r_common_type(P, rep, rule, which):
    """get_common_type on every ordered pair; which = 'int' | 'fp'"""
    T = Types(P)
    where = 'type.c:%d' % T.tu.fn('get_common_type').line
    names = INTS + ['enum'] + ['float', 'double', 'ldouble']
    for a in names:
        for b in names:
            isfp = a in FPR or b in FPR
            if (which == 'fp') != isfp:
                continue
            it = T.interp()
            res = []

            def mk(ctx, a=a, b=b):
                it.ctx = ctx
                return [T.make(it, a), T.make(it, b)]
            for ctx, out in it.explore('get_common_type', mk):
                if out[0] == 'ret':
                    res.append(T.classify(it, out[1]))
            want = common(a, b)
            got = res[0] if len(res) == 1 else repr(res)
            ok = got == want
            rep.ob(rule, 'type.c:get_common_type:(%s,%s)' % (a, b), ok,
                   'the common type of (%s, %s) is computed as %s; C11 6.3.1.8 prescribes %s' % (a, b, got, want), where=where)
    if which == 'int':
        # pointers: a pointer operand on either side of a comparison wins
        for a, b in (('ptr', 'int'), ('int', 'ptr'), ('ptr', 'long'), ('ptr', 'ptr')):
            it = T.interp()

            def mk(ctx, a=a, b=b):
                it.ctx = ctx
                return [T.make(it, a), T.make(it, b)]
            res = [T.classify(it, out[1]) for ctx, out in it.explore('get_common_type', mk) if out[0] == 'ret']
            rep.ob(rule, 'type.c:get_common_type:(%s,%s)' % (a, b), res == ['ptr'], 'the common type of (%s, %s) is %r, expected a pointer type' % (a, b, res), where=where)


BINK = ['ND_ADD', 'ND_SUB', 'ND_MUL', 'ND_DIV', 'ND_MOD', 'ND_BITAND', 'ND_BITOR', 'ND_BITXOR']
CMPK = ['ND_EQ', 'ND_NE', 'ND_LT', 'ND_LE']


def typed_leaf(it, T, tname, label):
    n = Obj('Node', lazy=False, label=label)
    n.fields['kind'] = T.E['ND_VAR']
    n.fields['ty'] = T.make(it, tname)
    n.fields['tok'] = Obj('Token', lazy=True, label=label + '.tok')
    return n


def cast_of(it, T, n, orig):
    """(is n a cast node wrapping orig, class of its type)"""
    if isinstance(n, View):
        n = it.settle(n)
    if not isinstance(n, Obj):
        return False, None
    if n is orig:
        return False, T.classify(it, n.fields.get('ty'))
    ok = n.fields.get('kind') == T.E['ND_CAST'] and n.fields.get('lhs') is orig
    return ok, T.classify(it, n.fields.get('ty'))


def r_add_type(P, rep, rule, which):
    """operator typing: result type and operand conversions, for every operator and operand type pair"""
    T = Types(P)
    where = 'type.c:%d' % T.tu.fn('add_type').line
    pairs_int = [(a, b) for a in INTS + ['enum'] for b in INTS + ['enum']]
    pairs_fp = [(a, b) for a in ARITH for b in ARITH if a in FPR or b in FPR]
    pairs = pairs_int if which == 'int' else pairs_fp

    def run(kind, fields):
        it = T.interp(opaque=['error_tok'])
        box = {}

        def mk(ctx):
            it.ctx = ctx
            n = Obj('Node', lazy=False, label='node')
            n.fields['kind'] = T.E[kind]
            n.fields['tok'] = Obj('Token', lazy=True, label='tok')
            for k, tn in fields.items():
                n.fields[k] = typed_leaf(it, T, tn, k)
            box['n'] = n
            box['orig'] = {k: n.fields[k] for k in fields}
            return [n]
        outs = [(ctx, out) for ctx, out in it.explore('add_type', mk) if out[0] == 'ret']
        if len(outs) != 1:
            return it, None, None
        return it, box['n'], box['orig']

    for (a, b) in pairs:
        cm = common(a, b)
        for kind in (BINK if which == 'int' else ['ND_ADD', 'ND_SUB', 'ND_MUL', 'ND_DIV']) + CMPK:
            it, n, orig = run(kind, {'lhs': a, 'rhs': b})
            key = 'type.c:add_type:%s(%s,%s)' % (kind, a, b)
            if n is None:
                rep.undecided(rule, key, 'add_type has no single returning path', where=where); continue
            lc, lt = cast_of(it, T, n.fields.get('lhs'), orig['lhs'])
            rc, rt = cast_of(it, T, n.fields.get('rhs'), orig['rhs'])
            nt = T.classify(it, n.fields.get('ty'))
            want_nt = 'int' if kind in CMPK else cm
            ok = lc and rc and lt == cm and rt == cm and nt == want_nt
            rep.ob(rule, key, ok, '%s on (%s, %s): operands converted to (%s, %s)%s, result type %s; C11 prescribes conversion of both to %s and result %s' % (
                kind, a, b, lt, rt, '' if (lc and rc) else ' [not both wrapped in a conversion]', nt, cm, want_nt), where=where)
    singles = (INTS + ['enum']) if which == 'int' else ['float', 'double', 'ldouble']
    for a in singles:
        # unary minus, complement, shifts: integer promotions on the (left) operand, result has the promoted type
        for kind in (['ND_NEG', 'ND_BITNOT', 'ND_SHL', 'ND_SHR'] if which == 'int' else ['ND_NEG']):
            flds = {'lhs': a}
            if kind in ('ND_SHL', 'ND_SHR'):
                flds['rhs'] = 'long'
            it, n, orig = run(kind, flds)
            key = 'type.c:add_type:%s(%s)' % (kind, a)
            if n is None:
                rep.undecided(rule, key, 'no single returning path', where=where); continue
            nt = T.classify(it, n.fields.get('ty'))
            want = common('int', a)
            lc, lt = cast_of(it, T, n.fields.get('lhs'), orig['lhs'])
            ok = nt == want and ((lc and lt == want) or (a == want))
            extra = ''
            if kind in ('ND_SHL', 'ND_SHR'):
                rc, rt = cast_of(it, T, n.fields.get('rhs'), orig['rhs'])
                ok = ok and not (rc and rt != 'long' and rt == want and want != 'long')
            rep.ob(rule, key, ok, '%s on %s has type %s (operand converted to %s); C11 6.5.3.3/6.5.7 prescribe the promoted type %s' % (kind, a, nt, lt, want), where=where)
        for kind in ('ND_NOT', 'ND_LOGAND', 'ND_LOGOR'):
            it, n, orig = run(kind, {'lhs': a, 'rhs': a} if kind != 'ND_NOT' else {'lhs': a})
            key = 'type.c:add_type:%s(%s)' % (kind, a)
            if n is None:
                rep.undecided(rule, key, 'no single returning path', where=where); continue
            nt = T.classify(it, n.fields.get('ty'))
            rep.ob(rule, key, nt == 'int', '%s has type %s, C11 prescribes int' % (kind, nt), where=where)
        # assignment: rhs converted to the type of the lhs, result has the lhs type
        for b in (INTS if which == 'int' else ARITH):
            it, n, orig = run('ND_ASSIGN', {'lhs': a, 'rhs': b})
            key = 'type.c:add_type:ND_ASSIGN(%s=%s)' % (a, b)
            if n is None:
                rep.undecided(rule, key, 'no single returning path', where=where); continue
            rc, rt = cast_of(it, T, n.fields.get('rhs'), orig['rhs'])
            nt = T.classify(it, n.fields.get('ty'))
            same_lhs = n.fields.get('lhs') is orig['lhs']
            ea = 'int' if a == 'enum' else a
            rep.ob(rule, key, rc and rt == ea and nt == ea and same_lhs, 'assignment %s = %s: right operand converted to %s (wrapped: %s), result type %s, left operand %s; C11 6.5.16.1: convert to %s' % (a, b, rt, rc, nt, 'kept' if same_lhs else 'replaced', a), where=where)
        # conditional
        for b in (INTS if which == 'int' else ARITH):
            it, n, orig = run('ND_COND', {'cond': 'int', 'then': a, 'els': b})
            key = 'type.c:add_type:ND_COND(%s:%s)' % (a, b)
            if n is None:
                rep.undecided(rule, key, 'no single returning path', where=where); continue
            nt = T.classify(it, n.fields.get('ty'))
            tc, tt = cast_of(it, T, n.fields.get('then'), orig['then'])
            ec, et = cast_of(it, T, n.fields.get('els'), orig['els'])
            cm = common(a, b)
            rep.ob(rule, key, nt == cm and tc and ec and tt == cm and et == cm, 'c ? %s : %s has type %s with arms converted to (%s, %s); C11 6.5.15p5: %s' % (a, b, nt, tt, et, cm), where=where)
        it, n, orig = run('ND_COMMA', {'lhs': 'long', 'rhs': a})
        if n is not None:
            nt = T.classify(it, n.fields.get('ty'))
            rep.ob(rule, 'type.c:add_type:ND_COMMA(%s)' % a, nt == ('int' if a == 'enum' else a), 'comma expression has type %s, C11 6.5.17: type of the right operand (%s)' % (nt, a), where=where)


def r_atomic_builtin_operands(P, rep, rule):
    """the value operand of __builtin_atomic_exchange / __builtin_compare_and_swap is converted to the type of the atomic object for every
    arithmetic operand type (the code generator moves it in a general register of the object's width: an operand that stays floating or long
    double is never taken from %xmm0 / the x87 stack), and the result has the object's type (exchange) / _Bool (compare-and-swap)"""
    T = Types(P)
    where = 'type.c:%d' % T.tu.fn('add_type').line
    n_ob = 0
    for base in ('bool', 'char', 'short', 'int', 'long', 'uchar', 'ushort', 'uint', 'ulong', 'float', 'double'):
        for b in ARITH:
            for kind, fld, ptrs in (('ND_EXCH', 'rhs', ('lhs',)), ('ND_CAS', 'cas_new', ('cas_addr', 'cas_old'))):
                if kind not in T.E:
                    raise AnalysisBroken('enumerator %s vanished' % kind)
                it = T.interp(opaque=['error_tok'])
                box = {}

                def mk(ctx, kind=kind, fld=fld, ptrs=ptrs, base=base, b=b):
                    it.ctx = ctx
                    n = Obj('Node', lazy=False, label='node')
                    n.fields['kind'] = T.E[kind]
                    n.fields['tok'] = Obj('Token', lazy=True, label='tok')
                    u, fn = it.find_def('pointer_to')
                    bt = T.make(it, base)
                    for pf in ptrs:
                        leaf = typed_leaf(it, T, 'int', pf)
                        leaf.fields['ty'] = it.call_fn(u, fn, [bt])
                        n.fields[pf] = leaf
                    n.fields[fld] = typed_leaf(it, T, b, fld)
                    box['n'] = n; box['orig'] = n.fields[fld]
                    return [n]
                key = 'type.c:add_type:%s(%s object, %s operand)' % (kind, base, b)
                outs = [(c, o) for c, o in it.explore('add_type', mk) if o[0] == 'ret']
                errs = [c for c, o in outs if any(e[0] == 'call' and e[1] == 'error_tok' for e in c.events)]
                outs = [(c, o) for c, o in outs if c not in errs]
                if len(outs) != 1:
                    rep.undecided(rule, key, 'add_type has %d accepting paths' % len(outs), where=where); continue
                n = box['n']
                wrapped, ot = cast_of(it, T, n.fields.get(fld), box['orig'])
                nt = T.classify(it, n.fields.get('ty'))
                want_nt = base if kind == 'ND_EXCH' else 'bool'
                n_ob += 1
                rep.ob(rule, key, ot == base and (wrapped or b == base) and nt == want_nt,
                       '%s on an atomic object of type %s with a value operand of type %s: the operand has type %s afterwards%s and the result type is %s; the operand must be converted to %s '
                       '(the code generator takes it from %%rax at the object\'s width; a float/double/long double operand left unconverted is never taken from %%xmm0 / the x87 stack) and the result be %s'
                       % (kind, base, b, ot, '' if wrapped else ' [no conversion inserted]', nt, base, want_nt), where=where)
    return n_ob


# --------------------------------------------------------------- pointer arithmetic ---
def r_pointer_scaling(P, rep, rule):
    """new_add / new_sub: p+n, n+p, p-n scale the integer by the element size in 64-bit arithmetic; p-q is a signed long divided by the element size"""
    T = Types(P)
    pu = P.unit('parse.c')
    for f in ('new_add', 'new_sub'):
        if f not in pu.functions:
            raise AnalysisBroken('parse.c: %s vanished' % f)
    E = pu.enums

    def leaf(it, tname, label, base='int'):
        n = Obj('Node', lazy=False, label=label)
        n.fields['kind'] = E['ND_VAR']
        n.fields['tok'] = Obj('Token', lazy=True, label=label + '.tok')
        if tname == 'ptr':
            u, fn = it.find_def('pointer_to')
            n.fields['ty'] = it.call_fn(u, fn, [T.glob(it, 'ty_' + base)])
        else:
            n.fields['ty'] = T.glob(it, 'ty_' + tname)
        return n

    def run(fn, lt, rt, base='long'):
        it = Interp(P, pu, {'opaque': ['error_tok']})
        box = {}

        def mk(ctx):
            it.ctx = ctx
            l = leaf(it, lt, 'L', base); r = leaf(it, rt, 'R', base)
            box['l'], box['r'] = l, r
            return [l, r, Obj('Token', lazy=True, label='tok')]
        outs = [out[1] for ctx, out in it.explore(fn, mk) if out[0] == 'ret']
        return it, (outs[0] if len(outs) == 1 else None), box

    def is_scale(it, n, operand, elem):
        """n == operand * (long)elem"""
        if not isinstance(n, Obj) or n.fields.get('kind') != E['ND_MUL']:
            return False, 'the integer operand is not multiplied by the element size'
        def unwrap(x):
            ty = x.fields.get('ty') if isinstance(x, Obj) else None
            while isinstance(x, Obj) and x.fields.get('kind') == E['ND_CAST'] and isinstance(x.fields.get('lhs'), Obj):
                x = x.fields['lhs']
            return x, ty
        (a, at), (b, bt) = unwrap(n.fields.get('lhs')), unwrap(n.fields.get('rhs'))
        c, cty = (b, bt) if a is operand else ((a, at) if b is operand else (None, None))
        if c is None or not isinstance(c, Obj):
            return False, 'the multiplication does not use the integer operand'
        if c.fields.get('kind') != E['ND_NUM'] or c.fields.get('val') != elem:
            return False, 'the scale factor is %r, expected the element size %d' % (c.fields.get('val'), elem)
        cty = cty or c.fields.get('ty')
        ct = T.classify(it, cty) if cty else 'int(untyped constant)'
        if ct not in ('long', 'ulong'):
            return False, 'the scale factor has type %s: index * size is computed in 32 bits and wraps for objects of 2 GiB or more' % ct
        return True, ''
    where = 'parse.c:%d' % pu.fn('new_add').line
    for fn, kind, cases in (('new_add', 'ND_ADD', (('ptr', 'int'), ('int', 'ptr'), ('ptr', 'long'), ('ptr', 'uint'), ('ptr', 'char'))),
                            ('new_sub', 'ND_SUB', (('ptr', 'int'), ('ptr', 'long'), ('ptr', 'ushort')))):
        for lt, rt in cases:
            it, res, box = run(fn, lt, rt)
            key = 'parse.c:%s:%s,%s' % (fn, lt, rt)
            if res is None:
                rep.undecided(rule, key, 'no single returning path', where=where); continue
            p, n = (box['l'], box['r']) if lt == 'ptr' else (box['r'], box['l'])
            ok = res.fields.get('kind') == E[kind] and res.fields.get('lhs') is p
            detail = 'the result is not %s with the pointer as left operand' % kind
            if ok:
                ok, detail = is_scale(it, res.fields.get('rhs'), n, 8)
            if ok and fn == 'new_sub':
                ok = res.fields.get('ty') is p.fields.get('ty')
                detail = 'pointer - integer does not have the pointer\'s type'
            rep.ob(rule, key, ok, '%s(%s, %s) with 8-byte elements: %s' % (fn, lt, rt, detail), where=where)
    # pointer difference
    it, res, box = run('new_sub', 'ptr', 'ptr')
    key = 'parse.c:new_sub:ptr,ptr'
    if res is None:
        rep.undecided(rule, key, 'no single returning path', where=where)
    else:
        d = res
        ok = d.fields.get('kind') == E['ND_DIV']
        detail = 'the result is not a division'
        if ok:
            sub, num = d.fields.get('lhs'), d.fields.get('rhs')
            ok = isinstance(sub, Obj) and sub.fields.get('kind') == E['ND_SUB'] and sub.fields.get('lhs') is box['l'] and sub.fields.get('rhs') is box['r']
            detail = 'the dividend is not lhs - rhs'
            if ok:
                st = T.classify(it, sub.fields.get('ty')) if sub.fields.get('ty') else None
                ok = st == 'long'
                detail = 'the byte difference has type %s, C11 6.5.6p9 (ptrdiff_t) requires a signed 64-bit type' % st
            if ok:
                nt = T.classify(it, num.fields.get('ty')) if isinstance(num, Obj) and num.fields.get('ty') else 'int'
                ok = isinstance(num, Obj) and num.fields.get('kind') == E['ND_NUM'] and num.fields.get('val') == 8 and nt in ('int', 'long')
                detail = 'the divisor is %r of type %s: it must be the element size with a signed type (an unsigned divisor makes negative differences huge)' % (num.fields.get('val') if isinstance(num, Obj) else num, nt)
        rep.ob(rule, key, ok, 'pointer difference: %s' % detail, where=where)


def r_address_of_type(P, rep, rule):
    """add_type(ND_ADDR): the result is a pointer to the operand's own type (C11 6.5.3.2p3) - for an array operand a pointer to the array,
    not to its first element - and ND_DEREF of it gives the operand type back"""
    T = Types(P)
    tu = P.unit('type.c')
    if 'add_type' not in tu.functions:
        raise AnalysisBroken('type.c: add_type vanished')
    E = tu.enums
    where = 'type.c:%d' % tu.fn('add_type').line
    for shape in ('int', 'array-of-int', 'array-of-array', 'pointer', 'struct'):
        it = Interp(P, tu, {'opaque': ['error_tok']})
        box = {}

        def mk(ctx, shape=shape):
            it.ctx = ctx
            i = T.glob(it, 'ty_int')
            def call(f, *a):
                u, fn = it.find_def(f)
                return it.call_fn(u, fn, list(a))
            if shape == 'int':
                t = i
            elif shape == 'array-of-int':
                t = call('array_of', i, 5)
            elif shape == 'array-of-array':
                t = call('array_of', call('array_of', i, 5), 3)
            elif shape == 'pointer':
                t = call('pointer_to', i)
            else:
                t = Obj('Type', lazy=False, label='struct S')
                t.fields.update({'kind': E['TY_STRUCT'], 'size': 12, 'align': 4, 'base': 0, 'is_unsigned': 0})
            lhs = Obj('Node', lazy=False, label='operand')
            lhs.fields.update({'kind': E['ND_VAR'], 'ty': t, 'tok': Obj('Token', lazy=True, label='tok'), 'lhs': 0, 'rhs': 0, 'cond': 0, 'then': 0, 'els': 0, 'init': 0, 'inc': 0, 'body': 0, 'args': 0})
            n = Obj('Node', lazy=False, label='addr')
            n.fields.update({'kind': E['ND_ADDR'], 'ty': 0, 'lhs': lhs, 'rhs': 0, 'cond': 0, 'then': 0, 'els': 0, 'init': 0, 'inc': 0, 'body': 0, 'args': 0, 'tok': lhs.fields['tok']})
            box['t'], box['n'] = t, n
            return [n]
        outs = [o for c, o in it.explore('add_type', mk) if o[0] == 'ret']
        key = 'type.c:add_type:ND_ADDR/%s' % shape
        if len(outs) != 1:
            rep.undecided(rule, key, 'add_type has %d returning paths on &(%s)' % (len(outs), shape), where=where); continue
        rt = box['n'].fields.get('ty')
        rt = it.settle(rt) if isinstance(rt, View) else rt
        ok = isinstance(rt, Obj) and rt.fields.get('kind') == E['TY_PTR'] and rt.fields.get('base') is box['t']
        what = 'pointer to %s' % ('the first element\'s type' if (isinstance(rt, Obj) and isinstance(box['t'], Obj) and rt.fields.get('base') is box['t'].fields.get('base')) else 'another type')
        rep.ob(rule, key, ok, '&x for x of type %s has type %s; C11 6.5.3.2p3: pointer to the type of x (for an array: `&a + 1` steps over the whole array, `sizeof *&a` is the size of the array)' % (shape, what), where=where)


def r_integer_compatibility(P, rep, rule):
    """is_compatible over every ordered pair of integer types: C11 6.2.7p1 two types are compatible if they are the same type; distinct integer
    types are never compatible (also when they have the same representation) - except that each enumerated type is compatible with one integer
    type of the implementation's choice (6.7.2.2p4); chibicc represents and converts an enumerated type as int (getTypeId, get_common_type),
    so that type is the int of the same size and signedness. Observable through _Generic and redeclaration checks."""
    T = Types(P)
    if 'is_compatible' not in T.tu.functions:
        raise AnalysisBroken('type.c: is_compatible vanished')
    where = 'type.c:%d' % T.tu.fn('is_compatible').line
    names = INTS + ['enum']
    for a in names:
        for b in names:
            if a == b == 'enum':
                continue            # two enum_type() objects are two different enumerated types
            it = T.interp(opaque=['error_tok'], rec_limit=6)
            box = {}

            def mk(ctx, a=a, b=b):
                it.ctx = ctx
                ta, tb = T.make(it, a), T.make(it, b)
                box['enum'] = ta if a == 'enum' else tb if b == 'enum' else None
                return [ta, tb]
            try:
                res = [out[1] for ctx, out in it.explore('is_compatible', mk) if out[0] == 'ret']
            except AnalysisBroken as e:
                rep.undecided(rule, 'type.c:is_compatible:(%s,%s)' % (a, b), 'is_compatible not interpretable: %s' % e, where=where)
                continue
            if len(res) != 1 or not isinstance(res[0], (int, bool)):
                rep.undecided(rule, 'type.c:is_compatible:(%s,%s)' % (a, b), 'is_compatible has %d returning paths / a non-concrete result %r' % (len(res), res[:2]), where=where)
                continue
            got = bool(res[0])
            if 'enum' in (a, b):
                other = b if a == 'enum' else a
                want = T.classify(it, box['enum']) == other          # classify names an enumerated type by the integer type it is represented as
                why = 'C11 6.7.2.2p4: an enumerated type is compatible with one integer type; it is represented and converted as %s here' % T.classify(it, box['enum'])
            else:
                want = a == b
                why = 'C11 6.2.7p1: integer types are compatible only with themselves'
            key = 'type.c:is_compatible:(%s,%s)' % (a, b)
            if got != want and 'enum' in (a, b):
                key = 'type.c:is_compatible:enum-%s' % ('compatible-with-no-integer-type' if want else 'compatible-with-%s' % (b if a == 'enum' else a))
            rep.ob(rule, key, got == want, 'is_compatible(%s, %s) is %s; %s (_Generic selects the wrong association)' % (a, b, got, why), where=where)
