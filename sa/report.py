"""Obligations, verdicts, known findings, evidence."""
import hashlib, json, os, sys, time

VERIF = os.path.dirname(os.path.dirname(os.path.abspath(__file__)))
KNOWN = os.path.join(VERIF, 'known_findings.txt')
EVDIR = os.environ.get('VERIF_EVIDENCE_DIR') or os.path.join(VERIF, 'evidence')


def load_known():
    """known_findings.txt: lines
         finding: property=<id> key=<key> | <what fails> | <replay recipe>
         fixed: property=<id> <commit> <what failed>
       fixed lines suppress nothing."""
    out = {}
    files = [KNOWN] + [f for f in os.environ.get('VERIF_KNOWN_EXTRA', '').split(':') if f]   # extra: development only
    lines = []
    for f in files:
        if os.path.exists(f):
            lines += open(f).read().splitlines()
    for line in lines:
        line = line.strip()
        if not line.startswith('finding:'):
            continue
        body = line[len('finding:'):].strip()
        parts = [p.strip() for p in body.split('|')]
        head = parts[0].split()
        pid = key = None
        for h in head:
            if h.startswith('property='):
                pid = h[9:]
            elif h.startswith('key='):
                key = h[4:]
        if pid and key:
            out[(pid, key)] = parts[1] if len(parts) > 1 else ''
    return out


class Report:
    def __init__(self, pid, tier='quick', seed=0):
        self.pid = pid
        self.tier = tier
        self.seed = seed
        self.t0 = time.time()
        self.obs = []         # dicts
        self.floors = {}      # rule -> min instances
        self.rule_doc = {}    # rule -> one-line statement
        self.analysed = {}    # rule -> {'units':set, 'functions':set}
        self.known = load_known()
        self.notes = []
        self.assumptions = []
        self.explanation = ''
        self.extra = {}
        self._dedupe = {}

    # ---- declaring ---------------------------------------------------------
    def rule(self, rule, doc, floor=1):
        self.rule_doc[rule] = doc
        self.floors[rule] = floor
        self.analysed.setdefault(rule, {'units': set(), 'functions': set()})

    def saw(self, rule, unit=None, function=None):
        a = self.analysed.setdefault(rule, {'units': set(), 'functions': set()})
        if unit:
            a['units'].add(unit)
        if function:
            a['functions'].add(function)

    # ---- verdicts ----------------------------------------------------------
    def ob(self, rule, key, ok, what, where=None, facts=None):
        """one obligation. key = unit:function:construct (rule is prefixed)."""
        full = '%s:%s' % (rule, key)
        verdict = 'holds' if ok else 'violation'
        if not ok and (self.pid, full) in self.known:
            verdict = 'known-finding'
        dk = (full, verdict)
        if dk in self._dedupe:
            self._dedupe[dk] += 1      # same obligation reached again (other path / type class): counted, not repeated
            return ok
        self._dedupe[dk] = 1
        self.obs.append({'rule': rule, 'key': full, 'verdict': verdict, 'what': what,
                         'where': where, 'facts': facts})
        parts = key.split(':')
        if len(parts) >= 2:
            self.saw(rule, parts[0], parts[1])
        return ok

    def undecided(self, rule, key, why, where=None):
        full = '%s:%s' % (rule, key)
        self.obs.append({'rule': rule, 'key': full, 'verdict': 'undecided', 'what': why,
                         'where': where, 'facts': None})

    # ---- finishing -----------------------------------------------------------
    def finish(self):
        counts = {}
        for o in self.obs:
            counts[o['rule']] = counts.get(o['rule'], 0) + 1
        base = _baseline().get(self.pid, {}) if self.pid else {}
        for r, fl in self.floors.items():
            # the hand-confirmed floor, and 70% of the instance count recorded for the reference tree (sa/instance_baseline.json, written by
            # bin/mkbaseline): a sub-rule that silently stops producing obligations must not pass as "holds"
            fl = max(fl, int(0.7 * base.get(r, 0)))
            if counts.get(r, 0) < fl:
                self.obs.append({'rule': r, 'key': r + ':liveness', 'verdict': 'undecided',
                                 'what': 'rule matched %d instances, hand-confirmed floor is %d (anchor vanished or pattern no longer recognised)' % (counts.get(r, 0), fl),
                                 'where': None, 'facts': None})
        viol = [o for o in self.obs if o['verdict'] == 'violation']
        known = [o for o in self.obs if o['verdict'] == 'known-finding']
        und = [o for o in self.obs if o['verdict'] == 'undecided']
        holds = [o for o in self.obs if o['verdict'] == 'holds']

        # de-duplicate by key for reporting
        def uniq(lst):
            seen = set(); out = []
            for o in lst:
                if o['key'] in seen:
                    continue
                seen.add(o['key']); out.append(o)
            return out
        viol, known, und = uniq(viol), uniq(known), uniq(und)

        os.makedirs(os.path.join(EVDIR, 'replay'), exist_ok=True)
        for o in known:
            print('KNOWN-FINDING: property=%s %s %s' % (self.pid, o['key'], o['what']))
        for o in und:
            print('ANALYSIS-BROKEN property=%s %s %s' % (self.pid, o['key'], o['what']))
        replay_paths = []
        for o in viol:
            h = hashlib.sha1(o['key'].encode()).hexdigest()[:10]
            path = os.path.join(EVDIR, 'replay', '%s-%s.json' % (self.pid, h))
            with open(path, 'w') as f:
                json.dump({'property': self.pid, 'rule': o['rule'], 'rule_statement': self.rule_doc.get(o['rule']),
                           'instance': o['key'], 'where': o['where'], 'what': o['what'], 'facts': o['facts'],
                           'how_to_replay': 'python3 /verif/bin/vcheck %s   (static: re-derives this finding from /repo sources)' % self.pid},
                          f, indent=1, default=str)
            replay_paths.append(path)
            print('%s: [%s] %s' % (o['where'] or '?', o['key'], o['what']))
            print('VIOLATION property=%s replay=%s' % (self.pid, path))

        distinct = len(set(o['key'] for o in self.obs if o['verdict'] != 'undecided'))
        rules = {}
        for r in sorted(set(list(self.rule_doc) + list(counts))):
            rr = [o for o in self.obs if o['rule'] == r]
            rules[r] = {
                'statement': self.rule_doc.get(r, ''),
                'instances': len(rr), 'floor': self.floors.get(r, 0),
                'holds': sum(1 for o in rr if o['verdict'] == 'holds'),
                'known_findings': sorted(set(o['key'] for o in rr if o['verdict'] == 'known-finding')),
                'violations': sorted(set(o['key'] for o in rr if o['verdict'] == 'violation')),
                'undecided': sorted(set(o['key'] for o in rr if o['verdict'] == 'undecided')),
                'units': sorted(self.analysed.get(r, {}).get('units', [])),
                'functions': sorted(self.analysed.get(r, {}).get('functions', [])),
            }
        samples = []
        per_rule_seen = {}
        for o in self.obs:
            c = per_rule_seen.get(o['rule'], 0)
            if c < 2:
                per_rule_seen[o['rule']] = c + 1
                samples.append({'obligation': o['key'], 'verdict': o['verdict'], 'what': o['what'], 'where': o['where']})
        ev = {
            'property_id': self.pid, 'tier': self.tier, 'seed': self.seed, 'level': 'other',
            'coverage': {
                'explanation': self.explanation,
                'obligations': len(self.obs), 'discharged': len(holds),
                'known_findings': len(known), 'undecided': len(und),
                'evaluations': max(1, len(self.obs)), 'distinct_nontrivial': distinct,
                'rule': 'one obligation = one rule applied to one named construct of the current /repo sources; distinct = distinct rule:unit:function:construct keys',
                'samples': samples, 'rules': rules,
                'checker_cmd': 'python3 bin/vcheck %s --tier %s' % (self.pid, self.tier),
                'trusted_base': ['clang 14 parser/Sema (typed JSON AST)', 'rule oracles transcribed from C11 / psABI / Intel SDM as cited in DESIGN.md', 'python3'],
                'exhaustive': False,
            },
            'assumptions': self.assumptions,
            'wall_s': round(time.time() - self.t0, 3),
            'violations': len(viol),
        }
        ev['coverage']['instances_checked'] = sum(self._dedupe.values())
        ev['coverage'].update(self.extra)
        with open(os.path.join(EVDIR, self.pid + '.json'), 'w') as f:
            json.dump(ev, f, indent=1, default=str)
        print('%s: %d obligations, %d hold, %d known findings, %d violations, %d undecided (%.1fs)' % (
            self.pid, len(self.obs), len(holds), len(known), len(viol), len(und), time.time() - self.t0))
        if viol:
            return 1
        if und:
            return 2
        return 0


_BASE = None


def _baseline():
    global _BASE
    if _BASE is None:
        import json
        p = os.path.join(os.path.dirname(os.path.abspath(__file__)), 'instance_baseline.json')
        try:
            with open(p) as f:
                _BASE = json.load(f)
        except (OSError, ValueError):
            _BASE = {}
    return _BASE


def reissue(rep, rule, sub, why='', keep=None, prefix_rule=True):
    """re-issue the obligations of a sub-report (a rule function of another property's module run into its own Report) under `rule` of
    `rep`. Obligations that are listed known findings of the other property are skipped (they are that property's findings).
    keep(o) selects obligations; returns the number re-issued."""
    n = 0
    for o in sub.obs:
        if o['verdict'] == 'known-finding':
            continue
        if keep is not None and not keep(o):
            continue
        key = o['key'].replace(':', '/', 1) if prefix_rule else o['key'].split(':', 1)[1]
        n += 1
        if o['verdict'] == 'undecided':
            rep.undecided(rule, key, o['what'], where=o['where'])
        else:
            rep.ob(rule, key, o['verdict'] == 'holds', why + o['what'], where=o['where'], facts=o['facts'])
    return n
