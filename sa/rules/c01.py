"""C01 Integer expressions have the C11 value and the C11 type (DESIGN.md §3 C01)."""
from ..build import AnalysisBroken
from ..interp import Obj, View
from ..chibi import CG
from ..lib_sem import run_paths, child_value, int_operand, canon, INTSZ, UNSIGNED, FP, CAST_CATS, cast_expectation, canon_cast, narrow_ok
from ..x86 import Unknown, lo, ext, norm_bin, C

U = 'codegen.c'
ARITH_CLASSES = ('int', 'uint', 'long', 'ulong', 'ptr')
BIN = {'ND_ADD': 'add', 'ND_SUB': 'sub', 'ND_MUL': 'mul', 'ND_BITAND': 'and', 'ND_BITOR': 'or', 'ND_BITXOR': 'xor'}
CMPK = {'ND_EQ': 'eq', 'ND_NE': 'ne', 'ND_LT': 'lt', 'ND_LE': 'le'}


def wrap(cg):
    if getattr(cg, '_wrapped', False):
        return cg
    orig = cg.explore

    def explore(fname, make_node, **kw):
        def mk2(ctx):
            n = make_node(ctx)
            ctx.root = n
            return n
        return orig(fname, mk2, **kw)
    cg.explore = explore
    cg._wrapped = True
    return cg


def mk_binary(cg, kind, cat, rcat=None, result_int=False):
    def mk(ctx):
        n = cg.node('node', kind)
        t = cg.tcell('ty', only=(cat,))
        n.fields['ty'] = cg.tcell('nty', only=('int',)) if result_int else t
        n.fields['lhs'] = cg.node('lhs', ty=t)
        n.fields['rhs'] = cg.node('rhs', ty=(t if rcat is None else cg.tcell('rty', only=(rcat,))))
        return n
    return mk


def report(rep, rule, key, finals_pack, check, what, where):
    """run `check(state) -> (ok, detail)` on every final state of every path"""
    n = 0
    for ctx, tr, finals, cats, it in finals_pack:
        if isinstance(finals, Exception):
            rep.undecided(rule, key, 'emitted code not interpretable: %s' % finals, where=where)
            n += 1
            continue
        for s in finals:
            n += 1
            try:
                r = check(s)
            except Unknown as e:
                rep.undecided(rule, key, 'not interpretable: %s' % e, where=where)
                continue
            ok, detail = r[0], r[1]
            k2 = key + ((':' + r[2]) if (not ok and len(r) > 2 and r[2]) else '')
            rep.ob(rule, k2, ok, '%s: %s' % (what, detail), where=where, facts={'trace': tr.text(), 'path_condition': [repr(c) for c in s.cond]})
    if n == 0:
        rep.undecided(rule, key, 'no returning path / no emitted code for this kind and type class', where=where)


def expect_rax(w, E):
    E = canon(E)

    def check(s):
        a = canon(lo(w, s.reg['rax']))
        return a == E, 'result in %%rax (low %d bits) is %r, C11 prescribes %r' % (w, a, E)
    return check


def r016(cg, rep):
    rep.rule('R01.6', 'for every integer operator kind and operand type class the emitted instructions compute the C11 operation: right mnemonic, operand roles (lhs op rhs), width and signedness family, dividend preparation, result register', floor=80)
    where = '%s:%d' % (U, cg.cu.fn('gen_expr').line)
    for cat in ARITH_CLASSES:
        w, L = int_operand('lhs', cat)
        _, R = int_operand('rhs', cat)
        uns = cat in UNSIGNED
        for kind, op in BIN.items():
            pack = run_paths(cg, 'gen_expr', mk_binary(cg, kind, cat))
            report(rep, 'R01.6', '%s:gen_expr:%s/%s' % (U, kind, cat), pack, expect_rax(w, norm_bin(op, w, L, R)), '%s on %s' % (kind, cat), where)
        pack = run_paths(cg, 'gen_expr', mk_binary(cg, 'ND_DIV', cat))
        report(rep, 'R01.6', '%s:gen_expr:ND_DIV/%s' % (U, cat), pack, expect_rax(w, ('bin', 'udiv' if uns else 'sdiv', w, L, R)), 'ND_DIV on %s' % cat, where)
        pack = run_paths(cg, 'gen_expr', mk_binary(cg, 'ND_MOD', cat))
        report(rep, 'R01.6', '%s:gen_expr:ND_MOD/%s' % (U, cat), pack, expect_rax(w, ('bin', 'urem' if uns else 'srem', w, L, R)), 'ND_MOD on %s' % cat, where)
        if cat != 'ptr':
            for rcat in ('int', 'ulong'):
                _, rt = child_value('rhs', rcat)
                cnt = lo(8, rt)
                pack = run_paths(cg, 'gen_expr', mk_binary(cg, 'ND_SHL', cat, rcat=rcat))
                report(rep, 'R01.6', '%s:gen_expr:ND_SHL/%s<<%s' % (U, cat, rcat), pack, expect_rax(w, ('bin', 'shl', w, L, cnt)), 'ND_SHL on %s' % cat, where)
                pack = run_paths(cg, 'gen_expr', mk_binary(cg, 'ND_SHR', cat, rcat=rcat))
                report(rep, 'R01.6', '%s:gen_expr:ND_SHR/%s>>%s' % (U, cat, rcat), pack, expect_rax(w, ('bin', 'shr' if uns else 'sar', w, L, cnt)), 'ND_SHR on %s' % cat, where)
        for kind, cc in CMPK.items():
            if cc in ('lt', 'le'):
                cc = cc + ('_u' if uns else '_s')
            pack = run_paths(cg, 'gen_expr', mk_binary(cg, kind, cat, result_int=True))
            report(rep, 'R01.6', '%s:gen_expr:%s/%s' % (U, kind, cat), pack, expect_rax(32, ext('zx', 8, 32, ('cmp', cc, w, L, R))), '%s on %s' % (kind, cat), where)
        # unary
        for kind, op in (('ND_NEG', 'neg'), ('ND_BITNOT', 'not')):
            if cat == 'ptr':
                continue
            def mk(ctx, kind=kind, cat=cat):
                n = cg.node('node', kind)
                t = cg.tcell('ty', only=(cat,))
                n.fields['ty'] = t
                n.fields['lhs'] = cg.node('lhs', ty=t)
                return n
            pack = run_paths(cg, 'gen_expr', mk)
            report(rep, 'R01.6', '%s:gen_expr:%s/%s' % (U, kind, cat), pack, expect_rax(w, ('un', op, w, L)), '%s on %s' % (kind, cat), where)
    # logical not / truth test on every integer type incl. sub-int and pointers
    for cat in sorted(INTSZ):
        sz = INTSZ[cat]
        _, vt = child_value('lhs', cat)
        wz = 64 if sz == 8 else 32
        def mk(ctx, cat=cat):
            n = cg.node('node', 'ND_NOT')
            n.fields['ty'] = cg.tcell('nty', only=('int',))
            n.fields['lhs'] = cg.node('lhs', ty=cg.tcell('ty', only=(cat,)))
            return n
        pack = run_paths(cg, 'gen_expr', mk)
        report(rep, 'R01.6', '%s:gen_expr:ND_NOT/%s' % (U, cat), pack, expect_rax(32, ext('zx', 8, 32, ('cmp', 'eq', wz, lo(wz, vt), C(0)))), 'ND_NOT on %s' % cat, where)


def mk_cast(cg, frm, to):
    def mk(ctx):
        n = cg.node('node', 'ND_CAST')
        n.fields['ty'] = cg.tcell('to', only=(to,))
        n.fields['lhs'] = cg.node('lhs', ty=cg.tcell('from', only=(frm,)))
        return n
    return mk


def check_cast(frm, to):
    exp = cast_expectation(frm, to)

    def check(s):
        if s.df not in (None, 'restored'):
            return False, 'x87 control word is left in state %r (must be restored after the conversion)' % s.df
        if exp[0] == 'rax':
            _, w, E = exp
            a = canon_cast(canon(lo(w, s.reg['rax'])))
            if isinstance(E, tuple) and E[0] == 'narrow':
                a = canon_cast(canon(lo(64 if E[1] in UNSIGNED else 32, s.reg['rax'])))
                ok = narrow_ok(E[1], E[2], E[3], a)
                return ok, 'result %r is not a truncating conversion wide enough for %s followed by the %s extension' % (a, E[1], E[1])
            E = canon_cast(canon(E))
            tag = None
            if to == 'bool' and a != E:
                inner = a[3] if (isinstance(a, tuple) and a[0] in ('zx', 'sx') and len(a) > 3) else a
                tag = 'is-' + str(inner[0]) if isinstance(inner, tuple) else None
            return a == E, 'result in %%rax (low %d bits) is %r, prescribed %r' % (w, a, E), tag
        if exp[0] == 'fp':
            _, prec, E = exp
            if prec == 80:
                if len(s.st) != 1:
                    return False, 'x87 stack holds %d values after the conversion, 1 expected' % len(s.st)
                a = s.st[-1]
            else:
                if s.st:
                    return False, 'x87 stack not empty after the conversion'
                a = s.xmm.get(0)
            a = canon_cast(canon(a)) if a is not None else None
            E = canon_cast(canon(E))
            # widening an integer first to a narrower fp format is not exact; exact forms only
            return a == E, 'result is %r, prescribed %r' % (a, E)
        raise Unknown('special')
    return check


def special_u64_to_fp(prec):
    """u64 -> fp must treat bit 63: either a sign test with a halving/rounding fix-up, or
    (x87) fild + conditional addition of 2^64"""
    def check_all(finals):
        conds = [s.cond for s in finals]
        if len(finals) < 2:
            s = finals[0]
            return False, 'single straight-line conversion %r: values >= 2^63 are converted as negative numbers' % (canon_cast(s.xmm.get(0) or (s.st[-1] if s.st else None)),)
        V = ('r', 'lhs', 64)
        ok_lo = ok_hi = False
        for s in finals:
            val = s.st[-1] if prec == 80 else s.xmm.get(0)
            val = canon_cast(canon(val)) if val else None
            neg = [c for c in s.cond]
            if not neg:
                continue
            c, truth = neg[0]
            c = canon(c)
            is_sign = c in (('cmp', 'lt_s', 64, V, C(0)), ('cmp', 'le_s', 64, C(0), V)) or c == ('cmp', 'ge_s', 64, V, C(0))
            if not is_sign:
                return False, 'the branch condition %r is not a test of bit 63 of the operand' % (c,)
            highbit = truth if c[1] == 'lt_s' else (not truth)
            if c == ('cmp', 'le_s', 64, C(0), V):
                highbit = not truth
            base = ('int2fp', prec, V)
            if not highbit:
                ok_lo = (val == base)
                if not ok_lo:
                    return False, 'for values < 2^63 the result is %r, prescribed %r' % (val, base)
            else:
                if prec == 80:
                    two64 = ('f2f', 32, 80, ('frombits', 32, C(0x5f800000)))
                    pass
                    want = ('fbin', 'add', 80) + tuple(sorted([base, two64], key=repr))
                    got = val
                    if got and got[0] == 'fbin' and got[1] == 'add':
                        got = ('fbin', 'add', 80) + tuple(sorted([got[3], got[4]], key=repr))
                    ok_hi = (got == want)
                    if not ok_hi:
                        return False, 'for values >= 2^63 the result is %r, prescribed fild + 2^64 (%r)' % (val, want)
                else:
                    half = norm_bin('or', 64, ('bin', 'shr', 64, V, C(1)), ext('zx', 32, 64, norm_bin('and', 32, lo(32, V), C(1))))
                    h = ('int2fp', prec, half)
                    want = ('fbin', 'add', prec, h, h)
                    ok_hi = (val == want)
                    if not ok_hi:
                        return False, 'for values >= 2^63 the result is %r; prescribed halving with the sticky low bit kept, then doubling: %r' % (val, want)
        return ok_lo and ok_hi, 'both ranges handled'
    return check_all


def _is_two63(t, pf):
    """t denotes the constant 2^63 as a value of precision pf"""
    import struct
    if not isinstance(t, tuple):
        return False
    if t[0] == 'f2f' and t[2] == pf and isinstance(t[3], tuple):
        return _is_two63(t[3], t[1])
    if t[0] == 'frombits' and t[1] == pf and isinstance(t[2], tuple) and t[2][0] == 'c':
        if pf == 32:
            return struct.unpack('<f', struct.pack('<I', t[2][1] & 0xffffffff))[0] == 2.0 ** 63
        if pf == 64:
            return struct.unpack('<d', struct.pack('<Q', t[2][1] & (2 ** 64 - 1)))[0] == 2.0 ** 63
    return False


def special_fp_to_u64(pf):
    """fp -> unsigned 64-bit: the truncating conversions of the hardware are signed, so the sequence must split at 2^63:
    below, the signed conversion of x; from 2^63 on, the signed conversion of x - 2^63 with bit 63 set afterwards"""
    X = ('r', 'lhs', 'f%d' % pf)
    TOP = C(1 << 63)

    def check_all(finals):
        if len(finals) < 2:
            s = finals[0]
            return False, 'signed-64-bit-conversion', 'is the single signed 64-bit truncating conversion %r: values >= 2^63 give 0x8000000000000000' % (canon_cast(canon(s.reg['rax'])),)
        seen = {False: 0, True: 0}
        for s in finals:
            if s.st:
                return False, 'x87-residue', 'leaves %d value(s) on the x87 stack' % len(s.st)
            if pf == 80 and getattr(s, 'df', None) not in (None, 'restored'):
                return False, 'control-word', 'does not restore the x87 control word'
            if len(s.cond) != 1:
                return False, 'wrong-sequence', 'takes %d decisions on a path, one range test expected' % len(s.cond)
            c, truth = s.cond[0]
            c = canon(c)
            if isinstance(c, tuple) and c[0] == 'fle' and c[1] == pf and c[3] == X and _is_two63(c[2], pf):
                high = truth
            elif isinstance(c, tuple) and c[0] == 'flt' and c[1] == pf and c[2] == X and _is_two63(c[3], pf):
                high = not truth
            else:
                return False, 'wrong-range-test', 'decides on %r, which is not the test x >= 2^63' % (c,)
            got = canon_cast(canon(s.reg['rax']))
            if not high:
                want = ('fp2int', 64, pf, X)
                if got != want:
                    return False, 'low-range', 'for x < 2^63 the result is %r, prescribed %r' % (got, want)
            else:
                ok = False
                if isinstance(got, tuple) and got[0] == 'bin' and got[1] in ('xor', 'or', 'add') and got[2] == 64:
                    ops = [got[3], got[4]]
                    if TOP in ops:
                        other = ops[1] if ops[0] == TOP else ops[0]
                        if isinstance(other, tuple) and other[0] == 'fp2int' and other[1] == 64 and other[2] == pf:
                            d = other[3]
                            ok = isinstance(d, tuple) and d[0] == 'fbin' and d[1] == 'sub' and d[2] == pf and d[3] == X and _is_two63(d[4], pf)
                if not ok:
                    return False, 'high-range', 'for x >= 2^63 the result is %r; prescribed: signed conversion of x - 2^63 with bit 63 set' % (got,)
            seen[high] += 1
        if not (seen[False] and seen[True]):
            return False, 'wrong-sequence', 'does not have both a path for x < 2^63 and one for x >= 2^63'
        return True, '', 'both ranges handled'
    return check_all


def r015(cg, rep, which):
    """cast table through the machine. which = 'int' (C01: integer quadrant + bool) or 'fp' (C02)"""
    rule = 'R01.5' if which == 'int' else 'R02.1'
    where = '%s:%d' % (U, cg.cu.fn('cast').line if cg.cu.fn('cast') else 0)
    for frm in CAST_CATS + (('bool', 'enum', 'ptr') if which == 'int' else ()):
        for to in CAST_CATS + ('bool',):
            isint = (frm in INTSZ) and (to in INTSZ)
            if (which == 'int') != isint:
                continue
            key = '%s:cast:%s->%s' % (U, frm, to)
            pack = run_paths(cg, 'gen_expr', mk_cast(cg, frm, to))
            exp = cast_expectation(frm, to)
            if exp[0] == 'special':
                for ctx, tr, finals, cats, it in pack:
                    if isinstance(finals, Exception):
                        rep.undecided(rule, key, 'not interpretable: %s' % finals, where=where); continue
                    if exp[1] == 'u64-to-fp':
                        try:
                            ok, detail = special_u64_to_fp(exp[2])(finals)
                        except Unknown as e:
                            rep.undecided(rule, key, str(e), where=where); continue
                        tag = 'signed-conversion' if (len(finals) == 1) else 'wrong-sequence'
                        rep.ob(rule, key if ok else key + ':' + tag, ok, 'conversion unsigned long -> %s: %s' % (to, detail), where=where, facts={'trace': tr.text()})
                    else:
                        try:
                            ok, tag, detail = special_fp_to_u64(exp[2])(finals)
                        except Unknown as e:
                            rep.undecided(rule, key, str(e), where=where); continue
                        rep.ob(rule, key if ok else key + ':' + tag, ok, 'conversion %s -> unsigned long %s' % (frm, detail), where=where, facts={'trace': tr.text()})
                continue
            report(rep, rule, key, pack, check_cast(frm, to), 'conversion %s -> %s' % (frm, to), where)


def r_return_conversion(P, rep):
    """R01.4: the operand of `return` is converted to the function's return type (unless it is an aggregate)"""
    from .c03 import explore_stmt
    pu, tm, it, res = explore_stmt(P)
    where = 'parse.c:%d' % pu.fn('stmt').line
    NK = {v: k for k, v in pu.enums.items() if k.startswith('ND_')}
    n = 0
    for ctx, out in res:
        if out[0] != 'ret':
            continue
        node = it.settle(out[1]) if isinstance(out[1], View) else out[1]
        if not isinstance(node, Obj) or NK.get(node.fields.get('kind')) != 'ND_RETURN':
            continue
        lhs = node.fields.get('lhs')
        if lhs is None or (isinstance(lhs, int) and lhs == 0):
            continue     # return;
        casts = [e for e in ctx.events if e[0] == 'call' and e[1] == 'new_cast']
        exprs = [e for e in ctx.events if e[0] == 'call' and e[1] == 'expr']
        aggregate = any('return_ty.kind' in t and ('TY_STRUCT' in t or 'TY_UNION' in t) and t.count(',') <= 1 and 'TY_VOID' not in t for t in ctx.trail)
        n += 1
        if aggregate:
            continue
        ok = len(casts) == 1 and len(exprs) == 1 and (casts[0][2][0] is exprs[0][4]) and 'return_ty' in repr(getattr(it.settle(casts[0][2][1]) if isinstance(casts[0][2][1], View) else casts[0][2][1], 'label', casts[0][2][1])) \
            and (lhs is casts[0][4])
        rep.ob('R01.4', 'parse.c:stmt:return-value-converted-to-return-type', ok,
               'the operand of a return statement is stored %s conversion to the function\'s return type (C11 6.8.6.4p3)' % ('after a wrong' if casts else 'without'), where=where, facts={'path': ctx.trail[-6:]})
    if n == 0:
        rep.undecided('R01.4', 'parse.c:stmt:return', 'no return-with-value path found', where=where)


def run(P, rep, tier):
    cg = wrap(CG(P))
    rep.explanation = ('Per-operator translation validation at the term level: for each integer node kind and operand type class the code generator is abstractly '
                       'interpreted on an abstract node (children replaced by their contract), the emitted templates are evaluated by a term-level x86 machine, and the '
                       'final register term is compared with the term C11 prescribes. Decides mnemonic, operand roles, width, signedness family, dividend preparation '
                       'for every node of that kind and type; does not evaluate concrete operand values.')
    rep.assumptions += ['children leave their value per the register convention stated in codegen.c load(): sub-int values extended to 32 bits, upper half undefined',
                        'instruction semantics per Intel SDM for the mnemonics chibicc emits (sa/x86.py)', 'typing relation of add_type (operands already converted to the common type)',
                        'R01.14/R01.15 evaluate the trees the parser builds with a reference evaluator of the node language: ND_CAST converts per R01.5, arithmetic nodes compute in the width of their type per R01.6, ND_ASSIGN stores the low bytes of its right operand and yields it (a bit-field: the low `width` bits, re-extended; C04), ND_COMMA sequences',
                        'R01.19: a _Bool bit-field has width 1; the operand of an assignment has already been converted to the type of the left operand (R01.2), its value is any value of that type',
                        'R01.21: a member that is the operand of an expression or the target of an initializer has 1 <= bit_width <= 64, bit_offset >= 0 and bit_width + bit_offset within its storage unit of 8, 16, 32 or 64 bits (struct_members / struct layout: C08); the host is x86-64 (int 32 bits, long 64 bits; a shift count is taken modulo the operand width); Member.bit_width / bit_offset are not modified between a guard and the shift it dominates']
    r016(cg, rep)
    rep.rule('R01.5', 'every integer-to-integer (and to _Bool) conversion emits the extension/truncation the register convention requires for (from,to)', floor=90)
    r015(cg, rep, 'int')
    from ..lib_types import r_common_type, r_add_type
    rep.rule('R01.1', 'get_common_type returns the C11 6.3.1.8 type for every ordered pair of integer types (promotion of narrow types, rank, signedness)', floor=100)
    r_common_type(P, rep, 'R01.1', 'int')
    rep.rule('R01.2', 'add_type gives every operator the C11 result type and wraps the operands in the prescribed conversions, for every pair of integer operand types', floor=300)
    r_add_type(P, rep, 'R01.2', 'int')
    from ..lib_types import r_pointer_scaling
    rep.rule('R01.3', 'pointer arithmetic: p+n, n+p, p-n scale n by the element size as a 64-bit quantity and keep the pointer type; p-q is the signed 64-bit byte difference divided by the element size', floor=9)
    r_pointer_scaling(P, rep, 'R01.3')
    from ..lib_exprparse import r_operator_table
    rep.rule('R01.9', 'operator table and precedence ladder of the expression parser: every operator token builds the node kind C11 6.5 assigns to it with the operands in source order (> and >= as swapped < and <=), binary levels are left-associative and take their operands from the next-higher level, assignment is right-associative and every op= goes through the compound-assignment rewrite of the same operator', floor=45)
    r_operator_table(P, rep, 'R01.9')
    from ..lib_exprparse import r_conversion_sites
    rep.rule('R01.4', 'implicit conversions at use sites: each argument of a prototyped call is converted to the type of its own parameter, float arguments passed through ... are promoted to double, postfix ++/-- is (T)((A += k) - k)', floor=3)
    r_conversion_sites(P, rep, 'R01.4')
    r_return_conversion(P, rep)
    from ..lib_c01unary import r_unary_operators, r_incdec, r_bitfield_operands
    rep.rule('R01.14', 'unary + - ~ !: the tree unary() builds, typed by add_type, has the C11 type (the promoted type of the operand; int for !) and value for every integer operand type, and leaves the operand unmodified (C11 6.5.3.3)', floor=30)
    r_unary_operators(P, rep, 'R01.14')
    rep.rule('R01.15', '++ and --: for every integer object type, pointers and bit-fields the tree built for the prefix form yields the new value and the tree built for the postfix form yields the value the object had before, and both store (T)(x +/- 1) (C11 6.5.2.4, 6.5.3.1); decided by evaluating the built tree on boundary values', floor=30)
    r_incdec(P, rep, 'R01.15')
    rep.rule('R01.16', 'integer promotions of bit-field operands (C11 6.3.1.1p2): a bit-field of type _Bool/int/unsigned whose values all fit an int is an int in arithmetic, comparisons, shifts and unary operators, whatever its declared type; so is the value of an assignment, compound assignment, ++/-- or comma expression that yields a bit-field, but not an explicit cast of it', floor=30)
    r_bitfield_operands(P, rep, 'R01.16')
    from ..lib_c01unary import r_bitfield_values, r_vla_size_arith
    r_bitfield_values(P, rep, 'R01.16')
    rep.rule('R01.17', 'the size of a variable length array type - the value of sizeof and the number of bytes allocated - is length * element size computed in size_t, whatever the integer type of the length expression (C11 6.5.3.4p2,p5); decided by evaluating the tree compute_vla_size builds on boundary lengths', floor=20)
    r_vla_size_arith(P, rep, 'R01.17')
    from ..lib_types import r_integer_compatibility
    rep.rule('R01.18', 'the type of an integer expression as _Generic sees it: is_compatible holds between an integer type and itself only (C11 6.2.7p1), and between an enumerated type and exactly the integer type it is represented as (6.7.2.2p4)', floor=80)
    r_integer_compatibility(P, rep, 'R01.18')
    from .c16 import r_atomic_operand_type
    r_atomic_operand_type(P, rep, 'R01.4')
    # sizeof / _Alignof yield size_t (unsigned long): every form of the operator (type name, expression, VLA) - C08 R08.4's rule, re-used
    from ..report import Report as _Rep, reissue as _reissue
    from . import c08 as _c08
    rep.rule('R01.13', 'sizeof and _Alignof yield an unsigned long (size_t) in each of their forms, so that comparisons and arithmetic with them are unsigned (same obligations as C08 R08.4 sizeof-*)', floor=2)
    _sub = _Rep('C08')
    _sub.rule('R08.4', '', 1)
    _c08.r084(P, P.unit('parse.c'), _sub)
    _reissue(rep, 'R01.13', _sub, '', keep=lambda o: 'sizeof' in o['key'] or 'alignof' in o['key'].lower())
    from ..lib_types import r_address_of_type
    rep.rule('R01.12', 'the address operator yields a pointer to the type of its operand (C11 6.5.3.2p3), so that pointer arithmetic and sizeof on the result use the operand\'s size', floor=5)
    r_address_of_type(P, rep, 'R01.12')
    from ..report import Report, reissue
    from ..lib_c04 import r_vla_arith
    rep.rule('R01.3v', 'pointer arithmetic on variably modified types: p+n, n+p, p-n scale by the run-time row size, p-q is the SIGNED byte difference divided by it (shared with C04 R04.13)', floor=20)
    r_vla_arith(P, rep, 'R01.3v')
    from . import c07
    rep.rule('R01.11', 'integer constant expressions have the C11 value: every arm of the constant folder computes what the generated code computes for the node\'s type (signedness-directed operators, result normalisation, conversions incl. same-width sign changes, selection in ?:, zero divisors diagnosed); same obligations as C07', floor=100)
    sub = Report('C07')
    c07.run(P, sub, tier)
    reissue(rep, 'R01.11', sub, 'a constant expression would have another value than the same expression evaluated at run time: ')
    from ..lib_c01bf import r_value_convention
    rep.rule('R01.19', 'register convention of narrow values: the value an assignment to a bit-field yields is the stored field value (C11 6.5.16p3), the value of a bit-field / of a char, short, int, long object is the '
                       'object\'s value - each left in %rax in the convention of the expression\'s type (sizes 1, 2, 4: sign-/zero-extended to 32 bits; size 8: all 64 bits), for every storage unit x signedness x '
                       'field width x position; decided by evaluating the final term of the emitted code on boundary operand values with every undefined register half / clobbered register / old memory byte set to junk', floor=900)
    r_value_convention(cg, rep, 'R01.19')
    from ..lib_c01bf import r_produced_values
    rep.rule('R01.20', 'register convention of narrow values, arms of gen_expr that produce the value by an instruction of their own: the value of an atomic exchange is the old value of the object, the value of a '
                       'compare-and-swap is the int 0 or 1, the value of a call is what the callee left in the low bits of %rax (the bits above the return type are undefined on return), the value of a plain member '
                       'is the member\'s value - each left in %rax extended per the SIGNEDNESS and size of the expression\'s type (a later conversion to int emits nothing), for every integer type; decided like R01.19 '
                       'by evaluating the final term on boundary values with every undefined bit set to junk', floor=30)
    r_produced_values(cg, rep, 'R01.20', P)
    from .c03 import r_logic
    rep.rule('R01.10', '&& and ||: the left operand is evaluated and tested first, the right operand only when it decides the result, each operand is compared with zero at its own type and width, and the result is the int 0 or 1', floor=8)
    r_logic(cg, rep, 'R01.10')
    from ..lib_c01shift import r_host_shifts
    rep.rule('R01.21', 'host arithmetic of bit-field constants: every shift the compiler itself performs whose count is derived from a member\'s bit_width / bit_offset (directly, through a local, or '
                       'through a parameter bound at the call sites) has a count of at least 0 and below the width of the promoted left operand for every geometry a declaration admits '
                       '(width 1..64, width + offset within the storage unit) that the dominating guards let through - otherwise the host wraps the count (1L << 64 is 1, 1 << 40 is 256) and the '
                       'mask or merged word the compiler emits for a store to / a static initialiser of the field is not the C11 value', floor=2)
    r_host_shifts(P, rep, 'R01.21')

