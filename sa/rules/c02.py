"""C02 Floating-point arithmetic and conversions are bit-exact (DESIGN.md §3 C02)."""
from ..build import AnalysisBroken
from ..interp import Obj, View
from ..chibi import CG
from ..lib_sem import run_paths, child_value, canon, fbin, INTSZ, UNSIGNED, FP, CAST_CATS, zero_test_terms, prune_infeasible
from ..x86 import Unknown, lo, ext, C
from .c01 import wrap, mk_binary, report, r015, mk_cast, check_cast

U = 'codegen.c'
FOPS = {'ND_ADD': 'add', 'ND_SUB': 'sub', 'ND_MUL': 'mul', 'ND_DIV': 'div'}
FCMP = {'ND_EQ': 'feq', 'ND_NE': 'fne', 'ND_LT': 'flt', 'ND_LE': 'fle'}


def fp_result(prec, E):
    E = canon(E)

    def check(s):
        if prec == 80:
            if len(s.st) != 1:
                return False, 'x87 stack holds %d values, exactly the result is expected' % len(s.st)
            a = canon(s.st[-1])
        else:
            if s.st:
                return False, 'x87 stack not empty'
            a = canon(s.xmm.get(0)) if s.xmm.get(0) else None
        return a == E, 'result is %r, C11/IEEE prescribes %r' % (a, E)
    return check


def bool_result(E):
    E = canon(E)

    def check(s):
        a = canon(lo(32, s.reg['rax']))
        want = canon(ext('zx', 8, 32, E))
        if s.st:
            return False, 'x87 stack not empty after the comparison (%d values)' % len(s.st), 'x87-residue'
        inner = a[3] if (isinstance(a, tuple) and a[0] in ('zx', 'sx') and len(a) > 3) else a
        tag = ('is-' + str(inner[0])) if isinstance(inner, tuple) else None
        return a == want, 'result is %r, C11/IEEE prescribes %r' % (a, want), tag
    return check


def r_typeid_rows(cg, rep, rule):
    """the scalar type kinds that have no column of their own in the cast table (an enumerated type, _Bool as a source) are classified by
    getTypeId onto a column that converts their values correctly: cast() is run through the machine with such a type on the integer side
    and a floating type on the other, exactly like the R02.1 cells. An enumerated type is represented as int (C11 6.7.2.2p4, type.c
    enum_type: 4 bytes, signed): its register holds a 32-bit two's complement value with the upper half undefined. A _Bool is held
    zero-extended; the sign-test branch of a 64-bit unsigned sequence is infeasible for it and is pruned (lib_sem.feasible_state)."""
    where = '%s:%d' % (U, cg.cu.fn('getTypeId').line if cg.cu.fn('getTypeId') else (cg.cu.fn('cast').line if cg.cu.fn('cast') else 0))
    for other, prec in FP.items():
        for frm, to in (('enum', other), (other, 'enum'), ('bool', other)):
            key = '%s:cast:%s->%s' % (U, frm, to)
            pack = run_paths(cg, 'gen_expr', mk_cast(cg, frm, to))
            if frm == 'bool':
                pack = prune_infeasible(pack)
                if any((not isinstance(f, Exception)) and not f for _, _, f, _, _ in pack):
                    rep.undecided(rule, key, 'no feasible final state of the emitted conversion sequence', where=where); continue
            report(rep, rule, key, pack, check_cast(frm, to), 'conversion %s -> %s' % (frm, to), where)


def r022(cg, rep):
    rep.rule('R02.2', 'for +,-,*,/ and <,<= on each floating type the emitted instructions have the precision of the type, the mnemonic of the operator and the operand roles lhs op rhs', floor=18)
    rep.rule('R02.3', '== is true only for ordered-equal operands and != is true for unordered operands (NaN), on SSE and x87 alike', floor=6)
    where = '%s:%d' % (U, cg.cu.fn('gen_expr').line)
    for cat, prec in FP.items():
        L = ('r', 'lhs', 'f%d' % prec); R = ('r', 'rhs', 'f%d' % prec)
        for kind, op in FOPS.items():
            pack = run_paths(cg, 'gen_expr', mk_binary(cg, kind, cat))
            report(rep, 'R02.2', '%s:gen_expr:%s/%s' % (U, kind, cat), pack, fp_result(prec, fbin(op, prec, L, R)), '%s on %s' % (kind, cat), where)
        for kind, pred in FCMP.items():
            rule = 'R02.3' if kind in ('ND_EQ', 'ND_NE') else 'R02.2'
            pack = run_paths(cg, 'gen_expr', mk_binary(cg, kind, cat, result_int=True))
            report(rep, rule, '%s:gen_expr:%s/%s' % (U, kind, cat), pack, bool_result((pred, prec, L, R)), '%s on %s' % (kind, cat), where)


def r024(cg, rep):
    rep.rule('R02.4', 'a floating value used as a truth value is true iff it compares unequal to zero, so NaN is true (if, !, &&, ||, ?:, conversion to _Bool)', floor=6)
    rep.rule('R02.5', 'floating negation flips exactly the sign bit of the operand\'s format; constants are materialised from the bit pattern of the node type\'s format with a register of that width', floor=6)
    where = '%s:%d' % (U, cg.cu.fn('gen_expr').line)
    for cat, prec in FP.items():
        X = ('r', 'lhs', 'f%d' % prec)
        Z = ('fconst', prec, 0)
        def mk(ctx, cat=cat):
            n = cg.node('node', 'ND_NOT')
            n.fields['ty'] = cg.tcell('nty', only=('int',))
            n.fields['lhs'] = cg.node('lhs', ty=cg.tcell('ty', only=(cat,)))
            return n
        pack = run_paths(cg, 'gen_expr', mk)
        report(rep, 'R02.4', '%s:gen_expr:ND_NOT/%s' % (U, cat), pack, bool_result(('feq', prec, X, Z)), 'logical not of %s' % cat, where)
        # truth test inside a conditional jump (if / && / || / ?: / loops all go through cmp_zero)
        def mk_if(ctx, cat=cat):
            n = cg.node('node', 'ND_IF')
            n.fields['cond'] = cg.node('cond', ty=cg.tcell('ty', only=(cat,)))
            n.fields['then'] = cg.node('then')
            return n
        pack = run_paths(cg, 'gen_stmt', mk_if)
        key = '%s:cmp_zero:%s' % (U, cat)
        seen = False
        for ctx, tr, finals, cats, it in pack:
            if isinstance(finals, Exception):
                rep.undecided('R02.4', key, 'not interpretable: %s' % finals, where=where); continue
            for s in finals:
                for e in s.events:
                    if e[0] == 'branch':
                        seen = True
                        c = canon(e[1])
                        zt = zero_test_terms('cond', cat)
                        q = zt.get(c, (None, 'unrecognised'))[1]
                        rep.ob('R02.4', key if q == 'exact' else key + ':' + q, q == 'exact',
                               'the truth test of a %s is %r: an unordered comparison (NaN) takes the "zero" branch, C11 6.8.4.1 says NaN != 0 is true' % (cat, c) if q == 'nan-is-false' else 'the truth test of a %s is %r, not a comparison of the value with zero' % (cat, c),
                               where='%s:%d' % (U, cg.cu.fn('cmp_zero').line if cg.cu.fn('cmp_zero') else 0), facts={'trace': tr.text()})
                if s.st:
                    rep.ob('R02.4', key + ':x87-popped', False, 'the truth test leaves %d value(s) on the x87 stack' % len(s.st), where=where)
        if not seen:
            rep.undecided('R02.4', key, 'no conditional jump found in the if skeleton', where=where)
        # negation
        def mkn(ctx, cat=cat):
            n = cg.node('node', 'ND_NEG')
            t = cg.tcell('ty', only=(cat,))
            n.fields['ty'] = t
            n.fields['lhs'] = cg.node('lhs', ty=t)
            return n
        pack = run_paths(cg, 'gen_expr', mkn)
        if prec == 80:
            E = ('fneg', 80, X)
        else:
            E = ('fxor', prec, X, ('frombits', 64, C(1 << (prec - 1))))
        report(rep, 'R02.5', '%s:gen_expr:ND_NEG/%s' % (U, cat), pack, fp_result(prec, E), 'negation of %s' % cat, where)


def r025_num(cg, rep):
    """ND_NUM: the immediate is the bit pattern of node->fval in the node type's own format"""
    where = '%s:%d' % (U, cg.cu.fn('gen_expr').line)
    for cat, prec in FP.items():
        def mk(ctx, cat=cat):
            n = cg.node('node', 'ND_NUM')
            n.fields['ty'] = cg.tcell('ty', only=(cat,))
            return n
        it, res = cg.explore('gen_expr', mk)
        key = '%s:gen_expr:ND_NUM/%s' % (U, cat)
        n = 0
        for ctx, out in res:
            if out[0] != 'ret':
                continue
            n += 1
            from ..chibi import Trace
            tr = Trace(ctx)
            txt = tr.text()
            asm = [l.split('#')[0].strip() for l in tr.asm()]
            # which union member / width was used is visible in the emitted template and its arguments
            if prec == 32:
                ok = any(l.startswith('mov $') and l.endswith('%eax') for l in asm) and any(l.startswith('movq %rax, %xmm0') or l.startswith('movd %eax, %xmm0') for l in asm)
                why = 'a float constant must be moved as a 32-bit pattern through %eax into %xmm0'
            elif prec == 64:
                ok = any(l.startswith('mov $') and l.endswith('%rax') for l in asm) and any(l.startswith('movq %rax, %xmm0') for l in asm)
                why = 'a double constant must be moved as a 64-bit pattern through %rax into %xmm0'
            else:
                ok = sum(1 for l in asm if l.startswith('mov $') and l.endswith('%rax')) >= 2 and any(l.startswith('fldt') for l in asm)
                why = 'a long double constant must be stored as two 64-bit words and loaded with fldt'
            rep.ob('R02.5', key, ok, '%s; emitted: %r' % (why, asm), where=where, facts={'trace': txt})
        if n == 0:
            rep.undecided('R02.5', key, 'no returning path')
    # the format in which the bit pattern is taken: the last format node->fval is converted to before its bytes become the immediate(s)
    # (value flow, sa/lib_c02lit.py: union initialised or assigned, any member / variable names, if or switch)
    from ..lib_c02lit import emission_chains, field_prec, PREC as LPREC, NAME as LNAME
    pnode, qnode = field_prec(cg.P, 'parse.c', 'Node', 'fval')
    ech = emission_chains(cg)
    for cat, t in (('float', 'float'), ('double', 'double'), ('ldouble', 'long double')):
        key = '%s:gen_expr:ND_NUM:union-member/%s' % (U, t.replace(' ', '-'))
        chains, und = ech[cat]
        if chains is None or pnode is None:
            rep.undecided('R02.5', key, und or 'Node.fval is not of a floating type', where=where); continue
        last = sorted(set(min(ch + [pnode]) for ch in chains))
        rep.ob('R02.5', key, last == [LPREC[t]],
               'the bit pattern of a %s constant is taken from a value in the format %s: the constant would be emitted in another format' % (t, ' / '.join(LNAME.get(p, str(p)) for p in last)), where=where)


def r026(P, rep):
    rep.rule('R02.6', 'floating literals: suffix f/F -> float, l/L -> long double, none -> double; the spelling is converted ONCE, directly to the format of the literal\'s type '
             '(text->binary at the precision of that type, widened only afterwards): a conversion at a narrower precision loses digits, one at a wider precision makes the later '
             'narrowing a second rounding', floor=8)
    tu = P.unit('tokenize.c')
    fn = tu.fn('convert_pp_number')
    if fn is None:
        raise AnalysisBroken('tokenize.c: convert_pp_number vanished')
    where = 'tokenize.c:%d' % fn.line
    # value: per type of literal, the chain of formats from the spelling to Token.fval (sa/lib_c02lit.py, stage 1)
    from ..lib_c02lit import r_text_to_token
    chains = r_text_to_token(P, rep, 'R02.6')
    # type: per suffix, the type object stored into the token on every returning path
    res_by_suffix = {}
    for suffix, res in chains.items():
        labels = sorted(set(str(tl) for tl, core, chain in res))
        if labels:
            res_by_suffix[suffix] = labels[0] if len(labels) == 1 else repr(labels)
    want = {'f': 'ty_float', 'F': 'ty_float', 'l': 'ty_ldouble', 'L': 'ty_ldouble', '': 'ty_double'}
    for sfx, w in want.items():
        got = res_by_suffix.get(sfx)
        key = 'tokenize.c:convert_pp_number:suffix-%s' % (sfx or 'none')
        if got is not None and got.startswith('['):
            rep.undecided('R02.6', key, 'the type given to a literal does not depend only on what follows the digits (types %s for suffix %r): the suffix is not read where strtold/strtod/strtof stop' % (got, sfx), where=where)
            continue
        rep.ob('R02.6', key, got is not None and w in str(got),
               'a floating literal with suffix %r gets type %r, C11 6.4.4.2p4 prescribes %s' % (sfx, got, w[3:]), where=where)


def run(P, rep, tier):
    cg = wrap(CG(P))
    rep.explanation = ('Term-level translation validation of the floating part of the code generator (see C01): for each floating operator, comparison, truth test, '
                       'negation, constant and every conversion cell involving a floating type, the emitted templates are evaluated over terms and compared with the '
                       'IEEE/C11-prescribed term (precision, operand roles incl. the AT&T fsubrp/fdivrp and ucomis/fcomip operand order, NaN predicates, rounding mode '
                       'set and restored, width of the integer side). Bit patterns for concrete operands are not computed: the hardware\'s IEEE arithmetic is trusted. '
                       'Parser lowerings of ++/--/op= with floating operands are interpreted on concrete operand trees and the typed result is evaluated over a symbolic store in which '
                       'floating operations are rounding (non-invertible) operations. include/float.h is read through clang and compared with the characteristics computed from the '
                       'formats the compiler uses. A floating constant is followed from its spelling to the emitted bytes (text->binary function, carriers Token.fval / Node.fval, union member in gen_expr, '
                       'literal arm of eval_double) as a sequence of formats: it must be the single rounding to the constant\'s type.')
    rep.assumptions += ['Intel SDM semantics of SSE/x87 mnemonics incl. GNU as operand-order quirks (confirmed against the assembler once, sa/x86.py)',
                        'children leave float/double in %xmm0 and long double in %st(0)',
                        'R02.12/R02.13 evaluate the lowered tree for a single thread (a compare-exchange whose expected value was just read from the object succeeds); compiler temporaries do not alias program objects',
                        'R02.14: clang-14 is the reader of include/float.h (macro table, type and value of each expansion); macros defined through names the header does not define are reported undecided',
                        'R02.6/R02.15: strtof / strtod / strtold of the host round correctly to 24 / 53 / 64 digits (glibc does); a C conversion or store to a floating type of p digits rounds to p digits; the host long double is the x87 format']
    rep.rule('R02.1', 'every conversion cell with a floating source or target: signed/unsigned and width handling of the integer side, truncation toward zero with the x87 control word restored, precision of the floating side', floor=60)
    r015(cg, rep, 'fp')
    rep.rule('R02.17', 'getTypeId is right for the type kinds without a cast-table column of their own when the other side is floating: an enumerated type converts to and '
             'from float / double / long double as the signed 32-bit int it is represented as (a negative enumeration value stays negative), a _Bool source as 0 / 1', floor=9)
    r_typeid_rows(cg, rep, 'R02.17')
    from ..lib_c02 import r_explicit_cast
    rep.rule('R02.18', 'an explicit cast `(T)e` always builds the conversion node to T around e (parse.c cast): no path decides from the operand\'s size or kind that the conversion can be left out, '
             'so that a cast between an integer and a floating type of the same size converts the value instead of reinterpreting the bits', floor=1)
    r_explicit_cast(P, rep, 'R02.18')
    from ..lib_types import r_common_type, r_add_type
    rep.rule('R02.7', 'floating rank in the usual arithmetic conversions: long double > double > float > any integer type, on either side; operators on mixed operands are typed accordingly', floor=100)
    r_common_type(P, rep, 'R02.7', 'fp')
    r_add_type(P, rep, 'R02.7', 'fp')
    # `_Atomic float f; f op= B` (and an integer atomic with a floating operand): the operation happens in the common type only if the
    # rewrite keeps B at its own type
    from .c16 import r_atomic_operand_type
    r_atomic_operand_type(P, rep, 'R02.7')
    from ..lib_exprparse import r_conversion_sites
    rep.rule('R02.9', 'implicit conversions at use sites that involve floating types: arguments converted to the parameter type, float arguments passed through ... promoted to double whatever type object carries the float type, the operand of return converted to the return type whatever the sizes of the two types (shared with R01.4)', floor=4)
    r_conversion_sites(P, rep, 'R02.9')
    from ..report import Report, reissue
    # the operand of `return` is converted to the function's return type, whatever the two types are (`return 2;` in a function returning
    # float, `return 2.9;` in one returning int): C01's rule on stmt(), which does not look at the kind or size of the types, shared
    from .c01 import r_return_conversion
    sub = Report('C01')
    sub.rule('R01.4', '', 1)
    r_return_conversion(P, sub)
    if reissue(rep, 'R02.9', sub, 'a return value of another arithmetic type than the return type (an integer returned from a floating function or vice versa) would be passed back unconverted: ',
               keep=lambda o: ':stmt:return' in o['key']) == 0:
        rep.undecided('R02.9', 'parse.c:stmt:return', 'C01 R01.4 produced no obligation about the conversion of the return value')
    from . import c07, c20
    rep.rule('R02.10', 'long double values live on the x87 register stack: every gen_expr / gen_stmt / gen_addr arm leaves it balanced (+1 only for a long double result), so that no computation runs into a full register stack and turns into NaN (same obligations as C20 R20.1, R20.2, R20.7)', floor=80)
    sub = Report('C20')
    c20.run(P, sub, tier)
    reissue(rep, 'R02.10', sub, 'later long double arithmetic would yield NaN: ', keep=lambda o: o['key'].split(':', 1)[0] in ('R20.1', 'R20.2', 'R20.7'))
    # the value operand of the exchange / compare-and-swap builtins is converted to the type of the atomic object whenever either is floating
    # (C20 R20.8 = C16 R16.7, lib_types.r_atomic_builtin_operands: every object type x every operand type, decided on add_type)
    rep.rule('R02.16', 'atomic exchange / compare-and-swap with a floating object or a floating value operand: add_type converts the value operand to the type of the atomic object '
             '(an int stored into an _Atomic float is converted to float, a float stored into an _Atomic int is truncated) whatever the sizes of the two types, '
             'as simple assignment does (C11 7.17.7.3, 6.5.16.1p2); same obligations as C20 R20.8 / C16 R16.7, floating rows and columns', floor=90)
    _FPW = ('float', 'double', 'ldouble')

    def _fp_row(o):
        if o['key'].split(':', 1)[0] != 'R20.8' or '(' not in o['key']:
            return False
        inside = o['key'].rsplit('(', 1)[1].rstrip(')')
        parts = [p.strip().split(' ')[0] for p in inside.split(',')]
        return any(p in _FPW for p in parts)
    from ..lib_types import r_atomic_builtin_operands
    sub16 = Report('C20')
    sub16.rule('R20.8', '', 1)
    r_atomic_builtin_operands(P, sub16, 'R20.8')
    n16 = reissue(rep, 'R02.16', sub16, 'the value stored would be the raw bit pattern of the unconverted operand: ', keep=_fp_row)
    if n16 == 0:
        rep.undecided('R02.16', 'type.c:add_type:atomic-builtin-operands', 'lib_types.r_atomic_builtin_operands produced no obligation with a floating object or operand')
    rep.rule('R02.11', 'floating constant expressions: the folder evaluates floating operands, conditions and conversions as floating values in the operand\'s type (same obligations as C07)', floor=100)
    sub = Report('C07')
    c07.run(P, sub, tier)
    reissue(rep, 'R02.11', sub, 'a floating constant expression would have another value than at run time: ')
    # && / ||: each operand is tested at its own type (a floating right operand next to an integer left operand, and vice versa)
    from .c03 import r_logic
    rep.rule('R02.8', '&& and ||: each operand is compared with zero in its own register class and width (mixed integer/floating operands), left operand first, right operand only when needed, result int 0/1', floor=8)
    r_logic(cg, rep, 'R02.8')
    r022(cg, rep)
    r024(cg, rep)
    r025_num(cg, rep)
    r026(P, rep)
    from ..lib_c02lit import r_literal_path
    rep.rule('R02.15', 'a floating constant reaches the emitted bytes with the single rounding of R02.6: Token.fval and Node.fval hold every floating type\'s values, the parser copies the '
             'value between them through no narrower format, gen_expr takes the bytes of (T)node->fval and eval_double returns (T)node->fval for a node of type T - one conversion, '
             'directly to T, which is value preserving for a correctly rounded constant (a stop at another format in between is a further rounding)', floor=9)
    r_literal_path(P, rep, 'R02.15', cg)
    # value semantics of the trees the parser builds for A++ / A-- / A op= B with floating operands (sa/lib_c02.py)
    from ..lib_c02 import r_incdec, r_compound, r_float_h
    rep.rule('R02.12', 'postfix ++ / -- on a float, double or long double object (variable, dereference, member; plain or _Atomic): the value of the expression is the value the '
             'object held before (C11 6.5.2.4p2) - not something recomputed from the updated object, floating addition rounds - and the object becomes old + 1 / old - 1 '
             'computed in the type of the object', floor=24)
    r_incdec(P, rep, 'R02.12')
    rep.rule('R02.13', 'compound assignment A op= B with a floating type on either side (every floating/integer pairing, variable / dereference / member, plain and _Atomic): the '
             'tree to_assign() builds, once typed by add_type(), stores (T)((C)A op (C)B) with C the common type of the operands and yields that value with the type of A '
             '(C11 6.5.16.2p3); prefix ++ / -- are this with B = 1', floor=40)
    r_compound(P, rep, 'R02.13', tier)
    rep.rule('R02.14', 'include/float.h: every macro C11 5.2.4.2.2 lists is defined, and its value and type are the characteristic of the format the compiler gives the type '
             '(object size from type.c, register class from the load template of codegen.c: float = binary32, double = binary64, long double = x87 extended); integer '
             'characteristics are usable in #if', floor=80)
    r_float_h(P, rep, 'R02.14', cg)
