"""C03 Control flow and lexical scoping follow the abstract machine (DESIGN.md §3 C03)."""
import re
from ..build import AnalysisBroken
from ..interp import Obj, View, Interp, Sym
from ..chibi import CG, INT_CATS
from ..lib_sem import run_paths, signature, child_value, canon, INTSZ, FP, zero_test_terms
from ..x86 import Unknown, lo, ext, C, Machine, CC as _CC
from .c01 import wrap

U = 'codegen.c'
NAN_RULE = 'R03.13'
SCALARS = ('bool', 'char', 'short', 'int', 'long', 'uchar', 'ushort', 'uint', 'ulong', 'enum', 'ptr', 'float', 'double', 'ldouble')
# An expression of array / function / VLA type that is an operand of a truth test is not converted by the parser (`if (*p)` with `char (*p)[4]`,
# `q->s && x` with a member array, `f ? a : b` with a function designator): its value is the address the code generator leaves in %rax, a pointer
# (C11 6.3.2.1p3-4), whatever `size` the type itself records. The truth-test catalogue therefore contains these kinds next to the scalars.
ADDRESS_VALUED = ('array', 'func', 'vla')
TRUTH_OPERANDS = SCALARS + ADDRESS_VALUED
WIDTH_RULE = 'R03.19'


def _value_cats(cats):
    """type classes by the representation of the value: an address-valued operand is a 64-bit pointer"""
    return {k: ('ptr' if v in ADDRESS_VALUED else v) for k, v in cats.items()}


def _mentions(t, leaf):
    if t == leaf:
        return True
    return isinstance(t, tuple) and any(_mentions(x, leaf) for x in t)


def _addr_truth_tests(s, cats):
    """the conditional jumps of one path that compare the value of a pointer-like child (pointer, array, function, VLA): [(child, class, whole value?, condition term)]"""
    out = []
    last = None
    for e in s.events:
        if e[0] == 'eval' and e[1] == 'expr':
            last = e[2]
        elif e[0] == 'branch' and last is not None and (cats.get(last) == 'ptr' or cats.get(last) in ADDRESS_VALUED):
            c = canon(e[1])
            if not (isinstance(c, tuple) and c and c[0] == 'cmp' and _mentions(c, ('r', last, 64))):
                continue
            out.append((last, cats[last], c in zero_test_terms(last, 'ptr'), c))
    return out


def present(it, root, f):
    v = root.fields.get(f)
    if isinstance(v, View):
        v = it.settle(v)
    return isinstance(v, Obj)


def _fp_truth_tests(s, cats):
    """the conditional jumps of one path that test a floating child against zero: [(child, class, quality, condition term)]; quality 'exact' = an unordered
    comparison (NaN) counts as "not zero", 'nan-is-false' = it counts as zero"""
    out = []
    last = None
    for e in s.events:
        if e[0] == 'eval' and e[1] == 'expr':
            last = e[2]
        elif e[0] == 'branch' and last is not None and cats.get(last) in FP:
            c = canon(e[1])
            zt = zero_test_terms(last, cats[last])
            if c in zt:
                out.append((last, cats[last], zt[c][1], c))
    return out


# ------------------------------------------- jumps that leave an unfinished expression ---
# A goto/break/continue inside a statement expression that is an operand of an unfinished expression jumps away while the enclosing
# expressions have operands pushed. The code generator records, at every label such a jump can go to, the number of bytes that are pushed
# there (an assembler symbol: the target of a forward jump is not generated yet) and the jump releases `bytes pushed here - bytes pushed
# at the label` first. The release is part of the jump; it is modelled as such (amount = 8 * `depth` at the jump - the label's symbol),
# everything else that adjusts %rsp by a non-constant stays uninterpretable.
NON_CODE_DIRECTIVES = ('.set', '.loc')                           # assembler directives that define no code or data: not part of a layout
JUMP_TARGET_FIELDS = ('brk_label', 'cont_label', 'unique_label')  # the node fields a goto/break/continue (ND_GOTO) can name as its target
_SYM = r'(?:[A-Za-z_.$][\w.$]*|\{[^{}]*\})+'
_RELEASE = re.compile(r'^(-?\d+|\{[^{}]*\})-(%s)$' % _SYM)                       # <bytes pushed here>-<symbol>
_RECORD = re.compile(r'^\.set\s+(%s)\s*,\s*(-?\d+|\{[^{}]*\})$' % _SYM)          # .set <symbol>, <bytes pushed>
DEPTH_EVENT = 'c03-depth'


def is_code(line):
    s = line.strip()
    return not (s.split(None, 1)[0] in NON_CODE_DIRECTIVES if s else True)


class JumpMachine(Machine):
    """the term machine, plus `add $<n>-<symbol>, %rsp`: the abstract stack of the arm is released (what is below it is the enclosing
    expressions' business) and the adjustment is recorded; what it has to look like (sign, amount, symbol of the label the next instruction
    jumps to) is decided by jump_obligations"""

    def _rsp(self, s, ops, sign):
        o = ops[0]
        m = _RELEASE.match(o[1]) if o[0] == 'imm' and isinstance(o[1], str) else None
        if m is None:
            return Machine._rsp(self, s, ops, sign)
        s.events.append(('release', sign, m.group(1), m.group(2)))
        s.stack = []
        s.scratch = {}


def run_paths_jumps(cg, fname, mk):
    """lib_sem.run_paths with the emitted code run by JumpMachine, and with the value of `depth` recorded at every emitted line"""
    from .. import lib_sem
    probe_depth(cg)
    old = lib_sem.Machine
    lib_sem.Machine = JumpMachine
    cg._c03_probe_on = True
    try:
        return run_paths(cg, fname, mk)
    finally:
        lib_sem.Machine = old
        cg._c03_probe_on = False


def probe_depth(cg):
    """while cg._c03_probe_on: every println of the explored code generator is preceded by an event carrying the current value of `depth`"""
    if getattr(cg, '_c03_probe', False):
        return
    orig = cg.interp

    def interp(*a, **kw):
        it = orig(*a, **kw)
        base = it.cut.get('println')
        if getattr(cg, '_c03_probe_on', False) and base is not None:
            def h_println(it_, ctx, n, args):
                ctx.emit(DEPTH_EVENT, it_.read_global('depth'))
                return base(it_, ctx, n, args)
            it.cut['println'] = h_println
        return it
    cg.interp = interp
    cg._c03_probe = True


class _OneItem:
    def __init__(self, item):
        self.items = [item]


def nodes_with_depth(ctx, tr):
    """linearise(tr) and, per node, the value `depth` had when the line was emitted (None: not recorded / not an emitted line)"""
    from ..chibi import linearise
    depths = []
    cur = None
    for e in ctx.events:
        if e[0] == DEPTH_EVENT:
            cur = e[1]
        elif e[0] == 'emit':
            depths.append(cur); cur = None
    nodes, nd = [], []
    k = 0
    for item in tr.items:
        part = linearise(_OneItem(item))
        d = None
        if item[0] == 'asm':
            d = depths[k] if k < len(depths) else None
            k += 1
        nodes += part
        nd += [d] * len(part)
    return nodes, nd


def _pinned(ctx, v):
    """the integer a linear term is on this path (None: the path has not pinned it)"""
    from ..interp import Lin
    l = Lin.of(v)
    if l is None:
        return None
    if isinstance(l, int):
        return l
    tot = l.c
    for k, (co, leaf) in l.terms.items():
        b = ctx.bounds.get(k)
        if not b or b[0] != b[1] or b[0] is None:
            return None
        tot += co * b[0]
    return tot


def _zero_on_path(ctx, v):
    """the path has established that the linear term v is 0: pinned leaf by leaf, or a positive multiple of it (`int bytes = depth * 8; if (bytes)`) was tested"""
    if _pinned(ctx, v) == 0:
        return True
    from ..interp import Lin, Term, vkey
    l = Lin.of(v)
    if l is None or l.c != 0:
        return False
    for m in (1, 2, 4, 8, 16):
        s = l.scale(m)
        b = ctx.bounds.get(vkey(s))
        if b and b[0] == 0 and b[1] == 0:
            return True
        for op, val in (('!=', False), ('==', True)):
            for args in ((s, 0), (0, s)):
                if ctx.facts.get(vkey(Term(op, *args))) is val:
                    return True
    return False


def _bytes_minus_slots(ctx, tr, text, slots):
    """`text` (an integer or a rendered symbolic argument of the trace) minus 8*slots, as an integer if the path decides it, else a term; None: unreadable"""
    from ..interp import Lin
    v = int(text) if re.match(r'^-?\d+$', text) else tr.syms.get(text)
    a, b = Lin.of(v), Lin.of(slots)
    if a is None or b is None:
        return None
    b8 = Lin.of(b.scale(8))
    d = a.add(b8, -1)
    p = _pinned(ctx, d)
    return d if p is None else p


def jump_obligations(rep, rule, key, ctx, tr, where, jumps):
    """the jumps of one explored arm that go to a label a goto/break/continue can name, the %rsp releases, and the labels the arm defines"""
    nodes, nd = nodes_with_depth(ctx, tr)
    from ..chibi import parse_ins, stack_effect
    defined = set(n[1] for n in nodes if n[0] == 'label')
    targets = set('{node.%s}' % f for f in JUMP_TARGET_FIELDS)
    facts = {'trace': tr.text()}

    def release_at(i):
        if i < 0 or nodes[i][0] != 'ins':
            return None
        ins = parse_ins(nodes[i][1])
        if ins is None or ins[0] not in ('add', 'addq', 'sub', 'subq') or len(ins[1]) != 2 or ins[1][1] != '%rsp' or not ins[1][0].startswith('$'):
            return None
        m = _RELEASE.match(ins[1][0][1:])
        return (ins[0], m.group(1), m.group(2)) if m else None

    def shown(i):
        return 'the end of the statement' if i >= len(nodes) else ('<%s>' % nodes[i][1] if nodes[i][0] == 'pseudo' else nodes[i][1])
    for i, n in enumerate(nodes):
        if n[0] == 'label' and n[1] in targets:
            jumps['labels'].append((key, n[1], ctx, tr, nodes, nd, i, where))
        if n[0] != 'ins':
            continue
        r = release_at(i)
        if r is not None:
            mn, cur, sym = r
            nxt = parse_ins(nodes[i + 1][1]) if i + 1 < len(nodes) and nodes[i + 1][0] == 'ins' else None
            tgt = nxt[1][0] if nxt is not None and nxt[0] == 'jmp' and len(nxt[1]) == 1 else None
            rep.ob(rule, key + ':stack-release-is-followed-by-its-jump', tgt is not None and sym.endswith(tgt) and len(sym) > len(tgt),
                   '`%s` releases the operands that are pushed beyond what the symbol %s records, but the next thing emitted is `%s`, not the jump to the label that symbol belongs to: '
                   'the release is only right as a part of the jump to that label' % (nodes[i][1], sym, shown(i + 1)), where=where, facts=facts)
            if tgt is not None and sym.endswith(tgt) and len(sym) > len(tgt):
                jumps['prefix'].add(sym[:-len(tgt)])
            diff = _bytes_minus_slots(ctx, tr, cur, nd[i]) if nd[i] is not None else None
            if diff is None:
                rep.undecided(rule, key + ':stack-release-amount', 'the number of pushed bytes `%s` names, or `depth` at that point, is not readable' % nodes[i][1], where=where)
            else:
                rep.ob(rule, key + ':stack-release-amount', mn in ('add', 'addq') and isinstance(diff, int) and diff == 0,
                       'a jump out of an unfinished expression is preceded by `%s` while `depth` is %r: the stack height at the label is the one recorded there only if exactly '
                       '8*depth - <bytes recorded at the label> bytes are ADDED to %%rsp (here: %s%s); with any other amount every such break/continue/goto in a loop moves the stack pointer and '
                       'the locals addressed through %%rsp-relative pushes/pops are lost' % (nodes[i][1], nd[i], 'subtracted, ' if mn.startswith('sub') else '', 'amount is off by %r' % (diff,)),
                       where=where, facts=facts)
            continue
        ins = parse_ins(n[1])
        if ins is None or not ins[1] or not (ins[0] == 'jmp' or (ins[0].startswith('j') and ins[0][1:] in _CC)):
            continue
        tgt = ins[1][0]
        if tgt not in targets or tgt in defined:
            continue
        # a jump out of the arm to a label that records its stack height
        jumps['njumps'] += 1
        k = key + ':jump-leaves-no-operand-pushed'
        r = release_at(i - 1) if ins[0] == 'jmp' else None
        if r is not None:
            # (that the released amount and the symbol are the right ones is decided at the release)
            rep.ob(rule, k, True, '', where=where)
            continue
        if nd[i] is None:
            rep.undecided(rule, k, '`depth` at the jump `%s` was not recorded' % n[1], where=where)
            continue
        if _zero_on_path(ctx, nd[i]):
            rep.ob(rule, k, True, '', where=where)
            continue
        if i > 0 and nodes[i - 1][0] == 'ins' and isinstance(stack_effect(nodes[i - 1][1])[0], tuple):
            rep.undecided(rule, k, '`%s` is preceded by `%s`, which moves %%rsp in a way that is not recognised as the release of the pushed operands' % (n[1], nodes[i - 1][1]), where=where)
            continue
        rep.ob(rule, k, False,
               '`%s` is emitted on a path where `depth` (%r) is not known to be 0 and nothing is released before it: a break/continue/goto inside a statement expression that is an operand of an '
               'unfinished expression (`x = 1 + ({ if (c) continue; 2; })`, an argument of a call whose other arguments are pushed) leaves with those operands on the stack, so every iteration '
               'leaks stack and the locals of a frame addressed relative to the pushes are off (C11 6.8.6: the jump only transfers control)' % (n[1], nd[i]), where=where, facts=facts)


def label_records(rep, rule, jumps):
    """when jumps release `8*depth - <prefix><label>` bytes, every label such a jump can name defines that symbol as 8 * `depth` at the label"""
    if not jumps['prefix']:
        return
    pfx = sorted(jumps['prefix'])
    for key, label, ctx, tr, nodes, nd, i, where in jumps['labels']:
        fld = label.strip('{}').split('.')[-1]
        recs = []
        for j, n in enumerate(nodes):
            m = _RECORD.match(n[1].strip()) if n[0] == 'ins' else None
            if m and m.group(1) in [p + label for p in pfx]:
                recs.append((j, m.group(2)))
        k = '%s:%s-records-the-bytes-pushed-there' % (key, fld)
        if len(recs) != 1:
            rep.ob(rule, k, False, 'the label %s is defined %s a `.set %s%s, <bytes pushed>`: a break/continue/goto that leaves an unfinished expression releases `8*depth - %s%s` bytes '
                   'before it jumps there, which is undefined or ambiguous' % (label, 'without' if not recs else 'with more than one', pfx[0], label, pfx[0], label),
                   where=where, facts={'trace': tr.text()})
            continue
        diff = _bytes_minus_slots(ctx, tr, recs[0][1], nd[i]) if nd[i] is not None else None
        if diff is None:
            rep.undecided(rule, k, 'the value recorded for %s, or `depth` at the label, is not readable' % label, where=where)
            continue
        rep.ob(rule, k, isinstance(diff, int) and diff == 0,
               'the label %s is defined while `depth` is %r but `%s` records another number of pushed bytes (off by %r): a jump that releases `8*depth - <recorded>` bytes arrives with a wrong stack pointer'
               % (label, nd[i], nodes[recs[0][0]][1], diff), where=where, facts={'trace': tr.text()})


def new_jumps():
    return {'labels': [], 'prefix': set(), 'njumps': 0}


def skeleton(cg, rep, rule, fname, kind, mk, expect, result=None, both=(), nan_rule=None, jumps=None):
    """expect(it, ctx) -> regex over the path signature; result(state, it, ctx, sig) -> (ok, detail) or None
    nan_rule: rule id under which every truth test of a floating operand is required to treat NaN as non-zero
    jumps: collector (new_jumps()) -> the arm's jumps to break/continue/goto labels, its %rsp releases and its label definitions are decided too (label_records afterwards)"""
    where = '%s:%d' % (U, cg.cu.fn(fname).line)
    pack = run_paths_jumps(cg, fname, mk) if jumps is not None else run_paths(cg, fname, mk)
    nsig = 0
    seen_tests = {}
    seen_ctx = set()
    for ctx, tr, finals, cats, it in pack:
        if isinstance(finals, Exception):
            rep.undecided(rule, '%s:%s:%s' % (U, fname, kind), 'emitted code not interpretable: %s' % finals, where=where)
            continue
        rx, shape = expect(it, ctx)
        key = '%s:%s:%s%s' % (U, fname, kind, ('/' + shape) if shape else '')
        if jumps is not None and id(ctx) not in seen_ctx:
            seen_ctx.add(id(ctx))
            jump_obligations(rep, rule, key, ctx, tr, where, jumps)
        if not finals and rx is not None:
            rep.ob(rule, key + ':has-exit', False, 'no path through the emitted code of %s reaches its end' % kind, where=where, facts={'trace': tr.text()})
        tcats, cats = cats, _value_cats(cats)
        for s in finals:
            sig, q = signature(s, cats)
            nsig += 1
            if nan_rule:
                for child, cat, whole, cterm in _addr_truth_tests(s, tcats):
                    rep.ob(WIDTH_RULE, '%s:truth-test-of-%s/%s:whole-value' % (key, child, cat), whole,
                           'in %s the truth test of the %s operand `%s` is %r: the value of such an operand is an address (64 bits), but the comparison with zero reads only part of it, '
                           'so an object or function whose address has those bits zero (anything mapped at a multiple of 4 GiB) counts as a null pointer and the construct takes the branch of a false condition '
                           '(`char (*p)[4]; if (*p) ...`, a member array `q->s && x`, `while (fn)`)' % (kind, cat, child, cterm),
                           where='%s:%d' % (U, cg.cu.fn('cmp_zero').line) if 'cmp_zero' in cg.cu.functions else where, facts={'trace': tr.text(), 'path': sig})
            ok = rx is not None and re.match(rx, sig) is not None
            rep.ob(rule, key + ':order', ok,
                   'the emitted code of %s can execute `%s`, which is not an execution of the C abstract machine for this statement form (expected pattern %s)' % (kind, sig, rx),
                   where=where, facts={'trace': tr.text()})
            for t in re.findall(r'T:(\w[\w.]*):([01])', sig):
                seen_tests.setdefault((shape, t[0]), set()).add(t[1])
            if nan_rule:
                for child, cat, qual, cterm in _fp_truth_tests(s, cats):
                    rep.ob(nan_rule, '%s:truth-test-of-%s/%s:nan-is-nonzero' % (key, child, cat), qual == 'exact',
                           'in %s the truth test of the %s operand `%s` is %r: when the value is a NaN the comparison with zero is unordered and the emitted jump treats that as "equal to zero", '
                           'so the construct takes the branch of a false condition (the else branch / the third operand / no further iteration / && stops, || goes on); '
                           'C11 6.8.4.1p2, 6.8.5p4, 6.5.13-15: the branch is selected by whether the expression compares unequal to 0, and a NaN does' % (kind, cat, child, cterm),
                           where='%s:%d' % (U, cg.cu.fn('cmp_zero').line) if 'cmp_zero' in cg.cu.functions else where, facts={'trace': tr.text(), 'path': sig})
            if ok and result is not None:
                try:
                    r = result(s, it, ctx, sig, cats)
                except Unknown as e:
                    rep.undecided(rule, key + ':value', str(e), where=where); r = None
                if r is not None:
                    rep.ob(rule, key + ':value', r[0], r[1], where=where, facts={'trace': tr.text(), 'path': sig})
    for (shape, name), vals in sorted(seen_tests.items()):
        rep.ob(rule, '%s:%s:%s%s:test-%s-both-ways' % (U, fname, kind, ('/' + shape) if shape else '', name), vals == {'0', '1'},
               'the test of `%s` in %s has only outcome(s) %s: one branch of the construct can never execute' % (name, kind, sorted(vals)), where=where)
    if nsig == 0:
        rep.undecided(rule, '%s:%s:%s' % (U, fname, kind), 'no complete path through the emitted code', where=where)


def value_is(child, cats_needed=True):
    """result check: %rax / xmm0 / st0 holds exactly what `child` left"""
    def f(s, it, ctx, sig, cats, child=child):
        cat = cats.get(child)
        if cat is None:
            raise Unknown('type class of %s unknown' % child)
        where, term = child_value(child, cat)
        if where == 'rax':
            return (s.reg['rax'] == term, 'the value of the expression is %r, C11 prescribes the value of `%s` (%r)' % (s.reg['rax'], child, term))
        if where == 'xmm0':
            return (s.xmm.get(0) == term, 'the value of the expression (xmm0) is %r, C11 prescribes the value of `%s`' % (s.xmm.get(0), child))
        return (bool(s.st) and s.st[-1] == term, 'the value of the expression (st0) is %r, C11 prescribes the value of `%s`' % (s.st[-1] if s.st else None, child))
    return f


def const_is(v):
    def f(s, it, ctx, sig, cats):
        a = lo(32, s.reg['rax'])
        return (a == C(v), 'the value of the expression is %r, C11 prescribes %d on this path' % (a, v))
    return f


def r_logic(cg, rep, rule, nan_rule=None):
    """&& and ||: left operand first, right operand only when needed, each operand tested for zero at its own type, result 0/1"""
    any_scalar = lambda label: cg.tcell(label, only=TRUTH_OPERANDS)
    # --- expression level -------------------------------------------------------------
    def mk_logic(kind):
        def mk(ctx):
            n = cg.node('node', kind)
            n.fields['ty'] = cg.tcell('nty', only=('int',))
            n.fields['lhs'] = cg.node('lhs', ty=any_scalar('lty'))
            n.fields['rhs'] = cg.node('rhs', ty=any_scalar('rty'))
            return n
        return mk
    skeleton(cg, rep, rule, 'gen_expr', 'ND_LOGAND', mk_logic('ND_LOGAND'),
             lambda it, ctx: (r'^E:lhs (T:lhs:0|T:lhs:1 E:rhs T:rhs:[01]) END$', ''),
             result=lambda s, it, ctx, sig, cats: const_is(1 if sig.endswith('T:rhs:1 END') else 0)(s, it, ctx, sig, cats), nan_rule=nan_rule)
    skeleton(cg, rep, rule, 'gen_expr', 'ND_LOGOR', mk_logic('ND_LOGOR'),
             lambda it, ctx: (r'^E:lhs (T:lhs:1|T:lhs:0 E:rhs T:rhs:[01]) END$', ''),
             result=lambda s, it, ctx, sig, cats: const_is(0 if sig.endswith('T:rhs:0 END') else 1)(s, it, ctx, sig, cats), nan_rule=nan_rule)



def r033(cg, rep):
    rep.rule('R03.3', 'for every statement and short-circuit form, each path through the emitted code is an execution of the C abstract machine: evaluation order, truth tests on the right operand with the right width, continue/break label placement, result value; a break/continue/goto emitted while operands of an unfinished expression are pushed (`depth` != 0) releases exactly `8*depth - <bytes recorded at its label>` bytes right before the jump, and every label such a jump can name records 8*depth of its own place', floor=40)
    rep.rule(NAN_RULE, 'a floating controlling expression / logical operand selects the branch by whether it compares unequal to zero, so a NaN (float, double or long double) takes the `true` branch: '
                       'in every statement and short-circuit form (if, for/while, do, ?:, &&, ||) each truth test of a floating operand treats the unordered outcome as non-zero, '
                       'and so do the shared zero test and `!` (the latter two: same obligations as C02 R02.4)', floor=30)
    any_scalar = lambda label: cg.tcell(label, only=TRUTH_OPERANDS)
    rep.rule(WIDTH_RULE, 'a controlling expression / logical operand whose value is an address - pointer, and the kinds the parser leaves unconverted: array, function designator, VLA - is compared with zero '
                         'as a whole (all 64 bits) in every statement and short-circuit form (if, for/while, do, ?:, &&, ||), whatever `size` its type records (an array of 4 bytes or less, a function type of size 1): '
                         'C11 6.3.2.1p3-4 the value is a pointer, 6.8.4.1p2 / 6.8.5p4 / 6.5.13-15 the branch is selected by whether it compares unequal to 0', floor=24)
    r_logic(cg, rep, 'R03.3', nan_rule=NAN_RULE)

    def mk_cond(ctx):
        n = cg.node('node', 'ND_COND')
        t = cg.tcell('ty', only=SCALARS + ('struct', 'void'))
        n.fields['ty'] = t
        n.fields['cond'] = cg.node('cond', ty=any_scalar('cty'))
        n.fields['then'] = cg.node('then', ty=t)
        n.fields['els'] = cg.node('els', ty=t)
        return n
    skeleton(cg, rep, 'R03.3', 'gen_expr', 'ND_COND', mk_cond,
             lambda it, ctx: (r'^E:cond (T:cond:1 E:then|T:cond:0 E:els) END$', ''),
             result=lambda s, it, ctx, sig, cats: (None if cats.get('then') == 'void' else value_is('then' if 'E:then' in sig else 'els')(s, it, ctx, sig, cats)), nan_rule=NAN_RULE)

    def mk_comma(ctx):
        n = cg.node('node', 'ND_COMMA')
        t = cg.tcell('ty', only=SCALARS + ('struct',))
        n.fields['ty'] = t
        n.fields['lhs'] = cg.node('lhs', ty=cg.tcell('lty', only=('int', 'void', 'double')))
        n.fields['rhs'] = cg.node('rhs', ty=t)
        return n
    skeleton(cg, rep, 'R03.3', 'gen_expr', 'ND_COMMA', mk_comma, lambda it, ctx: (r'^E:lhs E:rhs END$', ''), result=value_is('rhs'))

    # --- statements ------------------------------------------------------------------------
    def mk_stmt(kind, **kw):
        def mk(ctx):
            n = cg.node('node', kind)
            if kind in ('ND_IF', 'ND_FOR', 'ND_DO'):
                n.fields['cond_ty'] = None
            for k, v in kw.items():
                n.fields[k] = v(ctx) if callable(v) else v
            return n
        return mk

    def with_cond(kind, nullable=False):
        def mk(ctx):
            n = cg.node('node', kind)
            c = cg.node('cond', ty=any_scalar('cty'))
            n.fields['cond'] = View(__import__('sa.interp', fromlist=['Cell']).Cell([0, c], 'node.cond')) if nullable else c
            n.fields['then'] = cg.node('then')
            return n
        return mk

    def ex_if(it, ctx):
        e = present(it, ctx.root, 'els')
        return (r'^E:cond (T:cond:1 S:then|T:cond:0%s) END$' % (' S:els' if e else ''), 'else' if e else 'no-else')
    jumps = new_jumps()
    skeleton(cg, rep, 'R03.3', 'gen_stmt', 'ND_IF', with_cond('ND_IF'), ex_if, nan_rule=NAN_RULE, jumps=jumps)

    def ex_for(it, ctx):
        i, c, n = present(it, ctx.root, 'init'), present(it, ctx.root, 'cond'), present(it, ctx.root, 'inc')
        shape = '%s%s%s' % ('i' if i else '-', 'c' if c else '-', 'n' if n else '-')
        if not c:
            return (None, shape)      # for(;;): no exit through the loop test; layout is checked by the linear rule below
        body = 'S:then L:node\\.cont_label %s' % ('E:inc ' if n else '')
        return (r'^%s(E:cond T:cond:1 %s)*E:cond T:cond:0 L:node\.brk_label END$' % ('S:init ' if i else '', body), shape)
    skeleton(cg, rep, 'R03.3', 'gen_stmt', 'ND_FOR', with_cond('ND_FOR', nullable=True), ex_for, nan_rule=NAN_RULE, jumps=jumps)

    def ex_do(it, ctx):
        return (r'^(S:then L:node\.cont_label E:cond T:cond:1 )*S:then L:node\.cont_label E:cond T:cond:0 L:node\.brk_label END$', '')
    skeleton(cg, rep, 'R03.3', 'gen_stmt', 'ND_DO', with_cond('ND_DO'), ex_do, nan_rule=NAN_RULE, jumps=jumps)

    for kind, rx in (('ND_BLOCK', r'^(S:[\w.\[\]]+ )*END$'), ('ND_EXPR_STMT', r'^E:lhs END$'), ('ND_GOTO', r'^OUT:node\.unique_label EXIT$'),
                     ('ND_LABEL', r'^L:node\.unique_label S:lhs END$'), ('ND_CASE', r'^L:node\.label S:lhs END$'),
                     ('ND_GOTO_EXPR', r'^E:lhs OUT:%rax EXIT$')):
        def mk(ctx, kind=kind):
            n = cg.node('node', kind)
            if kind in ('ND_EXPR_STMT',):
                n.fields['lhs'] = cg.node('lhs', ty=cg.tcell('lty', only=('int', 'void', 'long', 'double', 'struct')))
            if kind == 'ND_GOTO_EXPR':
                n.fields['lhs'] = cg.node('lhs', ty=cg.tcell('lty', only=('ptr',)))
            if kind in ('ND_LABEL', 'ND_CASE'):
                n.fields['lhs'] = cg.node('lhs')
            return n
        skeleton(cg, rep, 'R03.3', 'gen_stmt', kind, mk, lambda it, ctx, rx=rx: (rx, ''), jumps=jumps)
    return jumps


def r033_switch(cg, rep, jumps=None):
    """switch dispatch: every case is compared against the controlling value with the width of the
    controlling type (ranges by the unsigned `value - begin <= end - begin` idiom), a match jumps to the case's own label,
    no match jumps to default (if any) else to break; the body follows the dispatch; break label closes"""
    where = '%s:%d' % (U, cg.cu.fn('gen_stmt').line)
    from ..interp import Cell
    for ccat in ('int', 'long', 'uchar', 'ulong', 'short'):
        def mk(ctx, ccat=ccat):
            n = cg.node('node', 'ND_SWITCH')
            n.fields['cond'] = cg.node('cond', ty=cg.tcell('cty', only=(ccat,)))
            n.fields['then'] = cg.node('then')
            return n
        it = None
        cg.interp_kwargs = {}
        pack = run_paths_jumps(cg, 'gen_stmt', mk) if jumps is not None else run_paths(cg, 'gen_stmt', mk)
        seen_ctx = set()
        w = 64 if INTSZ[ccat] == 8 else 32
        _, V = child_value('cond', ccat)
        Vw = lo(w, V)
        n_case = 0
        for ctx, tr, finals, cats, it in pack:
            key = '%s:gen_stmt:ND_SWITCH/%s' % (U, ccat)
            if isinstance(finals, Exception):
                rep.undecided('R03.3', key, 'emitted code not interpretable: %s' % finals, where=where); continue
            has_default = present(it, ctx.root, 'default_case')
            if jumps is not None and id(ctx) not in seen_ctx:
                seen_ctx.add(id(ctx))
                jump_obligations(rep, 'R03.3', key, ctx, tr, where, jumps)
            for s in finals:
                # decode the path: sequence of case tests
                ev = [e for e in s.events if e[0] in ('eval', 'branch', 'jump_out', 'label')]
                if not ev or ev[0] != ('eval', 'expr', 'cond'):
                    rep.ob('R03.3', key + ':evaluates-controlling-expression-first', False, 'the switch does not start by evaluating its controlling expression', where=where, facts={'trace': tr.text()}); continue
                ok = True
                detail = ''
                matched = None
                for e in ev[1:]:
                    if e[0] == 'branch':
                        c = canon(e[1]); taken = e[2]
                        n_case += 1
                        good = False
                        label = None
                        if c[0] == 'cmp' and c[1] == 'eq' and c[2] == w and Vw in (c[3], c[4]):
                            other = c[4] if c[3] == Vw else c[3]
                            if other[0] == 'immsym' and other[1].endswith('.begin}'):
                                good = True; label = other[1][1:-len('.begin}')]
                        elif c[0] == 'cmp' and c[1] == 'le_u' and c[2] == w:
                            a, b = c[3], c[4]
                            if a[0] == 'bin' and a[1] == 'sub' and a[3] == Vw and a[4][0] == 'immsym' and a[4][1].endswith('.begin}') and b[0] == 'immsym':
                                label = a[4][1][1:-len('.begin}')]
                                want = tr.syms.get(b[1])
                                from ..interp import Lin
                                l = Lin.of(want) if want is not None else None
                                names = sorted('%s%s' % ('-' if co < 0 else '+', repr(leaf)) for k, (co, leaf) in (l.terms.items() if hasattr(l, 'terms') else []))
                                good = names == ['+%s.end' % label, '-%s.begin' % label] and getattr(l, 'c', 1) == 0
                        if not good:
                            ok = False; detail = 'a case test compares %r (width %d expected, controlling value %r)' % (c, w, Vw); break
                        if taken:
                            matched = label
                    elif e[0] == 'jump_out':
                        tgt = e[1].strip('{}')
                        if matched is not None:
                            if tgt != matched + '.label':
                                ok = False; detail = 'a matching case jumps to %s instead of its own label %s.label' % (tgt, matched)
                        else:
                            wantt = 'node.default_case.label' if has_default else None
                            if tgt != wantt:
                                ok = False; detail = 'when no case matches control goes to %s (expected %s)' % (tgt, wantt or 'the break label')
                    elif e[0] == 'label' and matched is None and e[1].strip('{}') == 'node.brk_label' and has_default:
                        ok = False; detail = 'with a default label present, an unmatched value reaches the break label'
                rep.ob('R03.3', key + ':dispatch', ok, 'switch dispatch: %s' % detail, where=where, facts={'trace': tr.text()})
            # layout: body after the dispatch, break label last (directives that define no code -- line numbers, assembler symbols -- are not part of it)
            trace = tr.text()
            lin = [l for l in trace if is_code(l)]
            idx_then = [i for i, l in enumerate(lin) if l.strip() == '<stmt then>']
            idx_brk = [i for i, l in enumerate(lin) if l.strip() == '{node.brk_label}:']
            idx_jbrk = [i for i, l in enumerate(lin) if l.split() == ['jmp', '{node.brk_label}']]
            okl = len(idx_then) == 1 and len(idx_brk) == 1 and len(idx_jbrk) == 1 and idx_jbrk[0] + 1 == idx_then[0] and idx_then[0] + 1 == idx_brk[0] and idx_brk[0] == len(lin) - 1
            rep.ob('R03.3', key + ':layout', okl, 'switch layout is not dispatch; jmp break; body; break label', where=where, facts={'trace': trace})
        if n_case == 0:
            rep.undecided('R03.3', '%s:gen_stmt:ND_SWITCH/%s' % (U, ccat), 'no case comparison was seen', where=where)


# ------------------------------------------------------------------ parser side ---
CTX_GLOBALS = ('brk_label', 'cont_label', 'current_switch')
# parser entry points stmt() hands a part of a statement to that is NOT a sub-statement of it
SUB_PARSERS = ('expr', 'const_expr', 'declspec', 'declaration', 'expr_stmt', 'compound_stmt', 'asm_stmt', 'assign', 'conditional', 'typename')


RELOPS = ('<', '<=', '>', '>=')


def _watch_comparisons(it):
    """the interpreter drops same-width integer casts, so `(uint64_t)a < (uint64_t)b` and `a < b` give the same term: record, for every relational
    comparison of opaque values, the C type clang gives its (converted) operands, and keep unsigned comparisons apart from signed ones"""
    from ..interp import Term, int_type
    orig = it.binop

    def binop(op, a, b, n):
        r = orig(op, a, b, n)
        if op in RELOPS and isinstance(r, Term) and r.op == op and len(n.inner) == 2:
            ty = int_type(n.inner[0].dtype or n.inner[0].type) or int_type(n.inner[1].dtype or n.inner[1].type)
            if ty is not None and not ty[1]:
                r = Term(op + ':unsigned', *r.args)
            it.ctx.emit('cmp', op, r.args[0], r.args[1], ty, r, n.line)
        return r
    it.binop = binop


def _callgraph(pu):
    return {f: set(c.callee() for c in fd.find('CallExpr') if c.callee()) for f, fd in pu.functions.items()}


def _global_writers(pu, names):
    """functions of the unit that assign one of the named file-scope variables"""
    out = set()
    for f, fd in pu.functions.items():
        for b in fd.walk():
            if b.kind in ('BinaryOperator', 'CompoundAssignOperator') and (b.opcode or '').endswith('=') and b.opcode not in ('==', '!=', '<=', '>=') and b.inner:
                l = b.inner[0].strip()
                if l.kind == 'DeclRefExpr' and l.ref_name in names and l.ref_name in pu.globals and l.ref_id == pu.globals[l.ref_name].id:
                    out.add(f)
    return out


def irrelevant_heavy_callees(pu, root, anchors, keep=(), cgr=None):
    """the functions `root` reaches through calls (following only callees that are interpreted) which take no part in what the exploration observes -- they reach
    none of the anchor functions -- and are not small (recursive, or more than a handful of functions below them): a constant folder, a type walker, ... They are
    treated as opaque calls; helpers that lead to an anchor (a sub-parser, a scope function, a writer of the context variables) stay interpreted"""
    cg = cgr if cgr is not None else _callgraph(pu)
    reach = {}

    def closure(f):
        if f in reach:
            return reach[f]
        seen = set()
        todo = [f]
        while todo:
            g = todo.pop()
            for h in cg.get(g, ()):
                if h not in seen:
                    seen.add(h)
                    todo.append(h)
        reach[f] = seen
        return seen
    out = set()
    seen = set()
    todo = [root]
    while todo:
        g = todo.pop()
        for h in sorted(cg.get(g, ())):
            if h in seen or h in keep or h not in pu.functions:
                continue
            seen.add(h)
            cl = closure(h)
            if h in anchors or (cl & set(anchors)):
                if h not in anchors:
                    todo.append(h)
                continue
            if h in cl or len([x for x in cl if x in pu.functions]) > 6:
                out.add(h)
            else:
                todo.append(h)
    return out


def explore_stmt(P, cat=None):
    """cat: a chibi.Catalogue -> the controlling expression of the enclosing switch gets a type out of the integer types of the catalogue"""
    from ..lib_parse import TokenModel
    from ..interp import Cell
    pu = P.unit('parse.c')
    if 'stmt' not in pu.functions:
        raise AnalysisBroken('parse.c: stmt vanished')
    tm_box = [None]

    def enclosing_switch(ctx):
        sw = Obj('Node', lazy=True, label='sw0')
        if cat is not None:
            from ..chibi import type_cell
            c = Obj('Node', lazy=True, label='sw0.cond')
            c.fields['ty'] = type_cell(cat, 'sw0.cond.ty', only=INT_CATS)
            sw.fields['cond'] = c
            ctx.sw_ty = c.fields['ty']
        return View(Cell([0, sw], 'current_switch'))

    def h_stmt(it, ctx, n, args):
        # recursive statement: record the context the body is parsed in
        g = {k: it.read_global(k) for k in CTX_GLOBALS}
        ctx.emit('body', g, n.line)
        tm_box[0].advance(it, ctx, args[0], 'stmt')
        return Obj('Node', lazy=True, label=ctx.fresh('substmt'))
    sw0 = Obj('Node', lazy=True, label='sw0')

    def h_sub(name):
        # a sub-construct that is not a sub-statement (controlling expression, for-init, case value, ...):
        # record the break/continue/switch context it is parsed in, then behave like the opaque, cursor-advancing call
        def h(it, ctx, n, args):
            ctx.emit('sub', name, {k: it.read_global(k) for k in CTX_GLOBALS}, n.line)
            return tm_box[0]._advancing(name)(it, ctx, n, args)
        return h
    cuts = {'stmt': h_stmt}
    for name in SUB_PARSERS:
        ps = pu.params(name) if name in pu.functions else None
        if ps and (ps[0].type or '').replace(' ', '') == 'Token**':
            cuts[name] = h_sub(name)
    base_opaque = ['expr', 'const_expr', 'declspec', 'declaration', 'expr_stmt', 'compound_stmt', 'new_unique_name', 'enter_scope', 'leave_scope',
                   'is_typename', 'add_type', 'new_cast', 'asm_stmt', 'strndup', 'new_unary', 'copy_type']
    # a helper of stmt() that leads to a sub-parser / scope function / context variable is interpreted with it; anything else that is not small (eval(), ...) is an opaque call
    cgr = _callgraph(pu)
    heavy = irrelevant_heavy_callees(pu, 'stmt', set(['stmt', 'enter_scope', 'leave_scope']) | set(SUB_PARSERS) | _global_writers(pu, CTX_GLOBALS), keep=set(base_opaque) | {'equal', 'consume', 'skip'}, cgr=cgr)
    tm = TokenModel(P, pu, ['stmt'] + sorted(f for f in cgr.get('stmt', ()) if f != 'stmt' and f in pu.functions and 'stmt' in cgr.get(f, ())),
                    extra_opaque=base_opaque + sorted(heavy),
                    cut=cuts,
                    globals_={'brk_label': Sym('brk0', 'char *'), 'cont_label': Sym('cont0', 'char *'),
                              'current_switch': enclosing_switch,
                              'gotos': 0, 'labels': 0})
    tm_box[0] = tm
    it = tm.interp()
    _watch_comparisons(it)
    from ..interp import _Ref, VarPlace

    def mk(ctx):
        box = {'rest': None}
        ctx.tok0 = tm.token('tok')
        return [_Ref(VarPlace(box, 'rest')), ctx.tok0]
    res = it.explore('stmt', mk, max_paths=4000)
    return pu, tm, it, res


def first_keyword(it, ctx):
    for t in ctx.trail:
        pass
    return None


BLOCK_STATEMENTS = ('if', 'switch', 'while', 'do', 'for')      # C11 6.8.4p3, 6.8.5p5: selection and iteration statements are blocks


def _r039_path(rep, ctx, kwd, kind, where):
    """one returning path of stmt(): the scope stack (relative to the enclosing block) at every hand-off to a parser"""
    stack = []
    nid = 0
    parts = []          # (parser name, is sub-statement, scopes open, line)
    for e in ctx.events:
        if e[0] == 'call' and e[1] == 'enter_scope':
            nid += 1
            stack.append(nid)
        elif e[0] == 'call' and e[1] == 'leave_scope':
            if not stack:
                return          # unbalanced: R03.1 scope-paired reports it
            stack.pop()
        elif e[0] == 'sub':
            parts.append((e[1], False, tuple(stack), e[3]))
        elif e[0] == 'body':
            parts.append(('stmt', True, tuple(stack), e[2]))
    if kwd in BLOCK_STATEMENTS:
        for name, is_body, st, line in parts:
            rep.ob('R03.9', 'parse.c:stmt:%s:%s-parsed-inside-statement-scope' % (kwd, name), len(st) >= 1,
                   'a `%s` statement hands %s to %s() without having entered a scope of its own: a selection/iteration statement is a block (C11 6.8.4p3, 6.8.5p5), so a tag or '
                   'enumerator declared there (sizeof/cast/compound literal of a struct or enum specifier) must go out of scope at the end of the statement; here it is entered into the '
                   'enclosing block, stays visible after the statement and hides the outer declaration of the same name'
                   % (kwd, 'a sub-statement' if is_body else 'a part of its header', name), where='parse.c:%d' % line)
        for i, (name, is_body, st, line) in enumerate(parts):
            if not is_body or not st:
                continue
            for name2, is_body2, st2, line2 in parts[i + 1:]:
                rep.ob('R03.9', 'parse.c:stmt:%s:sub-statement-scope-closed-before-%s' % (kwd, name2), st[-1] not in st2,
                       'in a `%s` statement the scope a sub-statement is parsed in is still open when the following part is handed to %s(): each sub-statement is a block of its own '
                       '(C11 6.8.4p3, 6.8.5p5), so what it declares must not be visible in the rest of the statement (`do (void)sizeof(enum { N = 1 }); while (N);` / the else branch of an if)'
                       % (kwd, name2), where='parse.c:%d' % line2)
    elif kwd not in ('block',):
        for name, is_body, st, line in parts:
            rep.ob('R03.9', 'parse.c:stmt:%s:%s-parsed-in-enclosing-scope' % (kwd, name), len(st) == 0,
                   'a `%s` statement hands %s to %s() inside a scope of its own: only selection, iteration and compound statements are blocks (C11 6.8p3, 6.2.1p4); a tag or enumerator declared '
                   'in a labeled, jump or expression statement belongs to the enclosing block and must stay visible in the statements that follow'
                   % (kwd, 'its sub-statement' if is_body else 'its expression', name), where='parse.c:%d' % line)


def _cmp_truth(ctx, r):
    """how the path decided the comparison term r (None: it did not); the decision may have been taken on `r != 0`, `!r`, `!r != 0`, ..."""
    from ..interp import vkey
    k = vkey(r)

    def unwrap(key, neg=False, depth=0):
        if key == k:
            return neg
        if depth < 6 and isinstance(key, tuple) and key and key[0] == 'term':
            if len(key) == 4 and key[1] in ('!=', '==') and key[3] == 0:
                return unwrap(key[2], neg != (key[1] == '=='), depth + 1)
            if len(key) == 3 and key[1] == '!':
                return unwrap(key[2], not neg, depth + 1)
        return None
    for fk, fv in ctx.facts.items():
        neg = unwrap(fk)
        if neg is not None:
            return bool(fv) != neg
    if ctx.bounds.get(k) == [0, 0]:
        return False
    if 0 in ctx.neq.get(k, ()):
        return True
    return None


def case_value_origin(it, ctx, v, depth=0):
    """where a value stored as a case bound comes from on this path: (set of const_expr results it is computed from, list of type operands of the calls in between)
    -- the folded constant itself gives ({itself}, [])"""
    raws = [e[4] for e in ctx.events if e[0] == 'call' and e[1] == 'const_expr']
    seen = set()
    src = []
    tys = []
    from ..interp import Term

    def same(a, b):
        if a is b:
            return True
        if isinstance(a, View) and isinstance(b, View):
            return a.cell is b.cell
        if isinstance(a, View) and isinstance(b, Obj):
            return any(c is b for c in a.cell.cands)
        if isinstance(b, View) and isinstance(a, Obj):
            return any(c is a for c in b.cell.cands)
        return False

    def walk(x, d, arg=False):
        if d > 8 or x is None or isinstance(x, (int, str)):
            return
        k = id(x.cell) if isinstance(x, View) else id(x)
        if k in seen:
            return
        seen.add(k)
        if any(x is r for r in raws):
            src.append(x); return
        if isinstance(x, View):
            if any(isinstance(c, Obj) and c.tname == 'Type' for c in x.cell.cands) or x.cell is getattr(getattr(ctx, 'sw_ty', None), 'cell', None):
                if arg:         # (a type that is a field of a node built on the way is the type the constant has before the conversion)
                    tys.append(x)
                return
        if isinstance(x, Obj) and x.tname == 'Type':
            if arg:
                tys.append(x)
            return
        if isinstance(x, Term):
            for a in x.args:
                walk(a, d + 1)
            return
        for e in ctx.events:
            if e[0] == 'call' and e[1] != 'const_expr' and e[4] is not None and same(e[4], x):
                for a in (e[2] or []):
                    walk(a, d + 1, True)
        objs = [x] if isinstance(x, Obj) else ([c for c in x.cell.cands if isinstance(c, Obj)] if isinstance(x, View) else [])
        for o in objs:
            if not o.lazy:
                for f, fv in list(o.fields.items()):
                    walk(fv, d + 1)
    walk(v, 0)
    return src, tys


def _type_sizes(it, ctx, t):
    """the sizes a type operand can have on this path (None: unknown)"""
    if isinstance(t, View):
        out = set()
        for c in t.cell.cands:
            c = t.proj(c) if t.fn else c
            if not isinstance(c, Obj) or not isinstance(c.fields.get('size'), int):
                return None
            out.add((c.meta.get('cat') or c.label or '?', c.fields['size']))
        return out
    if isinstance(t, Obj) and isinstance(t.fields.get('size'), int):
        return {(t.meta.get('cat') or t.label or '?', t.fields['size'])}
    return None


def r03e_case_conversion(rep, it, ctx, node, where):
    """R03.14 on one returning path of the case arm; returns {id(stored value): folded constant} for the bounds that are conversions of a folded constant to a type of at least int's size"""
    alias = {}
    raws = [e[4] for e in ctx.events if e[0] == 'call' and e[1] == 'const_expr']
    if not raws:
        return alias
    for f in ('begin', 'end'):
        v = node.fields.get(f)
        if any(v is r for r in raws):
            rep.ob('R03.14', 'parse.c:stmt:case:%s-not-converted-to-a-type-below-int' % f, True, '', where=where)
            continue
        src, tys = case_value_origin(it, ctx, v)
        if len(src) != 1 or not tys:
            continue            # not recognisably a conversion of the constant: R03.2 value-unnarrowed speaks
        sizes = [_type_sizes(it, ctx, t) for t in tys]
        if any(z is None for z in sizes):
            rep.undecided('R03.14', 'parse.c:stmt:case:%s-conversion-type' % f, 'the case constant is converted to a type whose size is not known on this path', where=where)
            continue
        small = sorted(set(c for z in sizes for c, n in z if n < 4))
        rep.ob('R03.14', 'parse.c:stmt:case:%s-not-converted-to-a-type-below-int' % f, not small,
               'the constant of a case label is converted to the type %s before it is stored in the node (node.%s): the integer promotions are performed on the controlling expression and the case '
               'constants are converted to the PROMOTED type (C11 6.8.4.2p5), so with a controlling expression of type char/short/_Bool a constant outside that type\'s range can never match '
               '(`switch ((signed char)c) { case 200: ... }` is dead code); converted to the unpromoted type it wraps onto a value the expression can take (200 -> -56, _Bool: 2 -> 1) and the '
               'switch jumps to a label the abstract machine never selects' % ('/'.join(small), f), where=where, facts={'path': ctx.trail[-6:]})
        if not small:
            alias[id(v)] = src[0]
    return alias


def r032_ranges(rep, it, res, where):
    """GNU case ranges `case B ... E:`: the range is diagnosed as empty exactly when E < B in the type of the controlling expression"""
    from ..lib_parse import spelled
    from ..interp import Term
    n_diag = n_ok = 0
    reads_type = False
    for ctx, out in res:
        if spelled(it, getattr(ctx, 'tok0', None)) != ['case']:
            continue
        tyv = getattr(ctx, 'sw_ty', None)
        if isinstance(tyv, View) and getattr(tyv.cell, 'refined_at', None):
            reads_type = True
        ce = [e for e in ctx.events if e[0] == 'call' and e[1] == 'const_expr']
        if len(ce) != 2:
            continue
        B, E = ce[0][4], ce[1][4]
        after = ctx.events[ctx.events.index(ce[1]) + 1:]
        conv = {}          # a bound that went through a conversion call (to the promoted type: R03.14) stands for its constant
        for e in after:
            if e[0] == 'cmp':
                for x in (e[2], e[3]):
                    if not (x is B or x is E) and id(x) not in conv:
                        it.ctx = ctx
                        src, tys = case_value_origin(it, ctx, x)
                        if len(src) == 1 and tys:
                            conv[id(x)] = src[0]
        if out[0] == 'noreturn':
            # the diagnostic of the range itself: raised before anything else of the statement is parsed (not the `expected ":"` of skip())
            if any(e[0] in ('body', 'sub') for e in after) or (len(out) > 2 and out[2] and isinstance(out[2][0], str)):
                continue
            diagnosed = True
        elif out[0] == 'ret':
            diagnosed = False
        else:
            continue
        tyv = getattr(ctx, 'sw_ty', None)
        if not isinstance(tyv, View):
            rep.undecided('R03.2', 'parse.c:stmt:case:range-controlling-type', 'the type of the enclosing switch\'s controlling expression is not modelled', where=where)
            return
        cands = [c for c in tyv.cell.cands if isinstance(c, Obj)]
        u64 = [c.meta.get('cat') for c in cands if c.fields.get('is_unsigned') == 1 and c.fields.get('size') == 8]
        rest = [c.meta.get('cat') for c in cands if not (c.fields.get('is_unsigned') == 1 and c.fields.get('size') == 8)]

        def strip(v):
            while isinstance(v, Term) and v.op.startswith('cast:') and len(v.args) == 1:
                v = v.args[0]
            return v
        decided = []        # (E < B holds, operand type, line)
        odd = None
        for e in after:
            if e[0] != 'cmp':
                continue
            op, a, b, ty, r, line = e[1:7]
            t = _cmp_truth(ctx, r)
            if t is None:
                continue
            a0, b0 = strip(a), strip(b)
            narrowed = a0 is not a or b0 is not b
            a0, b0 = conv.get(id(a0), a0), conv.get(id(b0), b0)
            if a0 is E and b0 is B and op in ('<', '>='):
                lt = t if op == '<' else not t
            elif a0 is B and b0 is E and op in ('>', '<='):
                lt = t if op == '>' else not t
            elif (a0 is E or a0 is B) and (b0 is E or b0 is B) and a0 is not b0:
                odd = (op, line); continue
            else:
                continue
            decided.append((lt, (ty if not narrowed else (32, ty[1] if ty else True)), line))
        kind = 'diagnosed-as-empty' if diagnosed else 'accepted'
        if odd is not None and not decided:
            # `end <= begin` / `begin < end`: not the emptiness test of a range (a one-value range B ... B is not empty)
            rep.ob('R03.2', 'parse.c:stmt:case:range-emptiness-test-is-end-below-begin', False,
                   'a case range is %s on the outcome of `%s` between its bounds (parse.c:%d), which is not `end < begin`: the one-value range `case 3 ... 3:` is treated wrongly' % (kind, odd[0], odd[1]), where=where)
            continue
        if not decided:
            if diagnosed:
                rep.undecided('R03.2', 'parse.c:stmt:case:range-diagnostic', 'a case range is rejected on a path that does not compare its two bounds', where=where)
            else:
                rep.ob('R03.2', 'parse.c:stmt:case:range-accepted-iff-end-not-below-begin', False,
                       'a case range is accepted on a path that never compares its bounds: `case 5 ... 1:` is not diagnosed (the code generator\'s `value - begin <= end - begin` test would then match almost every value)', where=where)
            continue
        n_diag += diagnosed
        n_ok += not diagnosed
        lts = set(d[0] for d in decided)
        rep.ob('R03.2', 'parse.c:stmt:case:range-%s-iff-end-%sbelow-begin' % (kind, '' if diagnosed else 'not-'), lts == {diagnosed},
               'a case range is %s on a path where `end < begin` is %s' % (kind, 'false' if diagnosed else 'true'), where='parse.c:%d' % decided[0][2], facts={'path': ctx.trail[-6:]})
        tys = set(d[1] for d in decided)
        if u64:
            rep.ob('R03.2', 'parse.c:stmt:case:range-bounds-compared-unsigned-for-unsigned-64-bit-controlling-type', tys == {(64, False)},
                   'with a controlling expression of type %s the bounds of a case range are compared as %s: they are values of the controlling type, so for an unsigned 64-bit type '
                   '`case 0x7ffffffffffffff0 ... 0x800000000000000f:` is a non-empty range (end < begin only as signed numbers) and must not be rejected, and a range that is empty as unsigned must be'
                   % ('/'.join(u64), ', '.join('%s %d-bit' % ('signed' if t and t[1] else 'unsigned', t[0] if t else 0) for t in sorted(tys, key=repr))), where='parse.c:%d' % decided[0][2], facts={'path': ctx.trail[-6:]})
        if rest:
            rep.ob('R03.2', 'parse.c:stmt:case:range-bounds-compared-signed-for-signed-or-narrower-controlling-type', tys == {(64, True)},
                   'with a controlling expression of type %s the bounds of a case range are compared as %s: for a signed (or narrower) controlling type the folded 64-bit values must be compared '
                   'as signed 64-bit numbers, otherwise `case -5 ... 5:` is rejected as empty (or an empty range accepted)'
                   % ('/'.join(rest), ', '.join('%s %d-bit' % ('signed' if t and t[1] else 'unsigned', t[0] if t else 0) for t in sorted(tys, key=repr))), where='parse.c:%d' % decided[0][2], facts={'path': ctx.trail[-6:]})
    if n_diag == 0 or n_ok == 0:
        rep.undecided('R03.2', 'parse.c:stmt:case:ranges', 'no path of the case arm %s a range after comparing its bounds' % ('rejects' if n_diag == 0 else 'accepts'), where=where)
    return reads_type


def r031(P, rep, cat=None):
    rep.rule('R03.9', 'selection and iteration statements (if, switch, while, do, for) are blocks: every part of such a statement (header expressions/declaration and sub-statements) is parsed inside a '
                      'scope the statement itself entered, a sub-statement\'s scope is closed before any later part is parsed, and no other statement form opens a scope around its parts', floor=12)
    rep.rule('R03.1', 'parsing any statement leaves break/continue/switch context as it found it; loop bodies are parsed with the loop\'s own fresh labels, switch bodies with the switch\'s break label and the enclosing continue label; block scopes are entered and left in pairs', floor=12)
    rep.rule('R03.2', 'case/default are registered on the innermost switch after a null check, the folded case value reaches the node unnarrowed, and a GNU case range is diagnosed as empty '
                      'exactly when end < begin as 64-bit values compared in the signedness of the controlling expression\'s type (unsigned for an unsigned 64-bit type, signed otherwise), '
                      'that type having been computed before the body is parsed', floor=9)
    rep.rule('R03.7', 'only the body of a loop/switch is parsed with that construct\'s own break/continue/switch context: every other part of a statement (controlling expression, '
                      'for-init/increment, case value, returned expression) is handed to its parser with the context of the enclosing construct, because a break/continue/case '
                      'written there (GNU statement expression) is not in the body (C11 6.8.6.2/6.8.6.3, 6.8.4.2); and a for statement\'s scope is open while its header is parsed', floor=30)
    rep.rule('R03.14', 'a case constant reaches the comparison as folded or converted to the promoted type of the controlling expression (C11 6.8.4.2p5): the parser never converts it to a type '
                       'smaller than int (the unpromoted char/short/_Bool type of the controlling expression), which would wrap an out-of-range constant onto a value the expression can take', floor=2)
    from ..lib_parse import spelled, OTHER
    pu, tm, it, res = explore_stmt(P, cat)
    where = 'parse.c:%d' % pu.fn('stmt').line
    case_reads_type = r032_ranges(rep, it, res, where)
    kinds_seen = set()
    NK = {v: k for k, v in pu.enums.items() if k.startswith('ND_')}
    for ctx, out in res:
        if out[0] != 'ret':
            continue
        node = out[1]
        node = it.settle(node) if isinstance(node, View) else node
        kind = NK.get(node.fields.get('kind')) if isinstance(node, Obj) else None
        tok = None
        # keyword that selected this arm = remaining spelling of the first token
        kws = None
        for e in ctx.events:
            pass
        it.ctx = ctx
        g_end = {k: it.read_global(k) for k in CTX_GLOBALS}
        bodies = [e for e in ctx.events if e[0] == 'body']
        scopes = [e[1] for e in ctx.events if e[0] == 'call' and e[1] in ('enter_scope', 'leave_scope')]
        kw = ctx.kw if hasattr(ctx, 'kw') else None
        arm = '%s' % (kind or '?')
        kinds_seen.add(arm)
        # (a) context restored
        def same(a, b):
            a = it.settle(a) if isinstance(a, View) else a
            b = it.settle(b) if isinstance(b, View) else b
            if isinstance(a, Sym) and isinstance(b, Sym):
                return a.name == b.name
            return a is b or (isinstance(a, int) and isinstance(b, int) and a == b)
        init = {'brk_label': 'brk0', 'cont_label': 'cont0'}
        for g in ('brk_label', 'cont_label'):
            v = g_end[g]
            ok = v is None or (isinstance(v, Sym) and v.name == init[g])
            rep.ob('R03.1', 'parse.c:stmt:%s:%s-restored' % (arm, g), ok,
                   'after parsing a %s statement `%s` is %r instead of the value it had before: a later break/continue in the enclosing construct would jump to the wrong place' % (arm, g, v), where=where, facts={'path': ctx.trail[-6:]})
        cs = g_end['current_switch']
        cs = it.settle(cs) if isinstance(cs, View) else cs
        ok = cs is None or (isinstance(cs, Obj) and cs.label == 'sw0') or (isinstance(cs, int) and cs == 0) or (isinstance(cs, View))
        rep.ob('R03.1', 'parse.c:stmt:%s:current_switch-restored' % arm, ok,
               'after parsing a %s statement `current_switch` is %r instead of the enclosing switch: later case labels would attach to the wrong switch' % (arm, cs), where=where, facts={'path': ctx.trail[-6:]})
        # (b) body context
        for b in bodies:
            g = b[1]
            if kind in ('ND_FOR', 'ND_DO'):
                okb = g['brk_label'] is node.fields.get('brk_label') and isinstance(g['brk_label'], Sym) and g['brk_label'].name not in ('brk0',) \
                    and g['cont_label'] is node.fields.get('cont_label') and isinstance(g['cont_label'], Sym) and g['cont_label'].name != 'cont0' \
                    and g['brk_label'] is not g['cont_label']
                rep.ob('R03.1', 'parse.c:stmt:%s:body-sees-own-labels' % arm, okb,
                       'the body of a loop is parsed with break label %r / continue label %r, the node carries %r / %r' % (g['brk_label'], g['cont_label'], node.fields.get('brk_label'), node.fields.get('cont_label')), where=where)
            elif kind == 'ND_SWITCH':
                if case_reads_type:
                    # the case arm looks at the type of the controlling expression: it has one only after add_type ran over it (the parser types nothing by itself)
                    cond = node.fields.get('cond')
                    before = ctx.events[:ctx.events.index(b)]
                    same_v = lambda x, y: x is y or (_vlabel(it, x) is not None and _vlabel(it, x) == _vlabel(it, y))
                    typed = [e for e in before if e[0] == 'call' and e[1] == 'add_type' and e[2] and (same_v(e[2][0], cond) or e[2][0] is node)]
                    elsewhere = [e for e in before if e[0] == 'call' and e[1] not in ('add_type',) and any(same_v(a, cond) for a in (e[2] or []))]
                    if not typed and elsewhere:
                        rep.undecided('R03.2', 'parse.c:stmt:switch:controlling-expression-typed-before-body', 'the controlling expression is handed to %s() instead of add_type()' % elsewhere[0][1], where=where)
                    else:
                        rep.ob('R03.2', 'parse.c:stmt:switch:controlling-expression-typed-before-body', bool(typed),
                               'the case arm reads the type of the enclosing switch\'s controlling expression (current_switch->cond->ty), but the switch arm parses its body without having typed that '
                               'expression (no add_type on it): every case label in the body reads a null type', where='parse.c:%d' % b[2])
                cs2 = g['current_switch']
                cs2 = it.settle(cs2) if isinstance(cs2, View) else cs2
                okb = g['brk_label'] is node.fields.get('brk_label') and isinstance(g['brk_label'], Sym) and g['brk_label'].name != 'brk0' \
                    and isinstance(g['cont_label'], Sym) and g['cont_label'].name == 'cont0' and cs2 is node
                rep.ob('R03.1', 'parse.c:stmt:ND_SWITCH:body-context', okb,
                       'the body of a switch is parsed with break label %r (node: %r), continue label %r (must stay the enclosing loop\'s), current_switch %r' % (g['brk_label'], node.fields.get('brk_label'), g['cont_label'], cs2), where=where)
            elif kind in ('ND_IF', 'ND_LABEL', 'ND_CASE'):
                okb = isinstance(g['brk_label'], Sym) and g['brk_label'].name == 'brk0' and isinstance(g['cont_label'], Sym) and g['cont_label'].name == 'cont0'
                rep.ob('R03.1', 'parse.c:stmt:%s:body-context-unchanged' % arm, okb, 'a sub-statement of %s is parsed with changed break/continue labels' % arm, where=where)
        # (b') everything that is not a sub-statement is parsed in the enclosing context
        sp = spelled(it, getattr(ctx, 'tok0', None)) or []
        kwd = ('block' if sp[0] == '{' else sp[0]) if len(sp) == 1 and sp[0] != OTHER else ('other' if kind is None else 'other-' + arm)
        subs = [e for e in ctx.events if e[0] == 'sub']
        for gname in CTX_GLOBALS:
            bad = []
            for e in subs:
                v = e[2][gname]
                v = it.settle(v) if isinstance(v, View) else v
                if gname == 'current_switch':
                    okh = v is None or isinstance(v, View) or (isinstance(v, Obj) and v.label == 'sw0') or (isinstance(v, int) and v == 0)
                else:
                    okh = isinstance(v, Sym) and v.name == init[gname]
                if not okh:
                    bad.append((e[1], e[3], v))
            if subs:
                rep.ob('R03.7', 'parse.c:stmt:%s:non-body-parts-parsed-with-enclosing-%s' % (kwd, gname), not bad,
                       'in a `%s` statement the part(s) parsed by %s are parsed with %s = %r, the construct\'s own value instead of the enclosing one: those parts are not in the body, '
                       'so a break/continue/case label inside them (statement expression) belongs to the enclosing loop/switch but is bound to this statement'
                       % (kwd, ', '.join('%s() [parse.c:%d]' % (b[0], b[1]) for b in bad), gname, bad[0][2] if bad else None),
                       where='parse.c:%d' % (bad[0][1] if bad else subs[0][3]), facts={'path': ctx.trail[-6:]})
        evs = [('scope', e[1]) if e[0] == 'call' else (e[0], e[1] if e[0] == 'sub' else 'stmt') for e in ctx.events
               if e[0] in ('sub', 'body') or (e[0] == 'call' and e[1] in ('enter_scope', 'leave_scope'))]
        if ('scope', 'enter_scope') in evs and ('scope', 'leave_scope') in evs:
            first = evs.index(('scope', 'enter_scope'))
            last = len(evs) - 1 - evs[::-1].index(('scope', 'leave_scope'))
            for i, e in enumerate(evs):
                if e[0] == 'scope':
                    continue
                rep.ob('R03.7', 'parse.c:stmt:%s:scope-open-while-%s-parsed' % (kwd, e[1]), first < i < last,
                       'the `%s` statement opens a block scope, but the part parsed by %s() is parsed %s: declarations of the for-init would %s (C11 6.8.5p5, 6.2.1p4)'
                       % (kwd, e[1], 'before the scope is entered' if i < first else 'after the scope is left', 'land in the enclosing scope and stay visible after the loop' if i < first else 'no longer be visible there'),
                       where=where, facts={'order': [x[1] for x in evs]})
        # (b'') which statements are blocks (R03.9)
        _r039_path(rep, ctx, kwd, kind, where)
        # (c) scopes paired
        depth = 0
        oks = True
        for sname in scopes:
            depth += 1 if sname == 'enter_scope' else -1
            if depth < 0:
                oks = False
        oks = oks and depth == 0
        if scopes or kind == 'ND_FOR':
            rep.ob('R03.1', 'parse.c:stmt:%s:scope-paired' % arm, oks, 'enter_scope/leave_scope calls %r are not paired on a path' % scopes, where=where)
        if kind == 'ND_FOR' and bodies:
            # the for-init declaration scope covers the body: enter before body, leave after
            ev = [e for e in ctx.events if (e[0] == 'call' and e[1] in ('enter_scope', 'leave_scope')) or e[0] == 'body']
            names = [e[1] if e[0] == 'call' else 'body' for e in ev]
            if 'enter_scope' in names:
                rep.ob('R03.1', 'parse.c:stmt:ND_FOR:scope-covers-body', names.index('enter_scope') < names.index('body') < len(names) - 1 - names[::-1].index('leave_scope'),
                       'the for statement\'s scope does not enclose its body: %r' % names, where=where)
        # (d) break / continue use the current labels
        if kind == 'ND_GOTO':
            ul = node.fields.get('unique_label')
            if isinstance(ul, Sym) and ul.name in ('brk0', 'cont0'):
                pass
        # (e) case registration
        if kind == 'ND_CASE':
            sw = None
            stores = [e for e in ctx.events if e[0] == 'fstore' and isinstance(e[1], Obj) and e[1].label == 'sw0']
            is_default = any(e[2] == 'default_case' for e in stores)
            if is_default:
                okc = any(e[2] == 'default_case' and e[4] is node for e in stores)
                rep.ob('R03.2', 'parse.c:stmt:default:registered', okc, 'a default label is not recorded as the innermost switch\'s default_case', where=where)
            else:
                link = [e for e in stores if e[2] == 'case_next']
                okc = len(link) == 1 and link[0][4] is node and (node.fields.get('case_next') is link[0][3] or (link[0][3] is None and not node.fields.get('case_next')) or True)
                okl = len(link) == 1 and link[0][4] is node
                rep.ob('R03.2', 'parse.c:stmt:case:registered', okl, 'a case label is not linked into the innermost switch\'s case list', where=where)
                if okl:
                    old = link[0][3]
                    nxt = node.fields.get('case_next')
                    rep.ob('R03.2', 'parse.c:stmt:case:keeps-earlier-cases', (nxt is old) or (old is None), 'linking a case drops the cases registered before it (node.case_next=%r, previous head=%r)' % (nxt, old), where=where)
                # width: begin/end must be the folded values themselves
                ce = [e for e in ctx.events if e[0] == 'call' and e[1] == 'const_expr']
                vals = [e[4] for e in ce]
                b, en = node.fields.get('begin'), node.fields.get('end')
                alias = r03e_case_conversion(rep, it, ctx, node, where)

                def is_raw(v):
                    return any(v is x for x in vals) or id(v) in alias
                if vals:
                    rep.ob('R03.2', 'parse.c:stmt:case:value-unnarrowed', is_raw(b) and is_raw(en),
                           'the case value folded by const_expr (64-bit) is stored as %r / %r: it passes through a narrower object, so `case 0x100000001L:` is compared as 1' % (b, en), where=where)
    for k in ('ND_FOR', 'ND_DO', 'ND_SWITCH', 'ND_CASE', 'ND_IF', 'ND_RETURN', 'ND_GOTO'):
        if k not in kinds_seen:
            rep.undecided('R03.1', 'parse.c:stmt:%s' % k, 'no path of stmt builds a %s node' % k, where=where)


def r035(P, rep):
    rep.rule('R03.5', 'name lookup walks the scope chain from the innermost scope outward and returns the first hit, per name space (vars vs tags); insertions go into the innermost scope\'s own table; a struct/union definition only ever completes a tag of the innermost scope, and the declaration `struct T;` finds or enters T in the innermost scope only', floor=8)
    pu = P.unit('parse.c')
    for f in ('find_var', 'find_tag', 'push_scope', 'push_tag_scope', 'struct_union_decl', 'enter_scope', 'leave_scope'):
        if f not in pu.functions:
            raise AnalysisBroken('parse.c: %s vanished' % f)
    from ..interp import Cell
    if 'find_typedef' not in pu.functions:
        raise AnalysisBroken('parse.c: find_typedef vanished')
    for fn, field, proj in (('find_var', 'vars', None), ('find_tag', 'tags', None), ('find_typedef', 'vars', 'type_def')):
        def gscope(ctx):
            return Obj('Scope', lazy=True, label='scope')
        it = Interp(P, pu, {'opaque': ['hashmap_get2', 'hashmap_get'], 'loop_limit': 2, 'globals': {'scope': gscope}})
        where = 'parse.c:%d' % pu.fn(fn).line
        n = 0
        for ctx, out in it.explore(fn, lambda ctx: [Obj('Token', lazy=True, label='tok')]):
            if out[0] != 'ret':
                continue
            n += 1
            looks = [e for e in ctx.events if e[0] == 'call' and e[1] in ('hashmap_get2', 'hashmap_get')]
            # the maps consulted, in order: scope.<field>, scope.next.<field>, ...
            labs = [getattr(e[2][0], 'label', None) for e in looks]
            want = ['scope.' + field, 'scope.next.' + field, 'scope.next.next.' + field][:len(labs)]
            rep.ob('R03.5', 'parse.c:%s:innermost-first' % fn, labs == want, '%s consults %r; C11 6.2.1 requires the innermost scope first, then outward, in the %s name space' % (fn, labs, field), where=where)
            for e in looks:
                if e[1] != 'hashmap_get2':
                    continue
                kl = _loc_len(e[2][1:3])
                if kl is None:
                    rep.undecided('R03.5', 'parse.c:%s:looks-up-whole-identifier' % fn, 'the key handed to hashmap_get2 (%r, %r) is not recognisably the spelling of the identifier token' % tuple(e[2][1:3]), where=where)
                    continue
                rep.ob('R03.5', 'parse.c:%s:looks-up-whole-identifier' % fn, kl == ('tok', 0),
                       '%s looks the identifier up by the key (%r, %r) instead of its whole spelling (tok->loc, tok->len): identifiers that agree on that part are taken for the same name, '
                       'so a use binds to the declaration of another identifier (C11 6.2.1: an identifier denotes the entity its own declaration introduced)' % (fn, e[2][1], e[2][2]), where=where)
            hit = None
            for e in looks:
                r = it.settle(e[4]) if isinstance(e[4], View) else e[4]
                if isinstance(r, Obj) or (isinstance(r, Sym) and 0 in ctx.neq.get(r.key(), ())):
                    hit = r; break
            ret = it.settle(out[1]) if isinstance(out[1], View) else out[1]
            if proj is not None and not looks:
                continue        # not an identifier: nothing is looked up
            if hit is not None and proj is not None:
                # a typedef name is what the innermost declaration of the identifier says it is: an inner ordinary identifier hides an outer typedef
                last = it.settle(looks[-1][4]) if isinstance(looks[-1][4], View) else looks[-1][4]
                want_ret = hit.fields.get(proj) if isinstance(hit, Obj) else None
                want_ret = it.settle(want_ret) if isinstance(want_ret, View) else want_ret
                same = (want_ret is not None and ret is want_ret) or \
                       (isinstance(want_ret, View) and isinstance(out[1], View) and out[1].cell is want_ret.cell)
                if isinstance(hit, Sym):
                    from ..interp import Term, vkey
                    same = isinstance(ret, Term) and vkey(ret) == vkey(Term('load', Term('.', hit, proj)))
                rep.ob('R03.5', 'parse.c:%s:innermost-declaration-decides' % fn, last is hit and same,
                       '%s does not answer with the %s of the innermost declaration of the identifier%s: an ordinary identifier declared in an inner scope no longer hides an outer typedef name (C11 6.2.1p4)'
                       % (fn, proj, '' if last is hit else ' (it keeps searching outer scopes after the first hit)'), where=where)
            elif hit is not None:
                last = it.settle(looks[-1][4]) if isinstance(looks[-1][4], View) else looks[-1][4]
                rep.ob('R03.5', 'parse.c:%s:first-hit-wins' % fn, ret is hit and last is hit, '%s does not return the first (innermost) hit' % fn, where=where)
            else:
                rep.ob('R03.5', 'parse.c:%s:miss-is-null' % fn, isinstance(ret, int) and ret == 0, '%s returns %r after every scope missed' % (fn, ret), where=where)
        if n == 0:
            rep.undecided('R03.5', 'parse.c:%s' % fn, 'no returning path')
    for fn, field in (('push_scope', 'vars'), ('push_tag_scope', 'tags')):
        it = Interp(P, pu, {'opaque': ['hashmap_put', 'hashmap_put2', 'strndup'], 'globals': {'scope': lambda ctx: Obj('Scope', lazy=True, label='scope')}})
        where = 'parse.c:%d' % pu.fn(fn).line
        args = (lambda ctx: [Sym('name', 'char *')]) if fn == 'push_scope' else (lambda ctx: [Obj('Token', lazy=True, label='tok'), Obj('Type', lazy=True, label='ty')])
        for ctx, out in it.explore(fn, args):
            puts = [e for e in ctx.events if e[0] == 'call' and e[1] in ('hashmap_put', 'hashmap_put2')]
            ok = len(puts) == 1 and getattr(puts[0][2][0], 'label', None) == 'scope.' + field
            rep.ob('R03.5', 'parse.c:%s:inserts-innermost' % fn, ok, '%s inserts into %r instead of the innermost scope\'s %s table' % (fn, [getattr(e[2][0], 'label', None) for e in puts], field), where=where)
            for e in puts:
                if e[1] == 'hashmap_put2' and fn == 'push_tag_scope':
                    kl = _loc_len(e[2][1:3])
                    if kl is None:
                        rep.undecided('R03.5', 'parse.c:%s:enters-whole-identifier' % fn, 'the key handed to hashmap_put2 (%r, %r) is not recognisably the spelling of the tag token' % tuple(e[2][1:3]), where=where)
                        continue
                    rep.ob('R03.5', 'parse.c:%s:enters-whole-identifier' % fn, kl == ('tok', 0),
                           '%s enters the tag under the key (%r, %r) instead of its whole spelling (tok->loc, tok->len): tags that agree on that part overwrite one another' % (fn, e[2][1], e[2][2]), where=where)
    # enter/leave
    it = Interp(P, pu, {'track_stores': True, 'globals': {'scope': lambda ctx: Obj('Scope', lazy=True, label='scope')}})
    for ctx, out in it.explore('enter_scope', lambda ctx: []):
        sc = ctx.globals.get('scope')
        ok = isinstance(sc, Obj) and not sc.lazy and isinstance(sc.fields.get('next'), Obj) and sc.fields['next'].label == 'scope' and not sc.fields.get('vars') and not sc.fields.get('tags')
        rep.ob('R03.5', 'parse.c:enter_scope:pushes-empty-scope', ok, 'enter_scope does not push a fresh empty scope in front of the current one', where='parse.c:%d' % pu.fn('enter_scope').line)
    for ctx, out in it.explore('leave_scope', lambda ctx: []):
        sc = ctx.globals.get('scope')
        sc = it.settle(sc) if isinstance(sc, View) else sc
        if isinstance(sc, View):
            objs = [c for c in sc.cell.cands if isinstance(c, Obj)]
            sc = objs[0] if len(objs) == 1 else sc
        ok = isinstance(sc, Obj) and sc.label == 'scope.next'
        rep.ob('R03.5', 'parse.c:leave_scope:pops-one', ok, 'leave_scope sets scope to %r (expected the enclosing scope)' % (getattr(sc, 'label', sc),), where='parse.c:%d' % pu.fn('leave_scope').line)
    # struct/union definition consults only the innermost tag table
    from ..lib_parse import TokenModel
    tm = TokenModel(P, pu, ['struct_union_decl'], extra_opaque=['attribute_list', 'struct_members', 'find_tag', 'push_tag_scope', 'hashmap_get2', 'struct_type', 'copy_type'],
                    globals_={'scope': lambda ctx: Obj('Scope', lazy=True, label='scope')})
    if ';' not in tm.keys:
        tm.keys.insert(0, ';')        # `struct T ;` is a form of its own (C11 6.7.2.3p7) whether or not the parser looks for it
    it = tm.interp()
    from ..interp import _Ref, VarPlace
    from ..lib_parse import spelled
    where = 'parse.c:%d' % pu.fn('struct_union_decl').line
    seen = n_tagged = n_ref = 0

    def mk_args(ctx):
        ctx.c03_rest = {'rest': None}
        return [_Ref(VarPlace(ctx.c03_rest, 'rest')), tm.token('tok')]

    def one_obj(v):
        v = it.settle(v) if isinstance(v, View) else v
        if isinstance(v, View):
            objs = [c for c in v.cell.cands if isinstance(c, Obj)]
            v = objs[0] if len(objs) == 1 else v
        return v
    for ctx, out in it.explore('struct_union_decl', mk_args):
        if out[0] != 'ret':
            continue
        names = [e[1] for e in ctx.events if e[0] == 'call']
        if 'struct_members' not in names:
            # `struct T` without a member list. When the next token is `;` the declaration is `struct T;`: it declares T as a tag of the innermost
            # scope, hiding a struct T of an enclosing scope (C11 6.7.2.3p7), so the type it answers with is one found in / entered into the
            # innermost tag table, never one found by the walk over all scopes.
            calls = [e for e in ctx.events if e[0] == 'call']
            walks = [e for e in calls if e[1] == 'find_tag']
            inner_looks = [e for e in calls if e[1] == 'hashmap_get2' and getattr(e[2][0], 'label', None) == 'scope.tags']
            if not (walks or inner_looks or 'push_tag_scope' in names):
                continue            # no tag
            n_ref += 1
            k = 'parse.c:struct_union_decl:tag-declaration-declares-in-innermost-scope'
            after = one_obj(ctx.c03_rest.get('rest'))
            sp = spelled(it, after) if isinstance(after, Obj) else None
            if not isinstance(after, Obj):
                rep.undecided('R03.5', k, 'the token the parser continues with after `struct T` is not readable (%r)' % (after,), where=where)
                continue
            if sp is not None and ';' not in sp:
                rep.ob('R03.5', k, True, '', where=where)      # established: not the form `struct T ;`
                continue
            ret = one_obj(out[1])
            from_walk = False
            for e in walks:
                r = one_obj(e[4])
                if r is ret and (isinstance(r, Obj) or (isinstance(r, Sym) and 0 in ctx.neq.get(r.key(), ()))):
                    from_walk = True
            rep.ob('R03.5', k, not from_walk,
                   'on a path where the token after `struct T` can be `;` the parser answers with the type find_tag found in ANY enclosing scope: the declaration `struct T;` in a block declares a new incomplete '
                   'type T of that block, distinct from a struct T of an enclosing scope (C11 6.7.2.3p7; `struct T { int a; }; void f(void) { struct T; struct T *p; struct T { char c[100]; }; ... sizeof(*p) }` '
                   'is 100, here p points to the outer type and it is 4)', where=where, facts={'calls': names})
            continue
        seen += 1
        i = names.index('struct_members')
        after = [e for e in ctx.events if e[0] == 'call'][i + 1:]
        outer = [e for e in after if e[1] == 'find_tag']
        inner = [e for e in after if e[1] == 'hashmap_get2' and getattr(e[2][0], 'label', None) == 'scope.tags']
        # the tag's scope begins right after the tag (C11 6.2.1p7): while the member list is parsed the tag is in the innermost tag table (found there, or entered)
        calls = [e for e in ctx.events if e[0] == 'call']
        before = calls[:i]
        tagtok = None
        for e in calls:
            if e[1] in ('push_tag_scope', 'find_tag') and e[2]:
                tagtok = tagtok or _vlabel(it, e[2][0])
            elif e[1] == 'hashmap_get2' and len(e[2]) > 2 and _loc_len(e[2][1:3]):
                tagtok = tagtok or _loc_len(e[2][1:3])[0]
        if tagtok is not None:
            n_tagged += 1
            def hit(e):
                r = it.settle(e[4]) if isinstance(e[4], View) else e[4]
                return isinstance(r, Obj) or (isinstance(r, Sym) and 0 in ctx.neq.get(r.key(), ()))
            entered = [e for e in before if e[1] == 'push_tag_scope' and e[2] and _vlabel(it, e[2][0]) == tagtok]
            found = [e for e in before if e[1] == 'hashmap_get2' and getattr(e[2][0], 'label', None) == 'scope.tags' and (_loc_len(e[2][1:3]) or (None,))[0] == tagtok and hit(e)]
            rep.ob('R03.5', 'parse.c:struct_union_decl:tag-in-innermost-scope-while-members-are-parsed', bool(entered or found),
                   'a struct/union definition with a tag parses its member list before the tag is in the innermost scope\'s tag table (neither found there nor entered by push_tag_scope): the scope of a tag begins '
                   'just after its appearance in the specifier that declares it (C11 6.2.1p7), so a member `struct T *next` of a block-scope `struct T { ... }` must point to the type being defined; '
                   'here it binds to a struct T of an enclosing scope (or to a fresh incomplete type that is never completed) and `x.next->b` is rejected or reads another type\'s layout',
                   where=where, facts={'calls': names})
        rep.ob('R03.5', 'parse.c:struct_union_decl:definition-completes-innermost-tag-only', not outer,
               'a struct/union definition looks for an earlier declaration of its tag through find_tag (all enclosing scopes): a block-scope definition would overwrite a tag of an outer scope instead of declaring a new type (C11 6.7.2.3p4)', where=where, facts={'calls': names})
    if seen == 0:
        rep.undecided('R03.5', 'parse.c:struct_union_decl', 'no path reaches struct_members')
    elif n_tagged == 0:
        rep.undecided('R03.5', 'parse.c:struct_union_decl:tagged-definition', 'no path that parses a member list registers or looks up a tag', where=where)
    if n_ref == 0:
        rep.undecided('R03.5', 'parse.c:struct_union_decl:tag-declaration-declares-in-innermost-scope', 'no path of struct_union_decl handles a tag without a member list', where=where)


# ------------------------------------------------- point of declaration (C11 6.2.1p7) ---
DECL_PARSERS = ('declarator', 'gvar_initializer', 'lvar_initializer', 'initializer', 'compound_stmt', 'const_expr', 'expr', 'assign', 'conditional',
                'declspec', 'typename', 'stmt', 'declaration', 'struct_members', 'enum_specifier')
DECL_OPAQUE = ('hashmap_put', 'hashmap_put2', 'hashmap_get', 'hashmap_get2', 'strndup', 'compute_vla_size', 'new_unary', 'new_binary', 'new_vla_ptr', 'new_alloca', 'new_var_node', 'new_node',
               'new_unique_name', 'find_func', 'find_tag', 'push_tag_scope', 'enum_type', 'resolve_goto_labels', 'pointer_to', 'array_of', 'strlen',
               'enter_scope', 'leave_scope', 'is_typename', 'is_function', 'add_type', 'parse_typedef', 'function', 'global_variable', 'format', 'new_num')


def _vlabel(it, v):
    if isinstance(v, View):
        w = it.settle(v)
        if isinstance(w, Obj):
            return w.label
        return v.cell.label
    if isinstance(v, Obj):
        return v.label
    if isinstance(v, Sym):
        return v.name
    return None


def decl_events(P, pu, fname, mk_rest, loop_limit=2, max_paths=6000):
    """explore one declaring function of parse.c; per path the ordered list of
       ('declarator', label-of-result) | ('insert', 'name', token-label | None, key) -- a name enters a `vars` table; token-label = the identifier token it was spelled from
       ('parse', callee, start-token label) | ('scope', 'enter_scope'|'leave_scope') | ('call', name, result)"""
    from ..lib_parse import TokenModel
    from ..interp import _Ref, VarPlace
    if fname not in pu.functions:
        raise AnalysisBroken('parse.c: %s vanished' % fname)
    opq = [f for f in DECL_PARSERS + DECL_OPAQUE if f != fname]
    # a lookup of an EARLIER declaration (composite type of a redeclaration) is not part of the order of events judged here; functions
    # that consult find_var while declaring (today: none but a redeclared incomplete array in global_variable) get its answer as an opaque value
    if fname in ('global_variable',) and 'find_var' in pu.functions:
        opq.append('find_var')
        if 'is_variably_modified' in pu.functions:
            opq.append('is_variably_modified')      # a predicate on the declared type: its answer, not its walk over the type, matters here
    tm = TokenModel(P, pu, [fname, 'consume_end'], extra_opaque=opq, globals_={'scope': lambda ctx: Obj('Scope', lazy=True, label='scope')}, loop_limit=loop_limit)
    it = tm.interp()
    parsers = set(f for f in opq if f in pu.functions and pu.params(f) and (pu.params(f)[0].type or '').replace(' ', '') == 'Token**')

    def mk(ctx):
        return mk_rest(tm, ctx, _Ref(VarPlace({'rest': None}, 'rest')))
    out = []
    for ctx, o in it.explore(fname, mk, max_paths=max_paths):
        it.ctx = ctx
        evs = []
        spelled_from = {}       # id/name of a strndup result -> token label
        for e in ctx.events:
            if e[0] != 'call':
                continue
            name, args, res = e[1], e[2], e[4]
            if name == 'strndup':
                a = args[0] if args else None
                lab = a.name if isinstance(a, Sym) else None
                if lab and lab.endswith('.loc') and isinstance(res, Sym):
                    spelled_from[res.name] = lab[:-len('.loc')]
            elif name in ('hashmap_put', 'hashmap_put2'):
                m = getattr(args[0], 'label', None) if args else None
                if m and m.endswith('.vars'):
                    k = args[1]
                    evs.append(('insert', 'name', spelled_from.get(k.name) if isinstance(k, Sym) else None, k, e[3]))
            elif name in ('hashmap_get', 'hashmap_get2'):
                # a lookup in the innermost scope's own table that hits: the identifier is already bound in the innermost scope
                m = getattr(args[0], 'label', None) if args else None
                r = it.settle(res) if isinstance(res, View) else res
                hit = isinstance(r, Obj) or (isinstance(r, Sym) and 0 in ctx.neq.get(r.key(), ()))
                if m == 'scope.vars' and hit and len(args) > 1 and isinstance(args[1], Sym):
                    k = args[1].name
                    evs.append(('bound', 'name', k[:-len('.loc')] if k.endswith('.loc') else spelled_from.get(k), args[1], e[3]))
            elif name == 'declarator':
                evs.append(('declarator', _vlabel(it, res), e[3]))
            elif name in ('enter_scope', 'leave_scope'):
                evs.append(('scope', name, e[3]))
            elif name in parsers:
                evs.append(('parse', name, _vlabel(it, args[1]) if len(args) > 1 else None, e[3]))
            elif name in ('find_func', 'parse_typedef', 'function', 'global_variable'):
                evs.append(('call', name, res, e[3]))
        out.append((ctx, o, evs))
    return it, out


def _at_file_scope(it, ctx):
    """the path established that the current scope is the file scope (scope->next is null)"""
    sc = ctx.globals.get('scope')
    sc = it.settle(sc) if isinstance(sc, View) else sc
    if not isinstance(sc, Obj) or 'next' not in sc.fields:
        return False
    nx = sc.fields['next']
    nx = it.settle(nx) if isinstance(nx, View) else nx
    return isinstance(nx, int) and not isinstance(nx, bool) and nx == 0


def r038(P, rep):
    rep.rule('R03.8', 'an identifier enters its scope at the point C11 6.2.1p7 prescribes: an enumerator only after its own enumerator definition (its `= constant-expression` is parsed '
                      'while an outer declaration of the same name is still the visible one); any other identifier right after its declarator, so that its initializer, the following '
                      'declarators and a function\'s own body are parsed with it in scope; parameters and the body live inside the function\'s scope, a block\'s items inside the block\'s scope', floor=14)
    pu = P.unit('parse.c')
    # --- (a) enumerators ----------------------------------------------------------------
    it, paths = decl_events(P, pu, 'enum_specifier', lambda tm, ctx, rest: [rest, tm.token('tok')])
    where = 'parse.c:%d' % pu.fn('enum_specifier').line
    n_own = n_ins = 0
    for ctx, o, evs in paths:
        if o[0] != 'ret':
            continue
        inserted = [e for e in evs if e[0] == 'insert']
        for e in inserted:
            n_ins += 1
            if e[2] is None:
                rep.undecided('R03.8', 'parse.c:enum_specifier:enumerator-name', 'a name entered into the scope is not spelled from an identifier token (strndup of tok->loc): the enumerator it declares cannot be identified', where=where)
        idents = [e[2] for e in inserted if e[2]]
        for i, e in enumerate(evs):
            if e[0] != 'parse' or e[1] == 'declarator' or not e[2]:
                continue
            # the enumerator this constant expression belongs to: the identifier token closest before its first token
            owners = [t for t in idents if e[2] == t or e[2].startswith(t + '.next')]
            if not owners:
                continue
            own = max(owners, key=len)
            pos = [j for j, x in enumerate(evs) if x[0] == 'insert' and x[2] == own]
            n_own += 1
            rep.ob('R03.8', 'parse.c:enum_specifier:enumerator-in-scope-only-after-its-%s' % e[1], bool(pos) and min(pos) > i,
                   'an enumerator is entered into the scope before the %s() call that parses its own `= constant-expression`: the enumerator\'s scope begins just after its enumerator definition '
                   '(C11 6.2.1p7), so in `enum { A = A * 10 }` the A of the expression must still be the outer A; here it finds the half-built inner entry' % e[1],
                   where='parse.c:%d' % e[3], facts={'order': [(x[0], x[1], x[2]) for x in evs]})
    if n_ins == 0 or n_own == 0:
        rep.undecided('R03.8', 'parse.c:enum_specifier:enumerators', 'no returning path enters an enumerator with a constant expression into the scope', where=where)

    # --- (b) declarator-introduced identifiers ----------------------------------------------
    from ..interp import Cell

    def attr_cell():
        return View(Cell([0, Obj('VarAttr', lazy=True, label='attr')], 'attr'))
    specs = (('declaration', lambda tm, ctx, rest: [rest, tm.token('tok'), Obj('Type', lazy=True, label='basety'), attr_cell()]),
             ('global_variable', lambda tm, ctx, rest: [tm.token('tok'), Obj('Type', lazy=True, label='basety'), Obj('VarAttr', lazy=True, label='attr')]),
             ('parse_typedef', lambda tm, ctx, rest: [tm.token('tok'), Obj('Type', lazy=True, label='basety')]))
    for fname, mk in specs:
        it, paths = decl_events(P, pu, fname, mk, max_paths=40000)
        where = 'parse.c:%d' % pu.fn(fname).line
        n_d = 0
        for ctx, o, evs in paths:
            cur = None      # (label of the current declarator's result, index)
            for i, e in enumerate(evs + ([('end',)] if o[0] == 'ret' else [])):
                if e[0] in ('declarator', 'end'):
                    if cur is not None:
                        n_d += 1
                        ins = [x for x in evs[cur[1]:i] if x[0] in ('insert', 'bound') and x[2] == cur[0] + '.name']
                        rep.ob('R03.8', 'parse.c:%s:identifier-declared-before-%s' % (fname, 'next-declarator' if e[0] == 'declarator' else 'end-of-declaration'), len(ins) >= 1,
                               '%s() finishes a declarator without entering the declared identifier into the scope before %s (C11 6.2.1p7: the scope begins just after the completion of the declarator)'
                               % (fname, 'the next declarator of the list is parsed' if e[0] == 'declarator' else 'it returns'), where='parse.c:%d' % evs[cur[1]][2], facts={'order': [(x[0], x[1], x[2]) for x in evs]})
                    cur = (e[1], i) if e[0] == 'declarator' else None
                    if cur and not cur[0]:
                        rep.undecided('R03.8', 'parse.c:%s:declarator-result' % fname, 'the result of declarator() is not an identifiable object', where=where); cur = None
                elif e[0] == 'parse' and cur is not None:
                    ins = [x for x in evs[cur[1]:i] if x[0] == 'insert' and x[2] == cur[0] + '.name']
                    rep.ob('R03.8', 'parse.c:%s:%s-parsed-with-declared-identifier-in-scope' % (fname, e[1]), len(ins) >= 1,
                           'in %s() the tokens after a declarator are parsed by %s() before the declared identifier is entered into the scope: its scope begins just after the completion of its '
                           'declarator (C11 6.2.1p7), so the initializer of `static void *p = &p;` / `int x = sizeof x;` must see the new declaration, not an outer one (or none)' % (fname, e[1]),
                           where='parse.c:%d' % e[3], facts={'order': [(x[0], x[1], x[2]) for x in evs]})
        if n_d == 0:
            rep.undecided('R03.8', 'parse.c:%s:declarators' % fname, 'no path completes a declarator', where=where)

    # --- (c) function definitions -------------------------------------------------------------
    it, paths = decl_events(P, pu, 'function', lambda tm, ctx, rest: [tm.token('tok'), Obj('Type', lazy=True, label='basety'), Obj('VarAttr', lazy=True, label='attr')], loop_limit=1, max_paths=60000)
    where = 'parse.c:%d' % pu.fn('function').line
    n_body = n_decl = 0
    for ctx, o, evs in paths:
        bodies = [i for i, e in enumerate(evs) if e[0] == 'parse' and e[1] != 'declarator']
        if not bodies:
            d = [e for e in evs if e[0] == 'declarator']
            if o[0] == 'ret' and d and d[-1][1]:
                # a function declaration without a body: it may stand in a block (C11 6.7.1p7, 6.2.1p4), and then it is the innermost declaration of the identifier
                it.ctx = ctx
                own = [e for e in evs if e[0] in ('insert', 'bound') and e[2] == d[-1][1] + '.name']
                n_decl += 1
                rep.ob('R03.8', 'parse.c:function:declaration-binds-name-in-innermost-scope', bool(own) or _at_file_scope(it, ctx),
                       'function() completes a function declaration (no body) on a path that neither enters the identifier into the innermost scope nor has established that the innermost scope is the file scope '
                       '(%s): a block-scope declaration `int f(void);` must make f denote the function until the end of the block (C11 6.2.1p4, p7), but when an enclosing block or the parameter list declares '
                       'another f, every use of f in the block still binds to that outer object' % ('an earlier declaration was found by find_func(), which looks at the file scope only' if any(e[0] == 'call' and e[1] == 'find_func' for e in evs) else 'nothing is inserted'),
                       where=where, facts={'order': [(x[0], x[1], x[2]) for x in evs]})
            continue
        b = bodies[0]
        n_body += 1
        d = [e for e in evs[:b] if e[0] == 'declarator']
        dl = d[-1][1] if d else None
        enters = [i for i, e in enumerate(evs) if e[0] == 'scope' and e[1] == 'enter_scope']
        leaves = [i for i, e in enumerate(evs) if e[0] == 'scope' and e[1] == 'leave_scope']
        it.ctx = ctx
        known = False
        for e in evs[:b]:
            if e[0] == 'call' and e[1] == 'find_func':
                r = it.settle(e[2]) if isinstance(e[2], View) else e[2]
                known = known or isinstance(r, Obj) or (isinstance(r, Sym) and 0 in ctx.neq.get(r.key(), ()))
        own = [i for i, e in enumerate(evs[:b]) if e[0] == 'insert' and dl and e[2] == dl + '.name']
        rep.ob('R03.8', 'parse.c:function:own-name-in-file-scope-before-body', known or (bool(own) and (not enters or own[0] < enters[0])),
               'a function definition parses its body %s: the function\'s identifier is in scope from the end of its declarator (C11 6.2.1p7) — a recursive call would not find it, or it would be declared inside its own block scope'
               % ('before its name is entered into the scope' if not own else 'with its name entered into the function\'s own block scope instead of the enclosing one'), where=where, facts={'order': [(x[0], x[1], x[2]) for x in evs]})
        params = [i for i, e in enumerate(evs) if e[0] == 'insert' and dl and e[2] and e[2].startswith(dl + '.params')]
        inner = [i for i, e in enumerate(evs) if e[0] == 'insert' and i not in own]
        okp = len(enters) == 1 and all(enters[0] < i < b for i in params) and (o[0] != 'ret' or (len(leaves) == 1 and leaves[0] > b)) and all(enters[0] < i for i in inner) and enters[0] < b
        rep.ob('R03.8', 'parse.c:function:parameters-and-body-inside-function-scope', okp,
               'a function definition does not enter one scope, then its parameters (and __func__), then parse the body, then leave the scope: %r — parameters would leak into / be missing from the scope the body is parsed in (C11 6.2.1p4)'
               % [(x[0], x[1]) for x in evs], where=where)
    from ..lib_c03proto import declare_body_scope, r_body_scope
    declare_body_scope(rep)
    r_body_scope(P, rep, pu, it, 'function', paths)
    if n_body == 0:
        rep.undecided('R03.8', 'parse.c:function:body', 'no path of function() parses a body', where=where)
    if n_decl == 0:
        rep.undecided('R03.8', 'parse.c:function:declaration', 'no path of function() completes a declaration without a body', where=where)

    # --- (d) block items are parsed inside the block's scope -----------------------------------------
    it, paths = decl_events(P, pu, 'compound_stmt', lambda tm, ctx, rest: [rest, tm.token('tok')], loop_limit=1)
    where = 'parse.c:%d' % pu.fn('compound_stmt').line
    n_items = 0
    for ctx, o, evs in paths:
        if o[0] != 'ret':
            continue
        enters = [i for i, e in enumerate(evs) if e[0] == 'scope' and e[1] == 'enter_scope']
        leaves = [i for i, e in enumerate(evs) if e[0] == 'scope' and e[1] == 'leave_scope']
        rep.ob('R03.8', 'parse.c:compound_stmt:scope-paired', len(enters) == 1 and len(leaves) == 1 and enters[0] < leaves[0], 'a block does not enter exactly one scope and leave it again on a path: %r' % [(x[0], x[1]) for x in evs], where=where)
        for i, e in enumerate(evs):
            if e[0] in ('parse', 'call') and e[1] != 'find_func':
                n_items += 1
                rep.ob('R03.8', 'parse.c:compound_stmt:%s-inside-block-scope' % e[1], bool(enters) and bool(leaves) and enters[0] < i < leaves[-1],
                       'a block item handled by %s() is parsed outside the block\'s scope (before enter_scope / after leave_scope): its declarations land in, or its uses are resolved in, the enclosing scope (C11 6.2.1p4)' % e[1], where='parse.c:%d' % e[3])
    if n_items == 0:
        rep.undecided('R03.8', 'parse.c:compound_stmt:items', 'no returning path parses a block item', where=where)


# ------------------------------------------------- single evaluation of operands in parser lowerings ---
# lowerings that must exist (anchors); the rule itself runs over every function of parse.c that returns a Node * and is not a plain constructor
LOWERINGS = ('conditional', 'logor', 'logand', 'expr', 'assign', 'to_assign', 'new_inc_dec', 'unary', 'cast', 'postfix')
BOOKKEEPING_LINKS = ('case_next', 'default_case', 'goto_next')     # lists the parser keeps through nodes; the code generator does not evaluate along them
PURE_LEAVES = ('ND_VAR', 'ND_NUM', 'ND_NULL_EXPR')                  # node kinds without sub-expression and without side effect: evaluating one twice cannot be observed


def _returns_node(fd):
    return (fd.type or '').split('(')[0].strip() == 'Node *'


def _plain_constructors(pu):
    """functions returning Node * that only allocate and fill a node (their callees are calloc and other plain constructors)"""
    cal = {}
    for f, fd in pu.functions.items():
        if _returns_node(fd):
            cal[f] = set(c.callee() for c in fd.find('CallExpr'))
    plain = set()
    changed = True
    while changed:
        changed = False
        for f, cs in cal.items():
            if f not in plain and None not in cs and cs and all(c == 'calloc' or c in plain for c in cs):
                plain.add(f); changed = True
    return plain


_LOWERING_MEMO = {}


def lowering_paths(P, pu, fname, plain, max_paths=3000, inline=()):
    """explore one lowering: plain constructors (and the helpers named in `inline`) are interpreted (so the built tree exists), every other callee is opaque and,
    when it returns a Node *, is taken to link each Node argument it is given once into its result. Yields (ctx, result, consumed: id(result Obj) -> [Node args], it);
    ctx.tok0 = the first Token * argument"""
    from ..lib_parse import TokenModel
    from ..interp import _Ref, VarPlace
    mkey = (id(P), id(pu), fname, tuple(sorted(plain)), tuple(sorted(inline)), max_paths)
    if mkey in _LOWERING_MEMO:
        return _LOWERING_MEMO[mkey][1:]
    fd = pu.fn(fname)
    called = set()
    todo = [fname]
    while todo:
        g = todo.pop()
        for c in pu.fn(g).find('CallExpr'):
            n = c.callee()
            if n and n not in called:
                called.add(n)
                if (n in plain or n in inline) and n in pu.functions:
                    todo.append(n)
    opq = sorted(c for c in called if c not in plain and (c not in inline or c == fname) and c not in ('equal', 'consume', 'skip', 'calloc') and c != 'error' and not c.startswith('error_'))
    tm = TokenModel(P, pu, [fname], extra_opaque=opq, globals_={'scope': lambda ctx: Obj('Scope', lazy=True, label='scope')}, loop_limit=1, forever_limit=3)
    it = tm.interp()
    ps = pu.params(fname)

    def mk(ctx):
        a = []
        ctx.tok0 = None
        for q in ps:
            t = (q.type or '').replace(' ', '')
            if t == 'Token**':
                a.append(_Ref(VarPlace({'rest': None}, 'rest')))
            elif t == 'Token*':
                a.append(tm.token(q.name or 'tok'))
                if ctx.tok0 is None:
                    ctx.tok0 = a[-1]
            elif t == 'Node*':
                a.append(Obj('Node', lazy=True, label=q.name or 'node'))
            elif t in ('int', 'long', 'bool'):
                a.append(Sym(q.name or 'n', t))
            else:
                a.append(it.lazy_value(q.type, q.name or 'arg'))
        return a
    node_fns = set(f for f, d in pu.functions.items() if _returns_node(d))
    out = []
    for ctx, o in it.explore(fname, mk, max_paths=max_paths):
        if o[0] != 'ret':
            continue
        it.ctx = ctx
        consumed = {}
        for e in ctx.events:
            if e[0] == 'call' and e[1] in node_fns:
                r = _node_obj(it, e[4])
                if r is not None:
                    consumed[id(r)] = [a for a in (_node_obj(it, x) for x in (e[2] or [])) if a is not None]
        out.append((ctx, o[1], consumed))
    _LOWERING_MEMO[mkey] = (P, it, out)      # (P kept alive so that its id stays unique)
    return it, out


def _node_obj(it, v):
    """the node object a value points to (None: not a node / null)"""
    if isinstance(v, View):
        w = it.settle(v)
        if isinstance(w, View):
            objs = [c for c in w.cell.cands if isinstance(c, Obj)]
            w = objs[0] if len(objs) == 1 else None
        v = w
    if isinstance(v, Obj) and v.tname in ('Node', None):
        return v
    return None


def _operand_links(it, root, consumed, NK):
    """number of distinct evaluation paths from the root of a built tree to every operand (a node the lowering did not build itself)"""
    count = {}
    names = {}
    kinds = {}
    budget = [20000]

    def kind_of(o):
        k = o.fields.get('kind')
        if isinstance(k, View):
            ks = set(NK.get(k.proj(c), '?') for c in k.cell.cands)
            return ks
        return {NK.get(k, '?')} if isinstance(k, int) else None

    def walk(o, stack):
        budget[0] -= 1
        if budget[0] < 0 or id(o) in stack:
            return
        stack = stack | {id(o)}
        if o.lazy:
            count[id(o)] = count.get(id(o), 0) + 1
            names[id(o)] = o.label or '?'
            kinds[id(o)] = kind_of(o)
            for a in consumed.get(id(o), ()):
                walk(a, stack)
        for f, v in list(o.fields.items()):
            if f in BOOKKEEPING_LINKS:
                continue
            c = _node_obj(it, v)
            if c is not None and (c.tname == 'Node' or not c.lazy):
                walk(c, stack)
    r = _node_obj(it, root)
    if r is not None:
        walk(r, frozenset())
    return count, names, kinds, budget[0] < 0


def r03a(P, rep):
    rep.rule('R03.10', 'single evaluation: the tree a parser lowering (a ?: b, op=, ++/--, &&, ||, the comma operator, ...) returns links every operand tree it got from a sub-parser or as an argument '
                       'at most once, because the code generator evaluates a sub-tree once per link: an operand that is reachable twice is evaluated twice, side effects included '
                       '(C11 6.5.15/6.5.16.2/6.5.2.4: the operand is evaluated only once); only a leaf without side effect (a variable, a constant) may be shared', floor=25)
    pu = P.unit('parse.c')
    NK = {v: k for k, v in pu.enums.items() if k.startswith('ND_')}
    plain = _plain_constructors(pu)
    if not plain:
        raise AnalysisBroken('parse.c: no node constructor recognised')
    import re as _re
    for fname in LOWERINGS:
        if fname not in pu.functions:
            raise AnalysisBroken('parse.c: %s vanished' % fname)
    for fname in sorted(f for f, d in pu.functions.items() if _returns_node(d) and f not in plain and d.find('CompoundStmt')):
        where = 'parse.c:%d' % pu.fn(fname).line
        try:
            it, paths = lowering_paths(P, pu, fname, plain)
        except AnalysisBroken as e:
            rep.undecided('R03.10', 'parse.c:%s:tree' % fname, 'the lowering is not interpretable: %s' % e, where=where)
            continue
        n = 0
        for ctx, root, consumed in paths:
            it.ctx = ctx
            count, names, kinds, cut = _operand_links(it, root, consumed, NK)
            if cut:
                rep.undecided('R03.10', 'parse.c:%s:tree' % fname, 'the built tree is too large to walk', where=where)
                continue
            n += 1
            shared = [i for i, c in count.items() if c > 1 and not (kinds.get(i) and kinds[i] <= set(PURE_LEAVES))]
            what = sorted(set(_re.sub(r'#\d+', '', names[i]) for i in shared))
            rep.ob('R03.10', 'parse.c:%s:operands-linked-once' % fname, not shared,
                   '%s() returns a tree in which the operand %s is reachable along %d links%s: the code generator evaluates it once per link, so its side effects (`*p++`, `a[++i]`, a call) happen more than once '
                   'and the value used is that of the last evaluation; an operand that is needed twice must go through a temporary'
                   % (fname, ', '.join(what), max([count[i] for i in shared] or [0]),
                      (' (node kind on this path: %s)' % '/'.join(sorted(set().union(*[kinds[i] or {'any'} for i in shared])))) if shared else ''),
                   where=where, facts={'path': ctx.trail[-8:]})
        if n == 0:
            rep.undecided('R03.10', 'parse.c:%s:tree' % fname, 'no returning path builds a tree', where=where)


# ------------------------------------------------- label name space: goto / &&label bind to the label of the same name (C11 6.8.6.1, 6.2.3) ---
LABEL_LISTS = ('gotos', 'labels')           # bookkeeping lists of parse.c: references awaiting resolution / labels defined in the current function
LABEL_NAMES = ('a', 'ab', 'abc', 'Ab', 'ac', 'b')      # small model: proper prefixes, extensions, a case variant, an equally long other name, an unrelated name


def _list_writers(pu, resolver):
    """{function: set of lists} -- the functions (other than the resolver) that store a non-null node into gotos / labels"""
    out = {}
    for f, fd in pu.functions.items():
        if f == resolver:
            continue
        for b in fd.walk():
            if b.kind != 'BinaryOperator' or b.opcode != '=' or len(b.inner) != 2:
                continue
            l = b.inner[0].strip()
            g = pu.globals.get(l.ref_name) if l.kind == 'DeclRefExpr' and l.ref_name in LABEL_LISTS else None
            if g is None or l.ref_id != g.id:
                continue
            r = b.inner[1].strip_all()
            if r.int_value() == 0 or (r.kind == 'BinaryOperator' and r.opcode == '='):
                continue        # a reset (checked by R03.6 lists-cleared)
            out.setdefault(f, set()).add(l.ref_name)
    return out


def _token_params(pu, f):
    return [q for q in pu.params(f) if (q.type or '').replace(' ', '') in ('Token*', 'Token**')]


def _spelling_fn(P, pu, f, cache):
    """True: f(Token *t) returns, on every returning path, a copy of the whole spelling of t (strndup(t->loc, t->len))"""
    if f in cache:
        return cache[f]
    cache[f] = False
    ps = pu.params(f) if f in pu.functions else None
    if not ps or len(ps) != 1 or (ps[0].type or '').replace(' ', '') != 'Token*':
        return False
    it = Interp(P, pu, {'opaque': ['strndup'], 'loop_limit': 1})
    try:
        res = it.explore(f, lambda ctx: [Obj('Token', lazy=True, label='t')], max_paths=200)
    except AnalysisBroken:
        return False
    n = 0
    for ctx, out in res:
        if out[0] != 'ret':
            continue
        n += 1
        ev = [e for e in ctx.events if e[0] == 'call' and e[1] == 'strndup' and e[4] is out[1]]
        if not ev or _loc_len(ev[0][2]) != ('t', 0):
            return False
    cache[f] = n > 0
    return cache[f]


def _loc_len(args):
    """strndup(T->loc, T->len + c) -> (label of T, c); strndup(T->loc, n) -> (label of T, ('first', n)); None when the arguments are anything else"""
    from ..interp import Lin
    if len(args) < 2 or not isinstance(args[0], Sym) or not args[0].name.endswith('.loc'):
        return None
    t = args[0].name[:-len('.loc')]
    if isinstance(args[1], int) and not isinstance(args[1], bool):
        return (t, ('first', args[1]))          # a fixed number of characters, whatever the token's length
    l = Lin.of(args[1])
    if isinstance(l, int) or l is None:
        return None
    terms = list(l.terms.values())
    if len(terms) != 1 or terms[0][0] != 1 or not isinstance(terms[0][1], Sym) or terms[0][1].name != t + '.len':
        return None
    return (t, l.c)


def _label_creators(P, pu, rep, rule, resolver):
    """the classes of nodes the parser links into gotos / labels and what each carries as its name; also the obligations on the creating code"""
    from ..lib_parse import spelled, OTHER
    NK = {v: k for k, v in pu.enums.items() if k.startswith('ND_')}
    plain = _plain_constructors(pu)
    writers = _list_writers(pu, resolver)
    helpers = set(f for f in writers if not _token_params(pu, f))        # list helpers (push a given node): interpreted inside their callers
    todo = set(f for f in writers if f not in helpers)
    for f, fd in pu.functions.items():
        if f != resolver and f not in helpers and any(c.callee() in helpers for c in fd.find('CallExpr')):
            todo.add(f)
    classes = {}
    cache = {}
    for fname in sorted(todo):
        where = 'parse.c:%d' % pu.fn(fname).line
        try:
            it, paths = lowering_paths(P, pu, fname, plain, inline=helpers)
        except AnalysisBroken as e:
            rep.undecided(rule, 'parse.c:%s:label-bookkeeping' % fname, 'the function is not interpretable: %s' % e, where=where)
            continue
        for ctx, _root, _consumed in paths:
            it.ctx = ctx
            for G in LABEL_LISTS:
                v = ctx.globals.get(G)
                v = it.settle(v) if isinstance(v, View) else v
                if not isinstance(v, Obj) or v.lazy:
                    continue
                kind = NK.get(v.fields.get('kind')) if isinstance(v.fields.get('kind'), int) else None
                tok0 = getattr(ctx, 'tok0', None)
                if kind is None or tok0 is None:
                    rep.undecided(rule, 'parse.c:%s:label-bookkeeping' % fname, 'a node of unknown kind / origin is linked into `%s`' % G, where=where)
                    continue
                key = 'parse.c:%s:%s' % (fname, kind)
                sp = spelled(it, tok0) or []
                lead = sp[0] if len(sp) == 1 and sp[0] != OTHER else None         # keyword / punctuator the construct starts with; None: it starts with the identifier itself
                ident = tok0.label + ('.next' if lead else '')
                nxt = v.fields.get('goto_next')
                rep.ob(rule, key + ':linked-in-front-of-earlier-%s' % G, isinstance(nxt, View) and nxt.cell.label == 'g:' + G,
                       '%s() makes a %s node the head of `%s` with goto_next = %r instead of the previous head: the %s seen earlier in the function are lost before they are resolved'
                       % (fname, kind, G, nxt, 'labels' if G == 'labels' else 'goto statements / &&label expressions'), where=where, facts={'path': ctx.trail[-6:]})
                # the name the node carries
                lab = v.fields.get('label')
                lab = it.settle(lab) if isinstance(lab, View) else lab
                name = None
                if lab is not None and not (isinstance(lab, int) and lab == 0):
                    src = None
                    for e in ctx.events:
                        if e[0] == 'call' and e[4] is lab:
                            if e[1] == 'strndup':
                                src = _loc_len(e[2])
                            elif _spelling_fn(P, pu, e[1], cache) and e[2]:
                                tl = _vlabel(it, e[2][0])
                                src = (tl, 0) if tl else None
                    if src is None:
                        rep.undecided(rule, key + ':name-is-whole-identifier', 'the name stored in the node (%r) is not recognisably a copy of a token\'s spelling' % (lab,), where=where)
                        continue
                    good = src == (ident, 0)
                    rep.ob(rule, key + ':name-is-whole-identifier', good,
                           '%s() names a %s node after %s: a label name is the whole spelling of the identifier of the construct (`%s`), otherwise two different labels get the same name '
                           'or a goto does not find its label'
                           % (fname, kind, ('the first %d characters of token `%s`' % (src[1][1], src[0])) if isinstance(src[1], tuple) else
                              ('the spelling of token `%s` without its last %d character(s)' % (src[0], -src[1])) if src[1] < 0 else
                              ('%d character(s) more than the spelling of token `%s`' % (src[1], src[0])) if src[1] > 0 else 'token `%s`' % src[0], ident),
                           where=where, facts={'path': ctx.trail[-6:]})
                    if not good:
                        continue
                    name = 'copy'
                tl = _vlabel(it, v.fields.get('tok'))
                pos = 0 if tl == tok0.label else (1 if tl == tok0.label + '.next' else None)
                ul = v.fields.get('unique_label')
                ul = it.settle(ul) if isinstance(ul, View) else ul
                if ul is None or (isinstance(ul, int) and ul == 0):
                    uniq = 'null'
                elif any(e[0] == 'call' and e[4] is ul for e in ctx.events):
                    uniq = 'fresh'
                else:
                    uniq = 'other'
                classes.setdefault((G, fname, kind, lead, name, pos, uniq), where)
    return classes


def _m_str(fn):
    def h(it, ctx, n, args):
        if all(isinstance(a, (str, int)) for a in args):
            try:
                return fn(*args)
            except (TypeError, ValueError, IndexError):
                pass
        from ..interp import Term
        r = Term(n.callee() or 'call', *args)
        ctx.emit('call', n.callee(), args, n.line, r)
        return r
    return h


def _cmpi(a, b):
    return (a > b) - (a < b)


LABEL_MODELS = {'strcasecmp': _m_str(lambda a, b: _cmpi(a.lower(), b.lower())), 'strncasecmp': _m_str(lambda a, b, k: _cmpi(a[:k].lower(), b[:k].lower())),
                'strstr': _m_str(lambda a, b: a[a.index(b):] if b in a else 0), 'strchr': _m_str(lambda a, c: a[a.index(chr(c)):] if chr(c) in a else 0)}


def _name_relation(bound, wanted):
    if bound == wanted:
        return 'same'
    if wanted.startswith(bound):
        return 'a-proper-prefix'
    if bound.startswith(wanted):
        return 'an-extension'
    if bound.lower() == wanted.lower():
        return 'a-case-variant'
    return 'another-name'


def r03c(P, rep):
    """returns True when the binding of references to labels was decided (either way) by the concrete model"""
    import itertools
    RULE = 'R03.12'
    rep.rule(RULE, 'label name space: every goto statement and &&label expression is bound to the label of the current function whose identifier has exactly the same spelling '
                   '(never to a label whose name is a prefix, an extension, a case variant or any other name), a reference without such a label is diagnosed; the nodes the parser '
                   'queues for this carry the whole identifier as their name and are linked in front of the earlier ones. Decided by interpreting resolve_goto_labels() on every '
                   'ordering of small label sets built the way the parser builds them', floor=14)
    pu = P.unit('parse.c')
    resolver = 'resolve_goto_labels'
    if resolver not in pu.functions:
        raise AnalysisBroken('resolve_goto_labels vanished')
    where = 'parse.c:%d' % pu.fn(resolver).line
    classes = _label_creators(P, pu, rep, RULE, resolver)
    refs = sorted((c for c in classes if c[0] == 'gotos'), key=repr)
    defs = sorted((c for c in classes if c[0] == 'labels'), key=repr)
    if not refs or not defs:
        rep.undecided(RULE, 'parse.c:%s:model' % resolver, 'no code that queues a %s was recognised' % ('goto / &&label' if not refs else 'label'), where=where)
        return False
    for c in refs + defs:
        if c[5] is None or c[6] == 'other' or (c[0] == 'labels' and c[6] != 'fresh'):
            if c[0] == 'labels' and c[6] == 'null':
                rep.ob(RULE, 'parse.c:%s:%s:label-gets-a-unique-name' % (c[1], c[2]), False, '%s() queues a %s node without a unique label: the code generator has no assembler label to define for it' % (c[1], c[2]), where=classes[c])
            else:
                rep.undecided(RULE, 'parse.c:%s:%s:model' % (c[1], c[2]), 'the node\'s token / unique label is set in a way the model does not represent', where=classes[c])
            return False
    TK = pu.enums

    def tokens(spells):
        """a token chain over one source text, the way the tokenizer leaves it: loc points into the text (which goes on after the token), len is the token's length"""
        text = ''.join(sp + gap for sp, gap in spells)
        out = []
        pos = 0
        for sp, gap in spells:
            t = Obj('Token', lazy=True, label='tok:' + sp)
            ident = sp[0].isalpha() and sp not in ('goto',)
            t.fields.update(loc=text[pos:], len=len(sp), kind=TK['TK_IDENT'] if ident else TK.get('TK_KEYWORD' if sp[0].isalpha() else 'TK_PUNCT', TK['TK_IDENT'] + 1))
            pos += len(sp) + len(gap)
            if out:
                out[-1].fields['next'] = t
            out.append(t)
        out[-1].fields['next'] = Obj('Token', lazy=True, label='tok:rest')
        return out

    def build(cls, name):
        G, fname, kind, lead, nm, pos, uniq = cls
        ts = tokens([(lead, ' ' if lead[0].isalpha() else ''), (name, ''), (';', ' ')] if lead else [(name, ''), (':', ' '), (';', ' ')])
        n = Obj('Node', lazy=True, label='%s:%s' % (kind, name))
        n.fields.update(kind=TK[kind], tok=ts[pos], label=name if nm else 0, goto_next=0,
                        unique_label=('L.' + name) if G == 'labels' else (0 if uniq == 'null' else 'U.' + name))
        return n

    def chain(nodes):
        for a, b in zip(nodes, nodes[1:]):
            a.fields['goto_next'] = b
        return nodes[0] if nodes else 0

    def run(rcls, dcls, wanted, present):
        def scn(ctx):
            if not hasattr(ctx, 'scn'):
                ctx.scn = ([build(rcls, g) for g in wanted], [build(dcls, l) for l in present])
                chain(ctx.scn[0]); chain(ctx.scn[1])
            return ctx.scn
        it = Interp(P, pu, {'track_stores': True, 'models': LABEL_MODELS,
                            'globals': {'gotos': lambda ctx: (scn(ctx)[0] or [0])[0], 'labels': lambda ctx: (scn(ctx)[1] or [0])[0]}})
        res = it.explore(resolver, lambda ctx: [], max_paths=50)
        if len(res) != 1:
            return None
        ctx, out = res[0]
        return out, [g.fields.get('unique_label') for g in ctx.scn[0]]

    decided = True
    for rcls in refs:
        kind = rcls[2]
        key = 'parse.c:%s:%s' % (resolver, kind)
        wrong = {}          # relation -> example
        unbound = undiag = None
        broken = None
        nrun = 0
        for dcls in defs:
            try:
                for k in (0, 1, 2, 3):
                    for perm in itertools.permutations(LABEL_NAMES, k):
                        scen = [(list(perm), perm)] if perm else []
                        if k <= 2:
                            scen += [([m], perm) for m in LABEL_NAMES if m not in perm]
                        for wanted, present in scen:
                            r = run(rcls, dcls, wanted, present)
                            if r is None:
                                broken = broken or 'the resolver does not run to a single concrete outcome on goto %r with labels %r' % (wanted, list(present))
                                continue
                            nrun += 1
                            out, got = r
                            for g, u in zip(wanted, got):
                                ex = 'reference to `%s` in a function whose labels are, newest first, %s' % (g, ', '.join('`%s`' % p for p in present) or '(none)')
                                if isinstance(u, str) and u.startswith('L.'):
                                    rel = _name_relation(u[2:], g)
                                    if rel != 'same':
                                        wrong.setdefault(rel, '%s is bound to label `%s`' % (ex, u[2:]))
                                elif u == 0 or u is None:
                                    if g in present and out[0] == 'ret':
                                        unbound = unbound or '%s stays unresolved' % ex
                                    elif g not in present and out[0] == 'ret':
                                        undiag = undiag or '%s is accepted without a diagnostic' % ex
                                    elif out[0] != 'ret' and all(w in present for w in wanted) and not any(x in (0, None) for x in got[:wanted.index(g)]):
                                        unbound = unbound or '%s is diagnosed (%s) although the label exists' % (ex, out[1])
                                elif isinstance(u, str) and u.startswith('U.'):
                                    if g not in present and out[0] == 'ret':
                                        undiag = undiag or '%s is accepted without a diagnostic' % ex
                                    elif g in present:
                                        unbound = unbound or '%s keeps the unique label it was created with' % ex
                                else:
                                    broken = broken or 'a reference is given %r' % (u,)
            except AnalysisBroken as e:
                broken = broken or 'the resolver is not interpretable on the model: %s' % e
        if broken:
            rep.undecided(RULE, key + ':model', broken, where=where)
        if nrun == 0:
            decided = False
            continue
        what = 'goto statement' if kind == 'ND_GOTO' else ('&&label expression' if kind == 'ND_LABEL_VAL' else kind + ' reference')
        if not (broken and not unbound and not any(wrong.values())):
            rep.ob(RULE, key + ':bound-to-the-label-of-the-same-name', not unbound and not wrong,
                   'a %s is not bound to the label it names: %s (C11 6.8.6.1: goto jumps to the statement prefixed by the named label)' % (what, unbound or (sorted(wrong.values()) or [''])[0]), where=where)
        for rel in ('a-proper-prefix', 'an-extension', 'a-case-variant', 'another-name'):
            if broken and rel not in wrong:
                continue
            rep.ob(RULE, key + ':never-bound-to-a-label-whose-name-is-%s' % rel, rel not in wrong,
                   'label names are compared so that %s of the requested name matches: %s; the %s jumps to / takes the address of the wrong statement' % (rel.replace('-', ' '), wrong.get(rel), what), where=where)
        if not (broken and not undiag):
            rep.ob(RULE, key + ':undeclared-label-diagnosed', not undiag, 'a %s naming a label the function does not define is not diagnosed: %s' % (what, undiag), where=where)
        if broken and not (unbound or wrong or undiag):
            decided = False
    return decided


def r036(P, rep, bound_decided=False):
    rep.rule('R03.6', 'labels are resolved per function: every goto gets the unique label of the label with the same name, an unmatched goto is diagnosed, and both lists are cleared afterwards; fresh label names never repeat', floor=4)
    pu = P.unit('parse.c')
    cu = P.unit('codegen.c')
    if 'resolve_goto_labels' not in pu.functions:
        raise AnalysisBroken('resolve_goto_labels vanished')
    where = 'parse.c:%d' % pu.fn('resolve_goto_labels').line
    it = Interp(P, pu, {'opaque': ['strcmp'], 'loop_limit': 1, 'track_stores': True,
                        'globals': {'gotos': lambda ctx: Obj('Node', lazy=True, label='goto1'), 'labels': lambda ctx: Obj('Node', lazy=True, label='label1')}})
    nmatch = ndiag = 0
    for ctx, out in it.explore('resolve_goto_labels', lambda ctx: []):
        cmpd = [e for e in ctx.events if e[0] == 'call' and e[1] == 'strcmp']
        st = [e for e in ctx.events if e[0] == 'fstore' and e[2] == 'unique_label' and getattr(e[1], 'label', '') == 'goto1']
        matched = any(isinstance(it.settle(e[4]) if isinstance(e[4], View) else e[4], int) and (it.settle(e[4]) if isinstance(e[4], View) else e[4]) == 0 for e in cmpd) if cmpd else False
        if out[0] == 'ret':
            if cmpd and st:
                nmatch += 1
                v = st[-1][4]
                want = None
                for e in cmpd:
                    r = it.settle(e[4]) if isinstance(e[4], View) else e[4]
                    z = (isinstance(r, int) and r == 0) or (hasattr(r, 'key') and ctx.bounds.get(r.key()) == [0, 0])
                    if z:
                        names = sorted(getattr(a, 'name', '') for a in e[2][:2])
                        lab = [nm for nm in names if nm.startswith('label1') and nm.endswith('.label')]
                        if lab and 'goto1.label' in names:
                            want = lab[0][:-len('.label')] + '.unique_label'
                ok = want is not None and getattr(v, 'name', '') == want
                rep.ob('R03.6', 'parse.c:resolve_goto_labels:goto-takes-matching-label', ok, 'a goto is given %r instead of the unique label of the label it names' % (v,), where=where)
            g, l = ctx.globals.get('gotos'), ctx.globals.get('labels')
            rep.ob('R03.6', 'parse.c:resolve_goto_labels:lists-cleared', g == 0 and l == 0, 'gotos/labels are %r/%r after resolution: labels of one function would leak into the next' % (g, l), where=where)
        else:
            ndiag += 1
    rep.ob('R03.6', 'parse.c:resolve_goto_labels:unmatched-goto-diagnosed', ndiag >= 1, 'no path diagnoses a goto whose label does not exist', where=where)
    if nmatch == 0 and not bound_decided:
        # (when the names are not compared through strcmp the symbolic reading above has nothing to look at; R03.12 decides the binding on concrete label sets)
        rep.undecided('R03.6', 'parse.c:resolve_goto_labels:match', 'no path matches a goto with a label')
    # R03.4 fresh numbering: the counter functions return a function-static that every call increments
    for u, fn in ((cu, 'count'), (pu, 'new_unique_name')):
        fd = u.fn(fn)
        if fd is None:
            raise AnalysisBroken('%s vanished' % fn)
        statics = [d for d in fd.find('VarDecl') if d.d.get('storageClass') == 'static']
        incs = [x for x in fd.walk() if x.kind == 'UnaryOperator' and x.opcode in ('++',) and x.inner[0].strip().kind == 'DeclRefExpr' and statics and x.inner[0].strip().ref_id == statics[0].id]
        const_init = bool(statics) and statics[0].inner and statics[0].inner[-1].int_value() is not None
        other_writes = [x for x in fd.walk() if x.kind in ('BinaryOperator', 'CompoundAssignOperator') and x.opcode.endswith('=') and x.opcode not in ('==', '!=', '<=', '>=') and statics and x.inner[0].strip().kind == 'DeclRefExpr' and x.inner[0].strip().ref_id == statics[0].id]
        rets = fd.find('ReturnStmt')
        uses = all(any(y.kind == 'DeclRefExpr' and statics and y.ref_id == statics[0].id for y in r.walk()) for r in rets) if rets else False
        rep.ob('R03.4' if False else 'R03.6', '%s:%s:fresh-number-per-call' % (u.name, fn), len(statics) == 1 and len(incs) == 1 and const_init and not other_writes and uses,
               '%s does not return a constant-initialised function-static that is incremented exactly once per call: two constructs could get the same label' % fn, where='%s:%d' % (u.name, fd.line))


DEPTH_RULE = 'R03.15'
# concrete call expressions for DEPTH_RULE (arguments in registers, in memory, long double slots, padding, a struct copied to the stack, a hidden
# result pointer), at both parities of `depth`
DEPTH_CALLS = [(['int', 'int'], 'int', 0), (['int', 'double', 'ldouble'], 'int', 1), (['long'] * 7 + ['ldouble', 'int'], 'int', 0),
               (['s_l3', 'ldouble'] + ['long'] * 7, 's_l3', 1), (['double'] * 9, 'ldouble', 0)]


def r03f_depth(cg, P, rep):
    """`depth` is what gen_jump releases the stack from and what gen_label records: at every hand-off of a child to the generator (the child may
    contain the break/continue/goto or the label), at every record and at every release it equals the slots the arm has really pushed"""
    from .. import lib_c03depth as D
    from . import c20
    rep.rule(DEPTH_RULE, 'a jump out of a statement expression restores the stack height of its target from `depth`: in every arm of gen_expr / gen_addr / gen_stmt and in call expressions, whenever a child '
                         '(operand, argument, sub-statement) is handed to the generator, a label records `8*depth`, or a jump releases `8*depth - <record>`, the emitted code of the arm has moved %rsp down by '
                         'exactly 8 * (depth - depth at entry of the arm) bytes, on every path of the generator and of the emitted code\'s own jumps (C20 R20.3 compares the two only at the end of an arm)', floor=80)
    handled = c20.expr_kinds_handled(cg)
    ahandled = c20.expr_kinds_handled(cg, 'gen_addr')
    if len(handled) < 30 or len(ahandled) < 4:
        raise AnalysisBroken('gen_expr / gen_addr: only %d / %d node kinds recognised in their switches' % (len(handled), len(ahandled)))
    plan = [('gen_expr', k, c20.preset(cg, k)) for k in cg.node_kinds if k in handled and k not in c20.STMT_KINDS and k != 'ND_FUNCALL']
    plan += [('gen_addr', k, c20.preset(cg, k)) for k in cg.node_kinds if k in ahandled and k != 'ND_FUNCALL']
    plan += [('gen_stmt', k, c20.preset_stmt(cg, k)) for k in c20.STMT_KINDS]
    col = D.Collector()
    D.run_kinds(cg, col, plan)
    D.run_calls(cg, P, col, DEPTH_CALLS)
    col.issue(rep, DEPTH_RULE)


FOLD_RULE = 'R03.16'
U_PARSE = 'parse.c'
# node kinds whose constant-ness involves no evaluation that could have a side effect: literals and the address computations of a constant lvalue
FOLD_PURE_LEAVES = ('ND_NUM', 'ND_ADDR', 'ND_MEMBER', 'ND_DEREF', 'ND_VAR', 'ND_LABEL_VAL', 'ND_NULL_EXPR')
CONST_PREDICATE = 'is_const_expr'


def _fold_family(pu, cgr, acceptors):
    """the constant folders of parse.c, found structurally: functions of a `Node *` (first parameter) with an arithmetic result that reach eval2
    (eval, eval2, eval_rval, eval_double, eval_truth, ...), the constant-ness predicates excluded. Returns (family incl. predicates, folders)"""
    def reach(f, seen):
        for g in cgr.get(f, ()):
            if g in pu.functions and g not in seen:
                seen.add(g); reach(g, seen)
        return seen
    fam = set()
    for f, fd in pu.functions.items():
        ps = pu.params(f)
        if not ps or (ps[0].type or '').replace(' ', '') != 'Node*':
            continue
        rt = (fd.type or '').split('(')[0].strip()
        if '*' in rt or rt == 'void':
            continue
        if f == 'eval2' or 'eval2' in reach(f, set()):
            fam.add(f)
    return fam, fam - set(acceptors)


def _fold_args(pu, f):
    def mk(ctx):
        out = []
        for p in pu.params(f):
            t = (p.type or '').replace(' ', '')
            if t.endswith('**'):
                from ..interp import _Ref, VarPlace
                out.append(_Ref(VarPlace({p.name: None}, p.name)))
            elif t.endswith('*'):
                out.append(Obj(t[:-1].replace('struct', '').replace('const', ''), lazy=True, label=p.name))
            else:
                out.append(Sym(p.name, p.type))
        return out
    return mk


def _view_truth(ctx, r):
    """how the path has decided the boolean result r of an opaque call: True / False / None (not decided)"""
    if isinstance(r, int):
        return r != 0
    if isinstance(r, View):
        try:
            vals = [r.proj(c) for c in r.cell.cands]
        except Exception:
            return None
        if vals and all(isinstance(v, int) for v in vals):
            if all(v != 0 for v in vals):
                return True
            if all(v == 0 for v in vals):
                return False
        return None
    return _cmp_truth(ctx, r)


def r03g_fold(P, rep):
    """no evaluation is dropped by constant folding. (1) the constant-ness predicate requires every operand that an execution of the operator always
    evaluates to be constant itself (C07 R07.5's obligations, which state this clause), and accepts no kind whose evaluation is a side effect;
    (2) wherever the parser chooses between folding an expression tree it has parsed and keeping it for run-time evaluation, it folds only under
    the predicate's `true`."""
    from ..report import Report, reissue
    from ..interp import vkey
    from . import c07
    rep.rule(FOLD_RULE, 'every operand the abstract machine evaluates is evaluated: an expression tree is replaced by its folded value (and so never executed) only if the constant-ness predicate has '
                        'answered true for it on that path, and the predicate answers true for an operator only if every operand that a run-time evaluation of the operator always evaluates '
                        '(both operands of a binary operator and of the comma operator, the operand of a unary operator / cast, the left operand of && ||, the condition of ?:) is itself required '
                        'constant - a constant expression has no side effect, so nothing is lost (`int a[(f(), 3)];` is a VLA whose size expression calls f each time the declaration is reached)', floor=18)
    pu = P.unit(U_PARSE)
    if CONST_PREDICATE not in pu.functions:
        raise AnalysisBroken('parse.c: %s vanished' % CONST_PREDICATE)
    F = c07.Folder(P)
    # (1) the predicate: C07's rule, re-used
    sub = Report('C07')
    c07.r075(F, sub)
    n = reissue(rep, FOLD_RULE, sub, 'the operand and its side effects are never executed: ',
                keep=lambda o: o['key'].startswith('R07.5:') and '/operands-evaluated-at-run-time-required-constant' in o['key'])
    if n < 10:
        rep.undecided(FOLD_RULE, '%s:%s:operators' % (U_PARSE, CONST_PREDICATE), 'only %d operator kinds of the constant-ness predicate were judged' % n,
                      where='%s:%d' % (U_PARSE, pu.fn(CONST_PREDICATE).line))
    for kind in F.kinds:
        if kind in c07.RUN_TIME_OPERANDS:
            continue
        try:
            acc = bool(c07._accepting(F, CONST_PREDICATE, kind))
        except Exception as e:
            rep.undecided(FOLD_RULE, '%s:%s:%s/kind-without-side-effect' % (U_PARSE, CONST_PREDICATE, kind), 'cannot summarise: %s' % e)
            continue
        if acc:
            rep.ob(FOLD_RULE, '%s:%s:%s/kind-without-side-effect' % (U_PARSE, CONST_PREDICATE, kind), kind in FOLD_PURE_LEAVES,
                   '%s answers true for a %s node: evaluating it is (or contains) a side effect / a statement that the abstract machine executes each time the expression is reached; '
                   'a tree judged constant is folded and never executed' % (CONST_PREDICATE, kind), where='%s:%d' % (U_PARSE, c07.line_of_kind(pu, CONST_PREDICATE, F.E[kind])))
    # (2) the consumers: functions outside the folder family that fold a tree
    cgr = _callgraph(pu)
    fam, folders = _fold_family(pu, cgr, F.acceptors)
    if 'eval2' not in folders or len(folders) < 3:
        raise AnalysisBroken('parse.c: the constant folders around eval2 are not recognised')
    node_fns = set(f for f, fd in pu.functions.items() if (fd.type or '').split('(')[0].strip().replace(' ', '') == 'Node*')
    folders = set(folders)
    derived = {}            # helper that folds its own Node* parameter without asking the predicate itself: its callers fold
    choosers = 0
    done = set()
    for _round in range(4):
        grew = False
        for f in sorted(pu.functions):
            if f in fam or f in folders or f in done or not (cgr.get(f, set()) & folders):
                continue
            done.add(f)
            opaque = sorted(g for g in cgr.get(f, ()) if g != f and g in pu.functions)
            try:
                it = Interp(P, pu, {'opaque': opaque, 'loop_limit': 1})
                res = it.explore(f, _fold_args(pu, f), max_paths=3000)
            except AnalysisBroken as e:
                rep.undecided(FOLD_RULE, '%s:%s:fold-or-evaluate' % (U_PARSE, f), 'cannot explore: %s' % e, where='%s:%d' % (U_PARSE, pu.fn(f).line))
                continue
            except Exception as e:
                rep.undecided(FOLD_RULE, '%s:%s:fold-or-evaluate' % (U_PARSE, f), 'cannot explore: %s: %s' % (type(e).__name__, e), where='%s:%d' % (U_PARSE, pu.fn(f).line))
                continue
            params = [p.name for p in pu.params(f) if (p.type or '').replace(' ', '') == 'Node*']
            folds = {}      # (folder, origin) -> [ok per path, line]
            kept = set()    # origins (sub-parser names) whose tree survives some returning path unfolded
            for ctx, out in res:
                origin = {}
                preds = {}
                guarded = set()
                folded_here = set()
                for e in ctx.events:
                    if e[0] != 'call':
                        continue
                    name, args, line, r = e[1], e[2], e[3], e[4]
                    if name in node_fns and name not in folders:
                        origin[vkey(r)] = name
                    if not args:
                        continue
                    k = vkey(args[0])
                    if name == CONST_PREDICATE:
                        if _view_truth(ctx, r) is True:
                            guarded.add(k)
                        preds.setdefault(k, r)
                    elif name in folders:
                        a0 = args[0]
                        if k in origin:
                            src = origin[k]
                        elif isinstance(a0, Obj) and getattr(a0, 'label', None) in params:
                            src = 'parameter ' + a0.label
                        else:
                            continue        # a tree stored earlier (an initializer of an object of static storage duration): a constant expression by the grammar
                        # only an answer obtained before the fold counts; the path may have decided it later than the call (`c = pred(x); ... if (c)`), so its
                        # truth is read at the end of the path
                        ok = k in guarded or (k in preds and _view_truth(ctx, preds[k]) is True)
                        rec = folds.setdefault((name, src), [True, line])
                        rec[0] = rec[0] and ok
                        folded_here.add(k)
                if out[0] == 'ret':
                    for k, src in origin.items():
                        if k not in folded_here:
                            kept.add(src)
            for (folder, src), (ok, line) in sorted(folds.items()):
                if src.startswith('parameter '):
                    if not ok and f not in folders:
                        folders.add(f); derived[f] = folder; grew = True
                    continue
                if src not in kept:
                    continue            # the function folds whatever it has parsed on every path: a constant-expression of the grammar (const_expr)
                choosers += 1
                via = ' (which hands it to %s)' % derived[folder] if folder in derived else ''
                rep.ob(FOLD_RULE, '%s:%s:%s-of-%s-result/only-when-judged-constant' % (U_PARSE, f, folder, src), ok,
                       '%s() keeps the tree parsed by %s() for run-time evaluation on some paths and folds it with %s()%s on others, and a folding path has not been answered true by %s() for that tree: '
                       'an expression with a side effect is replaced by a value and never executed (an array bound `(f(), 3)` / `n++ ? 2 : 2` makes a fixed-size array and f / n++ is lost)'
                       % (f, src, folder, via, CONST_PREDICATE), where='%s:%d' % (U_PARSE, line))
        if not grew:
            break
        done -= set(g for g in done if cgr.get(g, set()) & set(derived))
    if not choosers:
        rep.undecided(FOLD_RULE, '%s:fold-or-evaluate' % U_PARSE, 'no function that chooses between folding a parsed expression and keeping it for run-time evaluation (array bound: fixed size vs. VLA) was recognised',
                      where='%s:%d' % (U_PARSE, pu.fn(CONST_PREDICATE).line))


def run(P, rep, tier):
    cg = wrap(CG(P))
    rep.explanation = ('Control skeletons: gen_stmt/gen_expr are abstractly interpreted per statement / short-circuit form, the emitted templates are executed by the '
                       'term-level machine along every path of their own jumps (loops unrolled twice), and each path is compared with the executions C11 6.8 / 6.5.13-15 allow '
                       '(order of evaluations, which operand each test reads and with which width, where the continue/break labels sit, result value). '
                       'Parser-side context and scope discipline is decided by typestate rules over parse.c: stmt() is explored per keyword arm and the break/continue/switch '
                       'context is recorded at every hand-off to a sub-parser (sub-statement vs. any other part of the statement); the declaring functions (enum_specifier, declaration, '
                       'global_variable, parse_typedef, function, compound_stmt) are explored with the scope-table insertions, the parser hand-offs and enter/leave_scope as events, and '
                       'their order on every path is compared with the point of declaration C11 6.2.1p7 prescribes. R03.9 replays the enter/leave_scope calls of every path of stmt() as a scope stack and '
                       'requires every part of a selection/iteration statement to be parsed inside a scope of that statement (and no other statement form to open one). R03.2 also decides the emptiness test '
                       'of GNU case ranges per type class of the controlling expression (operand signedness of the comparison as clang types it). R03.10 explores every Node*-returning function of parse.c '
                       'with the plain node constructors interpreted and counts, in the tree each path returns, the links to every operand tree it was given: more than one link = evaluated more than once. '
                       'R03.14 follows each case bound stored in the node back through the calls of the path to the folded constant and the type operands of those calls: a conversion is allowed only to a type '
                       'that has at least int\'s size on that path (the promoted type), never to the controlling expression\'s own char/short/_Bool type. R03.8 also requires every completed declarator '
                       '(objects, typedefs, block-scope `extern`, function declarations without body) to leave the identifier bound in the innermost scope (entered there, found there, or the path has '
                       'established that the innermost scope is the file scope); R03.5 requires a struct/union tag to be in the innermost tag table while its member list is parsed. '
                       'R03.15 re-explores every arm of gen_expr / gen_addr / gen_stmt (abstract node per kind) and concrete call expressions with the value of `depth` recorded at every emitted line and every hand-off of a child, '
                       'follows the emitted code\'s own jumps with the %rsp displacement of each instruction, and compares the two at every child, label record and release.')
    rep.assumptions += ['children and sub-statements satisfy their contracts (structural induction)', 'the order/placement obligations of R03.3 accept either NaN treatment of a floating truth test; the NaN treatment itself is R03.13']
    rep.assumptions += ['`depth` is the number of 8-byte slots the unfinished enclosing expressions have pushed: by induction over R03.15 (each arm hands its children a `depth` that has grown by what the arm itself has pushed) and C20 R20.3 / R20.1 (arms and children are balanced); a goto/break/continue emitted while `depth` is 0 needs no release because '
                        'its target is not inside a statement expression the jump is outside of (GNU C forbids jumping into one; C20 R20.14), so nothing is pushed at the target either; '
                        'computed gotos (`goto *p`) release nothing and are not covered']
    jumps = r033(cg, rep)
    r033_switch(cg, rep, jumps)
    label_records(rep, 'R03.3', jumps)
    if not jumps['njumps']:
        rep.undecided('R03.3', '%s:gen_stmt:ND_GOTO' % U, 'no jump to the label of a goto/break/continue was seen in the emitted code', where='%s:%d' % (U, cg.cu.fn('gen_stmt').line))
    r03f_depth(cg, P, rep)
    r031(P, rep, cg.cat)
    r035(P, rep)
    r038(P, rep)
    r03a(P, rep)
    r036(P, rep, r03c(P, rep))
    r03g_fold(P, rep)
    from ..lib_c03proto import r_prototype_scope
    from ..lib_c03vla import r_vla_once
    r_prototype_scope(P, rep)
    from ..lib_c03proto import r_scope_recorded
    r_scope_recorded(P, rep)
    r_vla_once(P, rep)
    # every statement form leaves the machine stack and the x87 register stack as it found them: a loop whose increment or condition
    # leaks a register-stack slot per iteration stops early (its condition turns NaN after eight iterations). C20's gen_stmt rule, re-used.
    # (c12 runs c03.run into a sub-report and c20 into another: guard against re-entrance through c20 -> ... is not needed, c20 imports only c04)
    from ..report import Report, reissue
    from . import c20, c02
    # the zero test every control-flow lowering shares (cmp_zero) and `!` on floating operands: C02's rule, re-used (a NaN condition that takes the
    # false branch executes other statements than the abstract machine does)
    sub = Report('C02')
    c02.r024(cg, sub)
    reissue(rep, NAN_RULE, sub, 'a NaN controlling expression takes the branch of a false condition: ', keep=lambda o: o['key'].startswith('R02.4:'))
    rep.rule('R03.11', 'every gen_stmt arm (if, for/while, do, switch, case, block, goto, label, return, expression statement) is stack-neutral on the machine stack and the x87 stack on every path, so iteration n+1 starts in the state iteration n started in (same obligations as C20 R20.2)', floor=10)
    sub = Report('C20')
    c20.run(P, sub, tier)
    reissue(rep, 'R03.11', sub, 'a repeated statement would run out of x87 registers and compute NaN: ', keep=lambda o: o['key'].startswith('R20.2:'))
