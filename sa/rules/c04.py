"""C04 Every lvalue designates exactly its object's bytes and bits (DESIGN.md §3 C04)."""
from ..build import AnalysisBroken
from ..interp import Obj, View, Interp, Sym, Term, Lin, Cell
from ..chibi import CG, Trace, INT_CATS
from ..lib_sem import run_paths, child_value, canon, INTSZ, UNSIGNED, FP
from ..x86 import Unknown, lo, ext, norm_bin, C
from .c01 import wrap, report

U = 'codegen.c'
LOADABLE = ('bool', 'char', 'short', 'int', 'long', 'uchar', 'ushort', 'uint', 'ulong', 'enum', 'ptr', 'float', 'double', 'ldouble')


def lin_of(tr, term):
    """python value (Lin/Term/int) behind an immediate operand term of the machine"""
    if term[0] == 'c':
        return term[1]
    if term[0] == 'immsym':
        return tr.syms.get(term[1])
    return None


def lin_eq(a, b):
    la, lb = Lin.of(a), Lin.of(b)
    if la is None or lb is None:
        return False
    d = la.add(lb, -1) if isinstance(la, Lin) and isinstance(lb, Lin) else None
    return d == 0


def rep_of(cat, r):
    """register representation of a value r (size*8-bit term) of class cat"""
    if cat in INTSZ:
        s = INTSZ[cat]
        if s == 8:
            return 64, r
        if s == 4:
            return 32, r
        if cat in UNSIGNED:
            return 64, ext('zx', s * 8, 64, r)
        return 32, ext('sx', s * 8, 32, r)
    return None


def r_load_store(cg, rep):
    rep.rule('R04.8', 'scalar loads read exactly sizeof(T) bytes at the designated address with the extension of T; scalar stores write exactly sizeof(T) bytes of the value there; the assignment expression keeps the stored value', floor=24)
    where = '%s:%d' % (U, cg.cu.fn('load').line if cg.cu.fn('load') else 0)
    for cat in LOADABLE:
        def mk(ctx, cat=cat):
            n = cg.node('node', 'ND_DEREF')
            t = cg.tcell('ty', only=(cat,))
            n.fields['ty'] = t
            n.fields['lhs'] = cg.node('lhs', ty=cg.ptr_to(t, 'pty'))
            return n
        pack = run_paths(cg, 'gen_expr', mk)
        A = ('addr', ('r', 'lhs', 64), 0)

        def check(s, cat=cat):
            if cat in FP:
                p = FP[cat]
                if p == 80:
                    ok = len(s.st) == 1 and s.st[-1] == ('fmem', 80, A)
                    return ok, 'long double load leaves %r on the x87 stack, expected the 10-byte object at the address' % (s.st,)
                got = s.xmm.get(0)
                return got == ('fmem', p, A), 'loaded %r, expected the %d-bit object at the address' % (got, p)
            sz = INTSZ[cat] * 8
            w, E = rep_of(cat, ('mem', sz, A))
            a = canon(lo(w, s.reg['rax']))
            return a == canon(E), 'load of %s yields %r, expected %r (exactly %d bytes, %s-extended)' % (cat, a, canon(E), sz // 8, 'zero' if cat in UNSIGNED else 'sign')
        report(rep, 'R04.8', '%s:load:%s' % (U, cat), pack, check, 'load of %s' % cat, where)
        # store
        def mka(ctx, cat=cat):
            n = cg.node('node', 'ND_ASSIGN')
            t = cg.tcell('ty', only=(cat,))
            n.fields['ty'] = t
            n.fields['lhs'] = cg.node('lhs', ty=t, kind='ND_VAR')
            n.fields['rhs'] = cg.node('rhs', ty=t)
            return n
        pack = run_paths(cg, 'gen_expr', mka)

        def checks(s, cat=cat):
            A2 = ('addr', ('r', 'lhs&', 64), 0)
            if len(s.stores) != 1:
                return False, '%d stores emitted, exactly one expected' % len(s.stores)
            addr, w, val, kind = s.stores[0]
            if addr != A2:
                return False, 'the store goes to %r, not to the address of the left operand' % (addr,)
            if cat in FP:
                p = FP[cat]
                want_w = 128 if p == 80 else p
                ok = w == want_w and val == ('fval', p, ('r', 'rhs', 'f%d' % p))
                if not ok:
                    return ok, 'stores %r (%d bits), expected the %d-bit value of the right operand' % (val, w, p)
                if p == 80:
                    return s.st == [('r', 'rhs', 'f80')], 'after the store the x87 stack holds %r; the assignment expression must leave exactly the stored value there' % (s.st,)
                return True, ''
            sz = INTSZ[cat] * 8
            _, V = child_value('rhs', cat)
            ok = w == sz and canon(val) == canon(lo(sz, V))
            if not ok:
                return False, 'stores %d bits %r, expected exactly %d bits of the right operand (%r)' % (w, canon(val), sz, canon(lo(sz, V)))
            return s.reg['rax'] == V, 'the value of the assignment expression is %r instead of the stored value' % (s.reg['rax'],)
        if cat != 'ldouble':
            report(rep, 'R04.8', '%s:store:%s' % (U, cat), pack, checks, 'store of %s' % cat, where)
        else:
            report(rep, 'R04.8', '%s:store:%s' % (U, cat), pack, checks, 'store of %s' % cat, where)


def r_aggregate_value(cg, rep):
    """an lvalue of array/struct/union/function/VLA type is represented by its address: evaluating it must not read through the address"""
    where = '%s:%d' % (U, cg.cu.fn('load').line if cg.cu.fn('load') else 0)
    for cat in ('array', 'struct', 'union', 'func', 'vla'):
        def mk(ctx, cat=cat):
            n = cg.node('node', 'ND_DEREF')
            t = cg.tcell('ty', only=(cat,))
            n.fields['ty'] = t
            n.fields['lhs'] = cg.node('lhs', ty=cg.ptr_to(t, 'pty'))
            return n
        pack = run_paths(cg, 'gen_expr', mk)

        def check(s, cat=cat):
            return s.reg['rax'] == ('r', 'lhs', 64) and not s.stores, ('the value of an lvalue of %s type is %r: such an object is represented by its address, which must be passed on unchanged '
                                                                       '(a load here reads the first bytes of the object and uses them as its address)' % (cat, s.reg['rax']))
        report(rep, 'R04.8', '%s:load:%s-is-its-address' % (U, cat), pack, check, 'value of an lvalue of %s type' % cat, where)


def bitfield_node(cg, cat, kind):
    def mk(ctx):
        t = cg.tcell('ty', only=(cat,))
        m = Obj('Member', lazy=True, label='mem')
        m.fields['ty'] = t
        m.fields['is_bitfield'] = 1
        m.fields['bit_width'] = Sym('w', 'int')
        m.fields['bit_offset'] = Sym('o', 'int')
        # layout invariant (C08 R08.3 / R04.11): 1 <= width <= bits of the declared type, 0 <= bit_offset < that
        ctx.bounds[Sym('w', 'int').key()] = [1, INTSZ[cat] * 8]
        ctx.bounds[Sym('o', 'int').key()] = [0, INTSZ[cat] * 8 - 1]
        m.fields['offset'] = Sym('off', 'int')
        mn = cg.node('lhs' if kind == 'ND_ASSIGN' else 'node', 'ND_MEMBER', ty=t, member=m)
        mn.fields['lhs'] = cg.node('base')
        if kind == 'ND_MEMBER':
            return mn
        n = cg.node('node', 'ND_ASSIGN', ty=t)
        n.fields['lhs'] = mn
        n.fields['rhs'] = cg.node('rhs', ty=t)
        return n
    return mk


def _imm_encodable(rep, rule, key, tr, sz, where):
    """every ALU instruction with an immediate operand takes at most a sign-extended 32-bit immediate (only `mov $imm64, %r64` exists):
    a template whose immediate is a formula of the field width / offset must stay within that range for every field the layout admits"""
    import re as _re
    bad = None
    n = 0
    for line in tr.text():
        m = _re.match(r'^\s*(and|or|xor|add|sub|cmp|test|imul)[bwlq]?\s+\$\{(.+)\},\s*(%\w+|.*\))\s*$', line)
        if not m:
            continue
        expr = m.group(2)
        if not _re.search(r'\b[wo]\b', expr):
            continue
        n += 1
        for wv in range(1, sz + 1):
            for ov in range(0, sz - wv + 1):
                try:
                    v = eval(expr, {'__builtins__': {}}, {'w': wv, 'o': ov})
                except Exception:
                    v = None
                if v is None:
                    continue
                v &= (1 << 64) - 1
                sv = v - (1 << 64) if v >> 63 else v
                if not (-(1 << 31) <= sv < (1 << 31)) and bad is None:
                    bad = (line.strip(), wv, ov, v)
    rep.ob(rule, key + ':immediates-encodable', bad is None,
           'the template `%s` needs the immediate %#x for a field of width %d at bit offset %d: ALU instructions take a sign-extended 32-bit immediate only, the assembler rejects the output (the value must go through a register)' % ((bad[0], bad[3], bad[1], bad[2]) if bad else ('', 0, 0, 0)),
           where=where, facts={'trace': tr.text(), 'templates_checked': n})


def r_bitfield(cg, rep):
    rep.rule('R04.1', 'bit-field read: the storage unit of the declared type is loaded from base+offset, shifted left by 64-width-bit_offset and right by 64-width, arithmetically iff the type is signed', floor=8)
    rep.rule('R04.2', 'bit-field write: new bits (value & ((1<<w)-1)) << o computed in 64 bits, old unit loaded with the declared width, cleared with ~(((1<<w)-1)<<o), merged and stored with the same width at the same address; the assignment yields the stored field value', floor=8)
    where = '%s:%d' % (U, cg.cu.fn('gen_expr').line)
    w, o, off = Sym('w', 'int'), Sym('o', 'int'), Sym('off', 'int')
    for cat in ('char', 'uchar', 'short', 'ushort', 'int', 'uint', 'long', 'ulong', 'bool'):
        sz = INTSZ[cat] * 8
        # ---- read
        pack = run_paths(cg, 'gen_expr', bitfield_node(cg, cat, 'ND_MEMBER'))
        for ctx, tr, finals, cats, it in pack:
            key = '%s:gen_expr:ND_MEMBER-bitfield/%s' % (U, cat)
            if isinstance(finals, Exception):
                rep.undecided('R04.1', key, 'not interpretable: %s' % finals, where=where); continue
            _imm_encodable(rep, 'R04.1', key, tr, sz, where)
            for s in finals:
                t = s.reg['rax']
                ok = False
                detail = 'result %r is not shift-left then shift-right of the loaded unit' % (t,)
                if t[0] == 'bin' and t[1] in ('sar', 'shr') and t[2] == 64 and t[3][0] == 'bin' and t[3][1] == 'shl' and t[3][2] == 64:
                    rsh, inner, lsh = lin_of(tr, t[4]), t[3][3], lin_of(tr, t[3][4])
                    want_r = Lin.of(64).add(Lin.of(w), -1)
                    want_l = Lin.of(64).add(Lin.of(w), -1).add(Lin.of(o), -1)
                    arith = t[1] == 'sar'
                    base = ('addr', norm_bin('add', 64, ('r', 'base&', 64), ('immsym', '{off}')), 0)
                    unit = canon(lo(sz, inner))
                    if not lin_eq(lsh, want_l):
                        detail = 'left shift count is %r, expected 64 - width - bit_offset' % (lsh,)
                    elif not lin_eq(rsh, want_r):
                        detail = 'right shift count is %r, expected 64 - width' % (rsh,)
                    elif arith != (cat not in UNSIGNED):
                        detail = 'the right shift is %s but the field type %s is %s' % ('arithmetic' if arith else 'logical', cat, 'unsigned' if cat in UNSIGNED else 'signed')
                    elif unit != ('mem', sz, base):
                        detail = 'the storage unit read is %r, expected %d bits at base + member offset' % (unit, sz)
                    else:
                        ok = True
                rep.ob('R04.1', key, ok, 'bit-field read of %s: %s' % (cat, detail), where=where, facts={'trace': tr.text()})
        # ---- write
        pack = run_paths(cg, 'gen_expr', bitfield_node(cg, cat, 'ND_ASSIGN'))
        if sz == 64:
            # (1L << width) is undefined on the host for width 64 (x86 yields 1, i.e. an empty mask): the generator has to single that width out
            singled = any(ctx.bounds.get(w.key()) == [64, 64] for ctx, tr, finals, cats, it in pack)
            shifts = any('(1 << w)' in l for ctx, tr, finals, cats, it in pack if ctx.bounds.get(w.key()) != [64, 64] for l in tr.text())
            rep.ob('R04.2', '%s:gen_expr:ND_ASSIGN-bitfield/%s:width-64-mask' % (U, cat), singled or not shifts,
                   'the field mask is computed as (1L << bit_width) - 1 on the host for every width: for a 64-bit wide field the shift count equals the operand width (undefined; 1L << 64 is 1 on x86, the mask becomes 0 and the assignment stores nothing)', where=where)
        for ctx, tr, finals, cats, it in pack:
            key = '%s:gen_expr:ND_ASSIGN-bitfield/%s' % (U, cat)
            if isinstance(finals, Exception):
                rep.undecided('R04.2', key, 'not interpretable: %s' % finals, where=where); continue
            _imm_encodable(rep, 'R04.2', key, tr, sz, where)
            for s in finals:
                A = ('addr', ('r', 'lhs&', 64), 0)
                ok = False
                detail = ''
                one = Term('<<', 1, w)
                fieldmask = Lin.of(one).add(Lin.of(1), -1)         # (1<<w)-1 in 64-bit arithmetic
                pinned64 = ctx.bounds.get(w.key()) == [64, 64]
                if pinned64:
                    # the code singles out width 64 (where 1L << width is undefined on the host): there the mask is all ones
                    fieldmask = Lin.of(-1)
                if len(s.stores) != 1:
                    detail = '%d stores, expected one' % len(s.stores)
                else:
                    addr, sw, val, kind = s.stores[0]
                    _, V = child_value('rhs', cat)
                    if addr != A:
                        detail = 'the merged unit is stored to %r, not to the member address' % (addr,)
                    elif sw != sz:
                        detail = 'the merged unit is stored with %d bits, the declared type has %d' % (sw, sz)
                    else:
                        v = val
                        # expect lo(sz, or(and(old, ~mask), shl(and(rhs, fm), o)))
                        full = None
                        # recover the 64-bit merge term from %rax before the store: val = lo(sz, merge)
                        merge = None
                        for cand in (val,):
                            merge = cand
                        # structural walk
                        def find_or(t):
                            if t[0] == 'bin' and t[1] == 'or':
                                return t
                            if t[0] == 'lo':
                                return find_or(t[2])
                            return None
                        m = find_or(val)
                        if m is None:
                            detail = 'the stored value %r is not old-bits | new-bits' % (val,)
                        else:
                            parts = [m[3], m[4]]
                            newb = [p for p in parts if p[0] == 'bin' and p[1] == 'shl']
                            oldb = [p for p in parts if p[0] == 'bin' and p[1] == 'and' and p not in newb]
                            if len(newb) != 1 or len(oldb) != 1:
                                detail = 'the stored value %r is not (old & ~mask) | ((new & fieldmask) << offset)' % (m,)
                            else:
                                nb, ob = newb[0], oldb[0]
                                shc = lin_of(tr, nb[4])
                                inner = nb[3]
                                fm = None
                                src = None
                                if inner[0] == 'bin' and inner[1] == 'and':
                                    for x, y in ((inner[3], inner[4]), (inner[4], inner[3])):
                                        if x[0] in ('immsym', 'c'):
                                            fm, src = lin_of(tr, x), y
                                mk_ = None
                                oldv = None
                                for x, y in ((ob[3], ob[4]), (ob[4], ob[3])):
                                    if x[0] in ('immsym', 'c'):
                                        mk_, oldv = lin_of(tr, x), y
                                want_mask = Term('~', Term('<<', fieldmask.simp() if hasattr(fieldmask, 'simp') else fieldmask, o))
                                if pinned64:
                                    fm = None if fm is None else Lin.of(-1) if (Lin.of(fm) is not None and isinstance(getattr(Lin.of(fm), 'c', None), int) and not Lin.of(fm).terms and Lin.of(fm).c % (1 << 64) == (1 << 64) - 1) else fm
                                    alt = Term('~', Term('<<', (1 << 64) - 1, o))
                                    if mk_ is not None and vkey_(mk_) == vkey_(alt):
                                        want_mask = alt
                                wm = lo(m[2], V) if m[2] < 64 else V
                                if not lin_eq(shc, o):
                                    detail = 'new bits are shifted by %r, expected bit_offset' % (shc,)
                                elif fm is None or not lin_eq(fm, fieldmask):
                                    detail = 'new bits are masked with %r, expected (1L << width) - 1 computed in 64 bits' % (fm,)
                                elif canon(src) not in (canon(V), canon(lo(m[2], V))) and canon(lo(32, src)) != canon(lo(32, V)):
                                    detail = 'new bits are taken from %r, not from the right operand' % (src,)
                                elif mk_ is None or vkey_(mk_) != vkey_(want_mask):
                                    detail = 'old bits are cleared with %r, expected ~(((1L << width) - 1) << bit_offset) computed in 64 bits (%r)' % (mk_, want_mask)
                                elif canon(lo(sz, oldv)) != ('mem', sz, A):
                                    detail = 'the old unit is read as %r, expected %d bits at the member address' % (canon(lo(sz, oldv)), sz)
                                else:
                                    ok = True
                rep.ob('R04.2', key, ok, 'bit-field write of %s: %s' % (cat, detail), where=where, facts={'trace': tr.text()})
                if ok:
                    # value of the assignment expression
                    _, V = child_value('rhs', cat)
                    t = s.reg['rax']
                    raw = t == V
                    good = False
                    if t[0] == 'bin' and t[1] in ('sar', 'shr') and t[2] == 64 and t[3][0] == 'bin' and t[3][1] == 'shl' and t[3][2] == 64:
                        want_c = Lin.of(64).add(Lin.of(w), -1)
                        good = lin_eq(lin_of(tr, t[4]), want_c) and lin_eq(lin_of(tr, t[3][4]), want_c) and (t[1] == 'shr') == (cat in UNSIGNED) \
                            and canon(lo(32, t[3][3])) == canon(lo(32, V))
                    if raw:
                        rep.ob('R04.2', key + ':value:raw-rhs', False,
                               'the value of a bit-field assignment is the unmasked right operand; C11 6.5.16p3: the value of the left operand after the assignment (the field value)', where=where, facts={'trace': tr.text()})
                    elif good:
                        rep.ob('R04.2', key + ':value', True, '', where=where)
                    else:
                        rep.ob('R04.2', key + ':value', False, 'the value of a bit-field assignment is %r: not the right operand truncated to the field width and extended per the field type' % (t,), where=where, facts={'trace': tr.text()})


def vkey_(v):
    from ..interp import vkey
    return vkey(v)


def r_read_after_operands(cg, rep, rule='R04.30'):
    """R04.30: an assignment that merges new bits into the old contents of the object (bit-field) or copies bytes (aggregate) must read memory only
    after BOTH operands have been evaluated: the operands are arbitrary expressions that may store to the same storage unit / object"""
    from ..lib_c04_order import run_paths_ordered, check_read_after_operands
    rep.rule(rule, 'read-modify-write of an lvalue reads the object after every operand of the node has been evaluated: no value loaded from program memory before an operand is generated '
                   'is merged into a store or the result afterwards (bit-field assignment: the storage unit; aggregate assignment: the source bytes)', floor=11)
    where = '%s:%d' % (U, cg.cu.fn('gen_expr').line)
    for cat in ('char', 'uchar', 'short', 'ushort', 'int', 'uint', 'long', 'ulong', 'bool'):
        pack = run_paths_ordered(cg, 'gen_expr', bitfield_node(cg, cat, 'ND_ASSIGN'))
        check_read_after_operands(rep, rule, '%s:gen_expr:ND_ASSIGN-bitfield/%s:unit-read-after-operands' % (U, cat), pack, where, 'assignment to a bit-field of type %s' % cat)
    for cls, kname in (('struct', 'TY_STRUCT'), ('union', 'TY_UNION')):
        def mk(ctx, cls=cls, kname=kname):
            t = Obj('Type', lazy=True, label='sty')
            t.meta['cat'] = cls
            t.fields.update({'kind': cg.E[kname], 'size': 3, 'align': 1, 'is_unsigned': 0, 'base': 0})
            n = cg.node('node', 'ND_ASSIGN', ty=t)
            n.fields['lhs'] = cg.node('lhs', ty=t, kind='ND_VAR')
            n.fields['rhs'] = cg.node('rhs', ty=t)
            return n
        pack = run_paths_ordered(cg, 'gen_expr', mk)
        check_read_after_operands(rep, rule, '%s:gen_expr:ND_ASSIGN-%s:source-read-after-operands' % (U, cls), pack, where, 'assignment of a %s' % cls)
    for cat in ('int', 'long', 'char'):
        def mka(ctx, cat=cat):
            n = cg.node('node', 'ND_ASSIGN')
            t = cg.tcell('ty', only=(cat,))
            n.fields['ty'] = t
            n.fields['lhs'] = cg.node('lhs', ty=t, kind='ND_VAR')
            n.fields['rhs'] = cg.node('rhs', ty=t)
            return n
        pack = run_paths_ordered(cg, 'gen_expr', mka)
        check_read_after_operands(rep, rule, '%s:gen_expr:ND_ASSIGN-scalar/%s:no-stale-read' % (U, cat), pack, where, 'assignment to a scalar of type %s' % cat, need_load=False)
    if 'ND_CAS' in cg.E:
        # compare-and-swap reads the expected value from *old: its three operands are evaluated first
        for cat in ('char', 'int', 'long'):
            def mkc(ctx, cat=cat):
                n = cg.node('node', 'ND_CAS')
                n.fields['ty'] = cg.tcell('nty', only=('bool',))
                b = cg.tcell('obj', only=(cat,))
                n.fields['cas_addr'] = cg.node('cas_addr', ty=cg.ptr_to(b, 'pa'))
                n.fields['cas_old'] = cg.node('cas_old', ty=cg.ptr_to(b, 'po'))
                n.fields['cas_new'] = cg.node('cas_new', ty=b)
                return n
            pack = run_paths_ordered(cg, 'gen_expr', mkc)
            check_read_after_operands(rep, rule, '%s:gen_expr:ND_CAS/%s:expected-read-after-operands' % (U, cat), pack, where, 'compare-and-swap on an object of type %s' % cat)


def r_copy_loops(cg, rep):
    rep.rule('R04.3', 'aggregate copies move byte i of the source to byte i of the destination for exactly i in [0, size)', floor=5)
    where = '%s:%d' % (U, cg.cu.fn('store').line if cg.cu.fn('store') else 0)
    for cls, kname, size in (('struct', 'TY_STRUCT', 1), ('struct', 'TY_STRUCT', 3), ('struct', 'TY_STRUCT', 17), ('union', 'TY_UNION', 3), ('union', 'TY_UNION', 17)):
        def mk(ctx, size=size, cls=cls, kname=kname):
            t = Obj('Type', lazy=True, label='sty')
            t.meta['cat'] = cls
            t.fields.update({'kind': cg.E[kname], 'size': size, 'align': 1, 'is_unsigned': 0, 'base': 0})
            n = cg.node('node', 'ND_ASSIGN', ty=t)
            n.fields['lhs'] = cg.node('lhs', ty=t, kind='ND_VAR')
            n.fields['rhs'] = cg.node('rhs', ty=t)
            return n
        pack = run_paths(cg, 'gen_expr', mk)

        def check(s, size=size, cls=cls):
            src = ('r', 'rhs', 64); dst = ('r', 'lhs&', 64)
            want = [(('addr', dst, i), 8, ('mem', 8, ('addr', src, i))) for i in range(size)]
            got = [(a, w, v) for (a, w, v, k) in s.stores]
            return sorted(got, key=repr) == sorted(want, key=repr), 'a %d-byte %s assignment stores %d bytes %r' % (size, cls, len(got), got[:4])
        report(rep, 'R04.3', '%s:store:%s-copy/%d' % (U, cls, size), pack, check, '%s copy' % cls, where)


def r_addr(cg, rep):
    rep.rule('R04.4', 'gen_addr: a member is at base + member offset, *p is at the value of p, (a,b) at the address of b after evaluating a, aggregate-valued calls/assignments/conditionals at the address they yield; anything else is diagnosed', floor=14)
    where = '%s:%d' % (U, cg.cu.fn('gen_addr').line)
    # member
    def mk(ctx):
        m = Obj('Member', lazy=True, label='mem')
        m.fields['offset'] = Sym('off', 'int')
        n = cg.node('node', 'ND_MEMBER', member=m)
        n.fields['lhs'] = cg.node('base')
        return n
    pack = run_paths(cg, 'gen_addr', mk)
    report(rep, 'R04.4', '%s:gen_addr:ND_MEMBER' % U, pack,
           lambda s: (s.reg['rax'] == norm_bin('add', 64, ('r', 'base&', 64), ('immsym', '{off}')), 'member address is %r, expected base + member offset' % (s.reg['rax'],)), 'address of a member', where)
    def mkd(ctx):
        n = cg.node('node', 'ND_DEREF')
        n.fields['lhs'] = cg.node('p', ty=cg.tcell('pt', only=('ptr',)))
        return n
    pack = run_paths(cg, 'gen_addr', mkd)
    report(rep, 'R04.4', '%s:gen_addr:ND_DEREF' % U, pack, lambda s: (s.reg['rax'] == ('r', 'p', 64), 'address of *p is %r, expected the value of p' % (s.reg['rax'],)), 'address of *p', where)
    def mkc(ctx):
        n = cg.node('node', 'ND_COMMA')
        n.fields['lhs'] = cg.node('a', ty=cg.tcell('at', only=('int',)))
        n.fields['rhs'] = cg.node('b')
        return n
    pack = run_paths(cg, 'gen_addr', mkc)
    def chk(s):
        ev = [e for e in s.events if e[0] == 'eval']
        return (ev == [('eval', 'expr', 'a'), ('eval', 'addr', 'b')] and s.reg['rax'] == ('r', 'b&', 64), 'address of (a, b): events %r, result %r' % (ev, s.reg['rax']))
    report(rep, 'R04.4', '%s:gen_addr:ND_COMMA' % U, pack, chk, 'address of a comma expression', where)
    # kinds accepted / rejected: case labels of gen_addr's switch on node->kind
    fn = cg.cu.fn('gen_addr')
    val2name = {cg.E[k]: k for k in cg.node_kinds}
    accepted = set()
    for n in fn.walk():
        if n.kind == 'CaseStmt':
            sw = n.enclosing('SwitchStmt')
            if sw is not None and sw.inner[0].src().endswith('->kind') and 'ty' not in sw.inner[0].src():
                v = None
                for x in n.inner[0].walk():
                    if x.kind == 'ConstantExpr' and x.value is not None:
                        v = int(x.value); break
                if v is None:
                    v = n.inner[0].int_value()
                if v in val2name:
                    accepted.add(val2name[v])
    want = {'ND_VAR', 'ND_DEREF', 'ND_COMMA', 'ND_MEMBER', 'ND_FUNCALL', 'ND_ASSIGN', 'ND_COND', 'ND_VLA_PTR'}
    rep.ob('R04.4', '%s:gen_addr:kinds-with-an-address' % U, accepted == want,
           'gen_addr computes an address for %s; the kinds that denote objects are %s (others must be diagnosed as "not an lvalue")' % (sorted(accepted ^ want), sorted(want)), where=where)
    # locals: an ordinary local lives at offset(%rbp); a VLA object lives where the hidden pointer stored at offset(%rbp) points, and
    # ND_VLA_PTR designates that hidden pointer slot itself
    SLOT = ('addr', ('init', 'rbp'), '{voff}')
    for kind, cat, want, what in (('ND_VAR', 'vla', ('mem', 64, SLOT), 'the block its hidden pointer (the 8 bytes at offset(%rbp)) points to'),
                                  ('ND_VAR', 'int', ('addrof', 64, SLOT), 'offset(%rbp)'), ('ND_VAR', 'array', ('addrof', 64, SLOT), 'offset(%rbp)'),
                                  ('ND_VAR', 'union', ('addrof', 64, SLOT), 'offset(%rbp)'), ('ND_VLA_PTR', 'vla', ('addrof', 64, SLOT), 'the hidden pointer slot offset(%rbp)')):
        def mkv(ctx, kind=kind, cat=cat):
            v = Obj('Obj', lazy=True, label='var')
            v.fields.update({'is_local': 1, 'offset': Sym('voff', 'int'), 'ty': cg.tcell('vty', only=(cat,))})
            n = cg.node('node', kind)
            n.fields['var'] = v
            return n
        pack = run_paths(cg, 'gen_addr', mkv)
        report(rep, 'R04.4', '%s:gen_addr:%s/local-%s' % (U, kind, cat), pack,
               lambda s, want=want, what=what, cat=cat: (s.reg['rax'] == want and not s.stores, 'the address of a local of class %s is %r, expected %s' % (cat, s.reg['rax'], what)), 'address of a local', where)
    # aggregate-valued assignments and conditionals denote the object they yield, whichever aggregate class it has
    for kind in ('ND_ASSIGN', 'ND_COND'):
        for cat in ('struct', 'union'):
            def mka(ctx, kind=kind, cat=cat):
                n = cg.node('node', kind)
                n.fields['ty'] = cg.tcell('ty', only=(cat,))
                return n
            key = '%s:gen_addr:%s/%s-has-an-address' % (U, kind, cat)
            try:
                it, res = cg.explore('gen_addr', mka)
            except AnalysisBroken as e:
                rep.undecided('R04.4', key, 'not interpretable: %s' % e, where=where); continue
            rets = [o for c, o in res if o[0] == 'ret']
            diag = [o for c, o in res if o[0] == 'noreturn']
            if not rets and not diag:
                rep.undecided('R04.4', key, 'no path', where=where); continue
            rep.ob('R04.4', key, bool(rets) and not diag, 'gen_addr of %s of %s type is diagnosed (%s) on %d of %d paths: `(a = b).m` / `(c ? a : b).m` designate a member of the yielded object for structs and unions alike'
                   % (kind, cat, diag[0][1] if diag else '', len(diag), len(diag) + len(rets)), where=where)
    # every other kind is diagnosed
    def mkk(ctx):
        n = cg.node('node', 'ND_ADD')
        return n
    it, res = cg.explore('gen_addr', mkk)
    rep.ob('R04.4', '%s:gen_addr:non-lvalue-diagnosed' % U, bool(res) and all(out[0] == 'noreturn' for ctx, out in res), 'gen_addr of a non-lvalue kind does not end in a diagnostic', where=where)


def r_member_lookup(P, rep):
    rep.rule('R04.9', 'member lookup matches a member only when its name has the same length and the same bytes as the identifier; anonymous struct/union members are searched recursively', floor=2)
    pu = P.unit('parse.c')
    if 'get_struct_member' not in pu.functions:
        raise AnalysisBroken('parse.c: get_struct_member vanished')
    where = 'parse.c:%d' % pu.fn('get_struct_member').line
    it = Interp(P, pu, {'opaque': ['strncmp', 'memcmp', 'strcmp'], 'loop_limit': 1, 'rec_limit': 0})
    n = 0
    for ctx, out in it.explore('get_struct_member', lambda ctx: [Obj('Type', lazy=True, label='ty'), Obj('Token', lazy=True, label='tok')]):
        if out[0] != 'ret':
            continue
        r = out[1]
        r = it.settle(r) if isinstance(r, View) else r
        if not isinstance(r, Obj):
            continue
        named = [e for e in ctx.events if e[0] == 'call' and e[1] in ('strncmp', 'memcmp', 'strcmp')]
        if not named:
            continue     # anonymous-member path
        n += 1
        e = named[-1]
        res = e[4]
        zero = hasattr(res, 'key') and ctx.bounds.get(res.key()) == [0, 0]
        if isinstance(res, Term):
            zero = zero or ctx.facts.get(('term', '!', res.key())) is True
        lens_equal = any(k[0] == 'term' and k[1] == '==' and 'ty.members.name.len' in repr(k) and 'tok.len' in repr(k) and v for k, v in ctx.facts.items())
        a = e[2]
        names = sorted(getattr(x, 'name', repr(x)) for x in a[:2])
        bytes_ok = names == ['tok.loc', 'ty.members.name.loc'] and (len(a) < 3 or getattr(a[2], 'name', '') in ('tok.len', 'ty.members.name.len') or 'len' in repr(a[2]))
        rep.ob('R04.9', 'parse.c:get_struct_member:name-bytes-compared', bytes_ok, 'a member is matched by comparing %r' % (names,), where=where)
        rep.ob('R04.9', 'parse.c:get_struct_member:name-length-compared', lens_equal,
               'a member is returned without its name length being equal to the identifier length: `x.len` would match an earlier member `len_max` (prefix match)', where=where, facts={'path': ctx.trail})
    if n == 0:
        rep.undecided('R04.9', 'parse.c:get_struct_member', 'no path returns a named member')


def _term_alignment(t):
    """largest power of two the frame base is known to be a multiple of: 16 by the psABI (the value of %rsp at entry + 8 is a multiple of 16, the
    prologue pushes 8 bytes), more only if the term is masked (`and $-N`)"""
    if isinstance(t, tuple) and len(t) == 5 and t[0] == 'bin' and t[1] == 'and':
        for m in (t[3], t[4]):
            if isinstance(m, tuple) and m[0] == 'c' and isinstance(m[1], int):
                v = m[1] & ((1 << 64) - 1)
                if v and (v >> 63):
                    return max(16, v & -v)
    return 16


def r_frame(cg, P, rep):
    """R04.5: frame layout: every local gets a home inside the frame, aligned to its own alignment (arrays of >= 16 bytes to 16),
    homes are pairwise disjoint, the frame size is a multiple of 16"""
    from ..lib_abi import Builder
    from .c06 import run_callee
    rep.rule('R04.5', 'frame layout: every local and register parameter gets a home inside the 16-aligned frame, aligned to its own (possibly _Alignas-raised) alignment, arrays of at least 16 bytes to 16, and no two homes overlap', floor=8)
    B = Builder(P)
    where = '%s:%d' % (U, cg.cu.fn('assign_lvar_offsets').line if cg.cu.fn('assign_lvar_offsets') else 0)
    cases = [
        [(1, 1, False), (4, 4, False), (8, 8, False)],
        [(3, 1, True), (17, 1, True), (16, 1, True), (15, 1, True)],
        [(1, 1, False), (1, 64, False, 1), (2, 2, False)],            # char with _Alignas(64): variable alignment above the type's
        [(24, 8, False), (1, 1, False), (16, 16, False), (5, 1, True), (32, 32, True, 1)],
        [(1, 1, True), (16, 1, True)],                                # a 16-byte array after an odd-sized object
        [(1, 1, True), (15, 1, True), (4, 32, False, 4)],
    ]
    for ci, locs in enumerate(cases):
        for params in ([], ['int', 'double', 's_ld'], ['long'] * 7 + ['s_l3']):
            key = '%s:assign_lvar_offsets:locals%d/params%d' % (U, ci, len(params))
            try:
                box, offsets, stack_size, tr, s = run_callee(cg, B, params, extra_locals=locs)
            except Unknown as e:
                rep.undecided('R04.5', key, str(e), where=where); continue
            homes = []
            ok = True
            msg = ''
            objs = [(v, sz, (16 if (arr and sz >= 16) else 1) * 1 if False else (max(16, al) if (arr and sz >= 16) else al)) for v, (sz, al, arr) in zip(box['extras'], [l[:3] for l in locs])]
            objs.append((box['ab'], 8, 8))
            for v, sz, al in objs:
                off = v.fields.get('offset')
                if not isinstance(off, int) or off >= 0 or not isinstance(stack_size, int) or -off > stack_size:
                    ok = False; msg = 'local %s has offset %r outside the frame of %r bytes' % (v.label, off, stack_size); break
                if off % al:
                    ok = False; msg = 'local %s (size %d, alignment %d) is placed at %d(%%rbp): misaligned relative to the 16-aligned frame base' % (v.label, sz, al, off); break
                homes.append((off, off + sz, v.label))
            for p, t in zip(box['params'], params):
                off = p.fields.get('offset')
                if isinstance(off, int) and off < 0:
                    from ..lib_abi import size_of
                    homes.append((off, off + size_of(t), p.label))
            homes.sort()
            for a, b in zip(homes, homes[1:]):
                if a[1] > b[0]:
                    ok = False; msg = 'objects %s [%d,%d) and %s [%d,%d) overlap in the frame' % (a[2], a[0], a[1], b[2], b[0], b[1])
            if ok and stack_size % 16:
                ok = False; msg = 'frame size %d is not a multiple of 16' % stack_size
            rep.ob('R04.5', key, ok, 'frame layout: %s' % msg, where=where, facts={'homes': homes, 'stack_size': stack_size})
            # the offsets are multiples of the alignment RELATIVE TO %rbp: the address is aligned only as far as the frame base is. The psABI makes
            # %rbp a multiple of 16 after `push %rbp; mov %rsp, %rbp`; more needs a realignment (`and $-N, ...`) of the base the locals are addressed from
            need = max([al for v, sz, al in objs] or [1])
            if ok and need > 16:
                bkey = '%s:emit_text:frame-base-alignment/locals-aligned-above-16' % U
                try:
                    from ..chibi import linearise
                    from ..x86 import Machine
                    nodes = linearise(tr)
                    cut = [i for i, n in enumerate(nodes) if n[0] == 'pseudo']
                    fin = Machine(raw_rsp=True).run(nodes[:cut[0]], lambda s: None, lambda s, n: None) if cut else []
                except Unknown as e:
                    rep.undecided('R04.5', bkey, str(e), where=where); continue
                if len(fin) != 1:
                    rep.undecided('R04.5', bkey, '%d paths through the prologue' % len(fin), where=where); continue
                base_al = _term_alignment(fin[0].reg['rbp'])
                big = [(v.label, al, v.fields.get('offset')) for v, sz, al in objs if al > base_al]
                rep.ob('R04.5', bkey, not big,
                       'a local with alignment %d is placed at %s(%%rbp), a multiple of %d below the frame base, but the prologue leaves the frame base %r only %d-aligned (the psABI guarantee after '
                       '`push %%rbp; mov %%rsp, %%rbp`; no realignment is emitted): `_Alignas(32)` / `_Alignas(64)` locals (and every type whose alignment exceeds 16) live at addresses that are multiples of 16 only'
                       % ((big[0][1], big[0][2], big[0][1], fin[0].reg['rbp'], base_al) if big else (0, 0, 0, None, 0)), where=where, facts={'prologue': tr.text()[:12], 'locals': big})


def r_alloca(cg, rep, rule='R04.7'):
    """alloca lowering: size rounded up to 16, the temporaries between %rsp and the alloca bottom are moved down by exactly that
    amount with a loop over the full 64-bit byte count, %rsp and the bottom pointer move by the same amount, the block address is returned.
    Decided for EVERY compile-time path through builtin_alloca (a path that is selected by generator state such as `depth` gets its own
    obligations, keyed by the decisions that select it)"""
    from ..chibi import Trace, linearise
    from ..x86 import Machine, norm_bin
    fnn = 'builtin_alloca'
    if fnn not in cg.cu.functions:
        rep.undecided(rule, '%s:%s' % (U, fnn), 'builtin_alloca vanished'); return
    where = '%s:%d' % (U, cg.cu.fn(fnn).line)
    it = cg.interp()

    def mk(ctx):
        ab = Obj('Obj', lazy=True, label='ab'); ab.fields['offset'] = Sym('aboff', 'int')
        fn = Obj('Obj', lazy=True, label='current_fn'); fn.fields['alloca_bottom'] = ab
        ctx.globals['current_fn'] = fn
        return []
    res = [(c, o) for c, o in it.explore(fnn, mk) if o[0] == 'ret']
    if not res:
        rep.undecided(rule, '%s:%s' % (U, fnn), 'no returning path', where=where); return
    if len(res) > 8:
        rep.undecided(rule, '%s:%s' % (U, fnn), '%d returning paths (more than 8 compile-time variants of the lowering)' % len(res), where=where); return
    tags = set()
    for ctx, out in res:
        if len(res) == 1:
            tag = ''
        else:
            tag = '/when[%s]' % ' && '.join(str(t) for t in ctx.trail) if ctx.trail else '/when[]'
            if tag in tags:
                rep.undecided(rule, '%s:%s%s' % (U, fnn, tag), 'two returning paths are selected by the same decisions', where=where); continue
            tags.add(tag)
        _alloca_path(cg, rep, rule, fnn, where, ctx, tag)


def _no_temporaries(ctx):
    """the decisions of this compile-time path imply depth == 0 (the generator's count of pending pushes: no temporaries lie between
    %rsp and the alloca bottom; framework contract proved by C18/C20 stack balance)"""
    for k, v in ctx.bounds.items():
        if k[0] == 'sym' and str(k[1]).rstrip('0123456789') == 'depth' and list(v) == [0, 0]:
            return True
    return False


def _alloca_path(cg, rep, rule, fnn, where, ctx, tag):
    from ..chibi import Trace, linearise
    from ..x86 import Machine, norm_bin
    K = '%s:%s%s' % (U, fnn, tag)
    tr = Trace(ctx)
    nodes = linearise(tr)
    try:
        finals = Machine(raw_rsp=True).run(nodes, lambda s: None, lambda s, n: None, max_paths=16)
    except Unknown as e:
        rep.undecided(rule, K, 'emitted code not interpretable: %s' % e, where=where); return
    facts = {'trace': tr.text(), 'path': list(ctx.trail)}
    RSP0 = ('init', 'rsp'); ARG = ('init', 'rdi')
    BOT = ('mem', 64, ('addr', ('init', 'rbp'), '{aboff}'))
    size_t = ext('zx', 32, 64, norm_bin('and', 32, lo(32, norm_bin('add', 64, ARG, C(15))), C(0xfffffff0)))
    count0 = ('bin', 'sub', 64, BOT, RSP0)
    newsp = norm_bin('sub', 64, RSP0, size_t)
    newbot = [norm_bin('sub', 64, BOT, size_t)]
    # paths: 0 iterations, 1 iteration, (2 iterations)
    by_iter = {}
    for s in finals:
        n = sum(1 for e in s.events if e[0] == 'branch' and not e[2])
        by_iter[n] = s
    straight = len(finals) == 1 and not any(e[0] == 'branch' for e in finals[0].events)
    if straight and tag:
        # a variant of the lowering without relocation loop: sound only where the generator knows that nothing is pending
        empty = _no_temporaries(ctx)
        rep.ob(rule, K + ':no-relocation-only-without-temporaries', empty,
               'on the compile-time path %r the pending temporaries between %%rsp and the alloca bottom are not relocated although the path does not establish depth == 0' % (list(ctx.trail),), where=where, facts=facts)
        if not empty:
            return
        s0 = finals[0]
        newbot.append(newsp)          # bottom == %rsp when nothing is pending
    else:
        rep.ob(rule, K + ':loop-has-exit-and-body', 0 in by_iter and 1 in by_iter, 'the relocation loop does not have both a zero-iteration and a one-iteration path (%r)' % sorted(by_iter), where=where, facts=facts)
        if 0 not in by_iter or 1 not in by_iter:
            return
        s0, s1 = by_iter[0], by_iter[1]
        # exit condition: full-width zero test of the remaining count
        c0 = canon([e for e in s0.events if e[0] == 'branch'][0][1])
        ok = c0 in (canon(('cmp', 'eq', 64, count0, C(0))),)
        rep.ob(rule, K + ':loop-counts-all-bytes', ok,
               'the loop that moves the pending temporaries stops when %r holds; it must run until the full 64-bit byte count (alloca bottom - %%rsp) is exhausted: with a narrower test, 256 or more bytes of temporaries are left behind' % (c0,), where=where, facts=facts)
        br = [e for e in s1.events if e[0] == 'branch']
        c1 = canon(br[1][1]) if len(br) > 1 else None
        rep.ob(rule, K + ':count-decrements-by-one', c1 == canon(('cmp', 'eq', 64, norm_bin('sub', 64, count0, C(1)), C(0))), 'after one byte the remaining count is tested as %r' % (c1,), where=where, facts=facts)
        st = s1.stores
        okc = len([x for x in st if x[1] == 8]) >= 1 and any(x[0] == ('addr', newsp, 0) and x[1] == 8 and x[2] == ('mem', 8, ('addr', RSP0, 0)) for x in st)
        rep.ob(rule, K + ':first-byte-moves-down-by-size', okc, 'the first pending byte is not copied from (%%rsp) to (%%rsp - rounded size): stores %r' % ([x[:3] for x in st][:3],), where=where, facts=facts)
    ok_rsp = s0.reg['rsp'] == newsp
    rep.ob(rule, K + ':rsp-moves-by-rounded-size', ok_rsp, '%%rsp becomes %r, expected %%rsp - ((size + 15) & ~15)' % (s0.reg['rsp'],), where=where, facts=facts)
    bs = [x for x in s0.stores if x[0] == ('addr', ('init', 'rbp'), '{aboff}')]
    okb = len(bs) == 1 and bs[0][1] == 64 and bs[0][2] in newbot and s0.reg['rax'] in newbot
    rep.ob(rule, K + ':bottom-moves-by-same-amount-and-is-returned', okb,
           'the alloca bottom pointer is updated to %r and %%rax is %r; both must be bottom - rounded size (the address of the new block): '
           'a later alloca()/VLA in the same function computes its block from the stale bottom and overlaps this one' % ([x[2] for x in bs], s0.reg['rax']), where=where, facts=facts)
    other = [x for x in s0.stores if x[0] != ('addr', ('init', 'rbp'), '{aboff}')]
    if straight and tag:
        rep.ob(rule, K + ':no-other-stores', not other, 'the variant without relocation writes memory other than the bottom pointer: %r' % ([x[:3] for x in other][:3],), where=where, facts=facts)


def r_alloca_bottom_init(cg, P, rep, rule='R04.7'):
    """the relocation of R04.7 measures the temporaries as (alloca bottom - %rsp): the hidden bottom slot must start out as %rsp after the
    frame has been allocated, i.e. exactly at the lowest byte of the frame (below every home), before the body runs"""
    from ..lib_abi import Builder
    from ..chibi import linearise
    from ..x86 import Machine
    from .c06 import run_callee
    B = Builder(P)
    where = '%s:%d' % (U, cg.cu.fn('emit_text').line if cg.cu.fn('emit_text') else 0)
    for tag, params, locs in (('plain', ['int'], [(24, 8, False)]), ('stack-params', ['long'] * 7 + ['s_l3'], [(3, 1, True), (17, 1, True)])):
        key = '%s:emit_text:alloca-bottom-starts-at-frame-bottom/%s' % (U, tag)
        try:
            box, offsets, stack_size, tr, s = run_callee(cg, B, params, extra_locals=locs)
            nodes = linearise(tr)
            cut = [i for i, n in enumerate(nodes) if n[0] == 'pseudo']
            if not cut:
                rep.undecided(rule, key, 'function body marker not found', where=where); continue
            fin = Machine(raw_rsp=True).run(nodes[:cut[0]], lambda s: None, lambda s, n: None)
        except Unknown as e:
            rep.undecided(rule, key, str(e), where=where); continue
        if len(fin) != 1:
            rep.undecided(rule, key, '%d paths through the prologue' % len(fin), where=where); continue
        f = fin[0]
        off = box['ab'].fields.get('offset')
        rbp = f.reg['rbp']
        bs = [x for x in f.stores if x[0] == ('addr', rbp, off)]
        frame_bottom = norm_bin('sub', 64, rbp, C(stack_size)) if isinstance(stack_size, int) else None
        ok = len(bs) == 1 and bs[0][1] == 64 and bs[0][2] == f.reg['rsp'] and f.reg['rsp'] == frame_bottom
        rep.ob(rule, key, ok, 'before the body runs the alloca bottom slot holds %r and %%rsp is %r; both must be %%rbp - frame size (%r): otherwise the first alloca()/VLA treats part of the frame as '
               'temporaries (or misses some) and its block overlaps live objects' % ([x[2] for x in bs], f.reg['rsp'], frame_bottom), where=where, facts={'trace': tr.text()[:14]})


def r_vla_size(P, rep):
    """a VLA object is allocated (and sizeof answered) from the hidden size variable of its type; compute_vla_size must, every time it is
    asked, produce code that assigns that variable = length * element size, inner dimensions first - whatever the type object already carries"""
    from ..interp import Interp
    from ..lib_types import Types
    rep.rule('R04.12', 'compute_vla_size: for every VLA dimension the returned expression assigns the type\'s size variable = vla_len * (element size | inner size variable), inner dimension first, on every call (also when the type was used before)', floor=4)
    pu = P.unit('parse.c')
    fn = 'compute_vla_size'
    if fn not in pu.functions:
        rep.undecided('R04.12', 'parse.c:%s' % fn, 'compute_vla_size vanished'); return
    where = 'parse.c:%d' % pu.fn(fn).line
    E = pu.enums
    T = Types(P)
    for depth in (1, 2):
        for stale in (False, True):
            key = 'parse.c:%s:%s/%s' % (fn, 'vla' if depth == 1 else 'vla-of-vla', 'type-used-before' if stale else 'first-use')
            it = Interp(P, pu, {'opaque': ['new_unique_name', 'error_tok'], 'rec_limit': 4, 'models': {'new_lvar': lambda it_, ctx, n, a: Obj('Obj', lazy=False, label=ctx.fresh('tmp'), fields={'ty': a[1], 'name': a[0]})}})
            box = {}

            def mk(ctx, depth=depth, stale=stale):
                it.ctx = ctx
                el = T.make(it, 'int')
                tys = []
                base = el
                for d in range(depth):
                    t = Obj('Type', lazy=False, label='vla%d' % d)
                    t.fields.update({'kind': E['TY_VLA'], 'size': 8, 'align': 8, 'base': base, 'vla_len': Obj('Node', lazy=False, label='len%d' % d, fields={'kind': E['ND_VAR']}),
                                     'vla_size': Obj('Obj', lazy=False, label='stale%d' % d, fields={'name': ''}) if stale else 0})
                    tys.append(t); base = t
                box['tys'] = tys
                return [tys[-1], Obj('Token', lazy=True, label='tok')]
            outs = [out[1] for ctx, out in it.explore(fn, mk) if out[0] == 'ret']
            if len(outs) != 1:
                rep.undecided('R04.12', key, '%d returning paths' % len(outs), where=where); continue
            # evaluation-order list of assignments in the comma tree
            seq = []

            def walk(n, d=0):
                n = it.settle(n) if isinstance(n, View) else n
                if not isinstance(n, Obj) or d > 30:
                    return
                k = n.fields.get('kind')
                if k == E['ND_COMMA']:
                    walk(n.fields.get('lhs'), d + 1); walk(n.fields.get('rhs'), d + 1)
                elif k == E['ND_ASSIGN']:
                    seq.append(n)
            walk(outs[0])
            tys = box['tys']
            msgs = []
            if len(seq) != len(tys):
                msgs.append('the expression contains %d size assignments for %d variable dimensions: a dimension whose size variable is not (re)computed here keeps whatever an earlier - possibly never executed - declaration stored' % (len(seq), len(tys)))
            else:
                for i, (a, t) in enumerate(zip(seq, tys)):
                    lhs = a.fields.get('lhs'); rhs = a.fields.get('rhs')
                    v = lhs.fields.get('var') if isinstance(lhs, Obj) and lhs.fields.get('kind') == E['ND_VAR'] else None
                    fin = t.fields.get('vla_size')
                    if v is None or v is not fin:
                        msgs.append('assignment %d does not store to the size variable its type ends up with' % (i + 1)); continue
                    if not (isinstance(rhs, Obj) and rhs.fields.get('kind') == E['ND_MUL'] and rhs.fields.get('lhs') is t.fields['vla_len']):
                        msgs.append('the size of dimension %d is not vla_len * element size' % (i + 1)); continue
                    r = rhs.fields.get('rhs')
                    if i == 0:
                        okr = isinstance(r, Obj) and r.fields.get('kind') == E['ND_NUM'] and r.fields.get('val') == 4
                    else:
                        okr = isinstance(r, Obj) and r.fields.get('kind') == E['ND_VAR'] and r.fields.get('var') is tys[i - 1].fields.get('vla_size')
                    if not okr:
                        msgs.append('dimension %d is not scaled by %s' % (i + 1, 'sizeof(element)' if i == 0 else 'the size variable of the inner dimension'))
            rep.ob('R04.12', key, not msgs, '; '.join(msgs), where=where)


def _layout_summaries(P):
    """C08's summary of the layout step of struct_decl and union_decl (one run, shared by R04.11 / R04.16 / R04.19)"""
    from ..report import Report
    from . import c08
    pu = P.unit('parse.c')
    sub = Report('C08')
    sub.rule('R08.3', '', 1)
    for fname, union in (('struct_decl', False), ('union_decl', True)):
        try:
            c08.layout_fn(P, pu, sub, fname, union)
        except AnalysisBroken as e:
            sub.undecided('R08.3', 'parse.c:%s:layout' % fname, 'analysis could not proceed: %s' % e)
    return sub


def _initializer_report(P):
    """all of C05 (one run, shared by R04.16 / R04.21); an exception instead of a report when the rules could not be run"""
    from ..report import Report
    from . import c05
    sub5 = Report('C05')
    try:
        c05.run(P, sub5, 'quick')
    except Exception as e:
        return e
    return sub5


def r_bitfield_unit(P, rep, sub=None, sub5=None):
    """the bit-field accessors load and store one unit of the declared type at member->offset (R04.2/R04.3); that designates the field's
    bits only if the layout puts [bit_offset, bit_offset+bit_width) inside that unit. Decided on C08's summary of the struct layout step
    (struct_decl interpreted per member class, evaluated on the layout grid)"""
    rep.rule('R04.11', 'struct layout keeps every bit-field inside the storage unit the code generator accesses: 0 <= bit_offset and bit_offset + bit_width <= 8 * sizeof(declared type), packed or not', floor=2)
    if sub is None:
        sub = _layout_summaries(P)
    if sub5 is None:
        sub5 = _initializer_report(P)
    n = 0
    # the same summary also says what sizeof is: objects of the type are laid out sizeof apart (arrays, adjacent locals), so the final size must be
    # the extent rounded up to the alignment, packed or not
    from ..report import reissue
    rep.rule('R04.16', 'object extent: the final size of a struct is its members\' extent rounded up to the struct\'s alignment (also for packed + aligned), and an object completed by a flexible-array initialiser is at least sizeof(struct) and covers the initialised elements (shared with C08 R08.3 final-size and C05 R05.9)', floor=3)
    reissue(rep, 'R04.16', sub, 'neighbouring objects would overlap or be misaligned: ', keep=lambda o: ':final-size' in o['key'])
    if isinstance(sub5, Exception):
        rep.undecided('R04.16', 'parse.c:initializer:flexible-struct-size', 'C05 rules could not be run: %s' % sub5)
    else:
        reissue(rep, 'R04.16', sub5, 'the object is smaller than the bytes its type designates: ', keep=lambda o: o['key'].startswith('R05.9:'))
    for o in sub.obs:
        if o['key'].endswith('/unit-fit'):
            n += 1
            key = o['key'].split(':', 1)[1]
            if o['verdict'] == 'undecided':
                rep.undecided('R04.11', key, o['what'], where=o['where'])
            else:
                rep.ob('R04.11', key, o['verdict'] == 'holds', o['what'], where=o['where'], facts=o['facts'])
    if n == 0:
        rep.undecided('R04.11', 'parse.c:struct_decl:unit-fit', 'the struct layout step could not be summarised for bit-field members (see C08 R08.3)')


LAYOUT_GROUPS = ('/placement', '/union-size', '/type-align')


def r_members_inside(P, rep, sub):
    """R04.19: `s.m` is the bytes [offset, offset + sizeof m) of s (R04.4) - they are bytes of s, and of no other member, only if every layout step
    puts the member behind what is already used, at a multiple of its alignment, and makes the aggregate's running size and alignment cover it.
    C08 R08.3 decides exactly that per member class (plain, _Alignas, anonymous struct/union, named / unnamed / zero-width bit-field; packed or
    not) for struct_decl and union_decl on the layout grid; its step obligations are re-issued here (the bit-field unit is R04.11, the rounding
    of the final size R04.16)."""
    from ..report import reissue
    rep.rule('R04.19', 'every member lies inside its aggregate and beside the other members: each step of struct_decl / union_decl places the member at or behind the bytes used so far, '
                       'aligned to its own (possibly _Alignas-raised) alignment, and raises the running size (union: to at least the member\'s size) and the alignment of the aggregate to cover it - '
                       'for every member class, anonymous struct/union members included; a complete type always reaches the layout loop (shared with C08 R08.3)', floor=60)
    n = reissue(rep, 'R04.19', sub, 'a member access would reach outside the object or into another member: ',
                keep=lambda o: o['key'].endswith(LAYOUT_GROUPS) or ':entry' in o['key'] or o['verdict'] == 'undecided' and not o['key'].endswith('/unit-fit') and ':final-size' not in o['key'])
    if n == 0:
        rep.undecided('R04.19', 'parse.c:struct_decl:layout', 'C08 R08.3 produced no layout-step obligation')


STATIC_HOME = (':align/', ':placement/', ':in-section/', ':symbol-size/common')


def r_static_home(cg, rep):
    """R04.20: the counterpart of R04.5 for objects with static storage duration: emit_data gives the object a home of exactly sizeof bytes at an
    address that satisfies the object's own alignment (Obj.align, which carries _Alignas - R04.18), at least 16 for arrays of 16 bytes or more.
    Decided by C15 R15.1 on every class of emitted object (.data/.bss/.tdata/.tbss/.comm); re-issued."""
    from ..report import Report, reissue
    from . import c15
    rep.rule('R04.20', 'static storage: every defined object is emitted under exactly one label, reserves exactly the size of its type (.zero / the data image / the .comm size operand) and is aligned '
                       'by a directive in its own section (or the .comm operand) to the OBJECT\'s alignment - the declared one, max(16, that) for arrays of at least 16 bytes (shared with C15 R15.1)', floor=10)
    sub = Report('C15')
    try:
        c15.r151(cg, sub)
    except AnalysisBroken as e:
        rep.undecided('R04.20', 'codegen.c:emit_data:static-home', 'C15 R15.1 could not be run: %s' % e); return
    except Exception as e:
        rep.undecided('R04.20', 'codegen.c:emit_data:static-home', 'C15 R15.1 could not be run: %s' % e); return
    n = reissue(rep, 'R04.20', sub, 'the object does not live at an address / in a block that fits its declaration: ', keep=lambda o: any(g in o['key'] for g in STATIC_HOME))
    if n == 0:
        rep.undecided('R04.20', 'codegen.c:emit_data:static-home', 'C15 R15.1 produced no placement / alignment obligation')


def _init_designation(o):
    k = o['key']
    if k.startswith('R05.4:'):
        return True                                                   # static bit-field: unit address, unit width, mask, shift
    if k.startswith('R05.1:'):
        # the sub-object each back end descends into / assigns to: element i at i * sizeof(element), member at its offset, the chosen union member
        # (an aggregate-valued initializer expression: only the copy of an already computed image - destination, length, shifted relocations)
        return any(f in k for f in (':write_gvar_data:', ':create_lvar_init:', ':init_desg_expr:')) and ('-valued-initializer' not in k or '/image-cop' in k)
    if k.startswith('R05.2:'):
        return ':write_gvar_data:scalar' in k or ':create_lvar_init:scalar' in k      # address and width of the store of a scalar sub-object
    if k.startswith('R05.7:'):
        return ':write_gvar_data:relocation' in k                      # an address constant is recorded at the sub-object's offset
    if k.startswith('R05.3:'):
        return ':gvar_initializer:image' in k or 'root-designator' in k or 'final-type' in k
    if k.startswith('R05.5:'):
        return k.endswith(':walk')                                     # image byte i / relocation at offset i is emitted at offset i of the object
    return False


def r_init_designation(P, rep, sub5):
    """R04.21: an initialiser is a sequence of stores to sub-objects; each must designate exactly the bytes (bits) of ITS sub-object relative to the
    start of the object being initialised at that level: buf + offset (+ member offset | + i * element size) in the static back end, the
    designator chain var / .member / [i] in the automatic one. Decided by C05 (R05.1 positions, R05.2 scalar stores, R05.4 bit-field merge, R05.7
    relocation offset, R05.3 image/root, R05.5 image walk); re-issued."""
    from ..report import reissue
    rep.rule('R04.21', 'initialiser stores designate their sub-object: both back ends reach element i at i * sizeof(element) and a member at its offset FROM THE ENCLOSING sub-object (static: buf + offset + ..., '
                       'automatic: designator chain ending in the variable), a scalar is stored with exactly its width there, a static bit-field is merged into the unit at buf + offset + member offset '
                       'with the unit\'s width, an address constant is recorded at the sub-object\'s offset, the image starts at offset 0 and is emitted byte for byte (shared with C05 R05.1-R05.5, R05.7)', floor=34)
    if isinstance(sub5, Exception):
        rep.undecided('R04.21', 'parse.c:write_gvar_data:designation', 'C05 rules could not be run: %s' % sub5); return
    n = reissue(rep, 'R04.21', sub5, 'an initialising store goes to other bytes than those of the sub-object it initialises: ', keep=_init_designation)
    if n == 0:
        rep.undecided('R04.21', 'parse.c:write_gvar_data:designation', 'C05 produced no obligation about the position of initialising stores')


def r_single_eval(P, rep):
    """R04.6: the lvalue operand of op= / ++ / -- designates ONE object: it is evaluated once (C11 6.5.16.2p3, 6.5.2.4p2). The clause is decided by
    C03's R03.10 (every operand tree a lowering got is linked at most once into the tree it returns); its obligations for the lowerings of compound
    assignment and increment are re-issued here. Only those lowerings are explored (the whole of R03.10 takes ~10 s)."""
    from ..report import Report, reissue
    from . import c03
    rep.rule('R04.6', 'single evaluation of the lvalue of a compound assignment / increment: the tree to_assign(), new_inc_dec() and assign() return links the operand that designates the object '
                      'at most once (A op= B becomes tmp = &A, *tmp = *tmp op B); an operand reachable twice is evaluated twice and the store may go to another object than the load (shared with C03 R03.10)', floor=3)
    FNS = ('to_assign', 'new_inc_dec', 'assign')
    sub = Report('C03')
    pu = P.unit('parse.c')
    for f in FNS:
        if f not in pu.functions:
            rep.undecided('R04.6', 'parse.c:%s' % f, '%s vanished' % f); return
    # the lowerings may delegate to helpers that build the tree (to_assign -> to_assign2): every tree-returning callee of the two lowering functions
    # that takes a tree and is not a plain node constructor is a lowering as well
    try:
        _plain = set(c03._plain_constructors(pu))
    except Exception:
        _plain = set()
    extra = []
    for f in ('to_assign', 'new_inc_dec'):
        for c in pu.fn(f).calls():
            cal = c.callee()
            fd = pu.functions.get(cal) if cal else None
            if fd is None or cal in FNS or cal in extra or cal in _plain or cal.startswith('new_') or cal == 'add_type':
                continue
            rt = (fd.type or '').split('(')[0].strip()
            takes_tree = any((pp.type or '').startswith('Node *') for pp in fd.inner if pp.kind == 'ParmVarDecl')
            if rt.startswith('Node *') and takes_tree:
                extra.append(cal)
    FNS = FNS + tuple(extra)
    try:
        lowering_paths, links, plain_of, pure = c03.lowering_paths, c03._operand_links, c03._plain_constructors, c03.PURE_LEAVES
    except AttributeError:
        lowering_paths = None
    if lowering_paths is None:
        # the helpers of C03 were renamed: run the whole rule (slower, same obligations)
        try:
            if hasattr(c03, 'r03a'):
                c03.r03a(P, sub)
            else:
                c03.run(P, sub, 'quick')
        except Exception as e:
            rep.undecided('R04.6', 'parse.c:to_assign:tree', 'C03 R03.10 could not be run: %s' % e); return
    else:
        import re as _re
        NK = {v: k for k, v in pu.enums.items() if k.startswith('ND_')}
        plain = plain_of(pu)
        sub.rule('R03.10', '', 1)
        for fname in FNS:
            where = 'parse.c:%d' % pu.fn(fname).line
            try:
                it, paths = lowering_paths(P, pu, fname, plain)
            except AnalysisBroken as e:
                sub.undecided('R03.10', 'parse.c:%s:tree' % fname, 'the lowering is not interpretable: %s' % e, where=where); continue
            n = 0
            for ctx, root, consumed in paths:
                it.ctx = ctx
                count, names, kinds, cut = links(it, root, consumed, NK)
                if cut:
                    sub.undecided('R03.10', 'parse.c:%s:tree' % fname, 'the built tree is too large to walk', where=where); continue
                n += 1
                shared = [i for i, c in count.items() if c > 1 and not (kinds.get(i) and kinds[i] <= set(pure))]
                what = sorted(set(_re.sub(r'#\d+', '', names[i]) for i in shared))
                sub.ob('R03.10', 'parse.c:%s:operands-linked-once' % fname, not shared,
                       '%s() returns a tree in which the operand %s is reachable along %d links: the code generator evaluates it once per link, so its side effects happen more than once and the '
                       'object read and the object written may differ' % (fname, ', '.join(what), max([count[i] for i in shared] or [0])), where=where, facts={'path': ctx.trail[-8:]})
            if n == 0:
                sub.undecided('R03.10', 'parse.c:%s:tree' % fname, 'no returning path builds a tree', where=where)
    keys = tuple('R03.10:parse.c:%s:' % f for f in FNS)
    n = reissue(rep, 'R04.6', sub, 'the lvalue of op= / ++ / -- is evaluated more than once: ', keep=lambda o: o['key'].startswith(keys))
    if n == 0:
        rep.undecided('R04.6', 'parse.c:to_assign:tree', 'C03 R03.10 produced no obligation for the lowerings of compound assignment')


def r_alignas_reaches_object(P, rep):
    """R04.18: an object lives at an address that satisfies its DECLARED alignment: the _Alignas of a declaration must reach the object (Obj.align /
    Member.align) at every declaration site - locals, static locals, globals, members - because frame layout (R04.5), .data emission and struct
    layout place the object by that field. Decided by C08 R08.4 (alignas/*); re-issued here."""
    from ..report import Report, reissue
    from . import c08
    rep.rule('R04.18', 'declared alignment reaches the object: at every declaration site (local, static local, global, member, anonymous member) an _Alignas specifier ends up in the align field the '
                       'layout code places the object by, and without a specifier the type\'s alignment does; the value declspec() records for the specifiers of one declaration - '
                       '_Alignas(type-name) or _Alignas(constant), one or several, in either order - is the strictest of them (C11 6.7.5p6) (shared with C08 R08.4)', floor=8)
    sub = Report('C08')
    try:
        if hasattr(c08, 'r084'):
            c08.r084(P, P.unit('parse.c'), sub)
        else:
            c08.run(P, sub, 'quick')
    except AnalysisBroken as e:
        rep.undecided('R04.18', 'parse.c:declaration:alignas', 'C08 R08.4 could not be run: %s' % e); return
    except Exception as e:
        rep.undecided('R04.18', 'parse.c:declaration:alignas', 'C08 R08.4 could not be run: %s' % e); return
    n = reissue(rep, 'R04.18', sub, 'the object is placed by an alignment other than the declared one: ', keep=lambda o: o['key'].startswith('R08.4:') and ':alignas' in o['key'])
    if n == 0:
        rep.undecided('R04.18', 'parse.c:declaration:alignas', 'C08 R08.4 produced no alignas obligation')
    # the value that travels: what declspec() leaves in VarAttr.align for every form and combination of alignment specifiers (C08 R08.4 compares the
    # path summaries of declspec() with max() of the specifiers' alignments on a grid)
    spec = Report('C08')
    spec.rule('R08.4', '', 1)
    f = getattr(c08, 'r084_alignas_specifier', None)
    skey = 'parse.c:declspec:alignas-specifier'
    if f is None:
        rep.undecided('R04.18', skey, 'C08 R08.4 (alignment specifiers of declspec) is not available under its name any more'); return
    try:
        f(P, P.unit('parse.c'), spec)
    except Exception as e:
        rep.undecided('R04.18', skey, 'C08 R08.4 (alignment specifiers of declspec) could not be run: %s' % e); return
    n = reissue(rep, 'R04.18', spec, 'simultaneously live objects (and the members of a struct) are placed by a weaker alignment than the declaration asks for: ',
                keep=lambda o: ':declspec:' in o['key'])
    if n < 5:
        rep.undecided('R04.18', skey, 'C08 R08.4 produced %d obligations about the alignment declspec() records (one per specifier form and combination expected)' % n)


def r_one_object_one_extent(P, cg, rep):
    """R04.25: several file-scope declarations of one array denote ONE object; the storage emit_data reserves for it is that of the surviving Obj,
    while every lvalue a[i] in the unit is typed by the scope entry of the latest declaration. Both agree only if the survivor of scan_globals
    carries the composite type (C11 6.2.7p3), or one element when the type is still incomplete at the end of the unit (6.9.2p5). Decided by C15 R15.5
    (scan_globals evaluated on concrete declaration lists with complete / incomplete array types); re-issued."""
    from ..report import Report, reissue
    from . import c15
    rep.rule('R04.25', 'one object, one extent: of several tentative definitions of a file-scope array exactly the one that reaches emit_data has the composite type - `int a[]; int a[5];` and '
                       '`int a[5]; int a[];` in any mix reserve 5 elements, an array still incomplete at the end of the unit one element - so that the bytes a[i] designates are bytes of the '
                       'emitted object (shared with C15 R15.5 array-type/*)', floor=2)
    key = 'parse.c:scan_globals:array-type'
    f = getattr(c15, 'r155_merge', None)
    if f is None or not hasattr(c15, 'ParseEnv'):
        rep.undecided('R04.25', key, 'C15 R15.5 (merging of tentative definitions) is not available under its name any more'); return
    sub = Report('C15')
    sub.rule('R15.5', '', 1)
    try:
        f(c15.ParseEnv(P, cg), sub)
    except Exception as e:
        rep.undecided('R04.25', key, 'C15 R15.5 could not be run: %s' % e); return
    n = reissue(rep, 'R04.25', sub, 'the object is emitted with fewer bytes than its lvalues designate (the elements beyond lie in the neighbouring objects): ',
                keep=lambda o: ':array-type/' in o['key'] or (o['verdict'] == 'undecided' and 'merge/evaluation' in o['key']))
    if n == 0:
        rep.undecided('R04.25', key, 'C15 R15.5 produced no obligation about the type of the surviving array definition')


def r_type_objects_stay(P, rep, sub5):
    """R04.26: sizeof(T), the bytes `*p = *q` copies, the member offsets and array strides are all read from the Type / Member objects; an object is
    allocated (frame home, .data image, flexible-array tail) from the value these had at ITS declaration. They designate the object's bytes only
    as long as no later code rewrites a Type/Member object that other declarations share (the tag's type, a typedef, a member list that copy_type
    leaves shared with the original). Decided by C08 R08.6 (ownership analysis); the obligations are taken from the C05 run C04 already
    makes (R05.18 re-issues all of them), or from C08 directly."""
    from ..report import Report
    rep.rule('R04.26', 'the type an object was declared with keeps its extent: a function stores into a Type/Member object (size, align, members, next, ty, offset, array_len, base, ...) only if that '
                       'activation created it or it is the tag type being completed - a private, enlarged copy of a struct (flexible-array initialiser) duplicates every member it relinks or '
                       'retypes; otherwise sizeof / struct assignment through the shared type cover other bytes than the objects already allocated with it (shared with C08 R08.6)', floor=30)
    why = 'objects already declared with the type no longer have the bytes their lvalues designate (sizeof, `*dst = *src`, member offsets change under them): '
    obs = []
    if not isinstance(sub5, Exception):
        for o in sub5.obs:
            k = o['key']
            i = k.find(':R08.6/')
            if i > 0 and o['verdict'] != 'known-finding':
                obs.append((k[i + 1:], o))
    if not obs:
        from . import c08
        sub = Report('C08')
        try:
            c08.r086(P, P.unit('parse.c'), sub)
        except Exception as e:
            rep.undecided('R04.26', 'parse.c:scope:type-object-ownership', 'C08 R08.6 could not be run: %s' % e); return
        obs = [(o['key'].replace(':', '/', 1), o) for o in sub.obs if o['key'].startswith('R08.6:') and o['verdict'] != 'known-finding']
    for key, o in obs:
        if o['verdict'] == 'undecided':
            rep.undecided('R04.26', key, o['what'], where=o['where'])
        else:
            what = o['what']
            j = what.find(': ')
            rep.ob('R04.26', key, o['verdict'] == 'holds', why + (what[j + 2:] if what.startswith('a later object declared') and j > 0 else what), where=o['where'], facts=o['facts'])
    if not obs:
        rep.undecided('R04.26', 'parse.c:scope:type-object-ownership', 'C08 R08.6 produced no ownership obligation')


def run(P, rep, tier):
    cg = wrap(CG(P))
    rep.explanation = ('Address/width/mask arithmetic of every lvalue form, decided as formulas: the code generator is abstractly interpreted on abstract nodes whose layout fields '
                       '(offset, bit_width, bit_offset) are symbols; the emitted templates are evaluated by the term-level machine and the resulting loads, stores, shift counts '
                       'and masks are compared with the formulas C11/psABI prescribe. Member lookup is decided by interpretation of get_struct_member. '
                       'R04.17 decides by an origin analysis over the typed AST of parse.c (flow-insensitive, calls substituted, parameters resolved at the call sites) that the hidden frame '
                       'object a lowering attaches to a tree is never one taken from persistent parser state, so that two live sites never share bytes; it does not decide liveness itself. '
                       'R04.6 and R04.18 re-issue the clauses of C03 R03.10 (single evaluation of the op= lvalue) and C08 R08.4 (_Alignas reaches the object). '
                       'R04.19 (members inside the aggregate: C08 R08.3 layout steps of struct_decl and union_decl), R04.20 (home of static-storage objects: size and alignment emitted by emit_data, C15 R15.1) and '
                       'R04.21 (initialising stores designate their sub-object relative to the enclosing one, C05 R05.1-R05.5/R05.7) re-issue the clauses of those properties that state where an object or sub-object lives. '
                       'R04.25 (merged tentative array definitions reserve the composite type, C15 R15.5) and R04.26 (no store into a shared Type/Member object, C08 R08.6) re-issue the clauses that keep the '
                       'extent of an object and the extent its lvalues are typed with the same; R04.27 evaluates struct_members() on concrete bit-field widths (the range the accessor and layout rules assume '
                       'is enforced by a diagnostic); R04.28 evaluates declaration() on two declarators that share one variably modified type object. '
                       'R04.29 runs the sequence emitted for ND_MEMZERO (rep stos and plain stores) on a grid of concrete objects - size, object alignment, type alignment, offset - and compares the set of '
                       'zeroed bytes with the object\'s home; R04.30 stamps every read of program memory in the code of an assignment / compare-and-swap with the number of operand evaluations before it: a value '
                       'read before an operand is generated must not reach a store or the result; R04.31 evaluates global_variable() on a redeclaration of a file-scope array and looks at the type of the Obj the '
                       'name denotes afterwards; R04.32 evaluates parse_typedef() on a VLA declarator and then compute_vla_size() on the type bound to the typedef name: the length expression must not be reachable again.')
    rep.assumptions += ['gen_addr of a child leaves its address in %rax (contract, proved per kind by R04.4)', 'host arithmetic on layout fields is tracked as 64-bit unless the C type of the expression is narrower']
    r_load_store(cg, rep)
    r_aggregate_value(cg, rep)
    r_bitfield(cg, rep)
    r_read_after_operands(cg, rep)
    r_copy_loops(cg, rep)
    r_addr(cg, rep)
    r_member_lookup(P, rep)
    r_frame(cg, P, rep)
    rep.rule('R04.7', 'alloca: size rounded to 16, pending temporaries relocated byte for byte over the full count, %rsp and the bottom pointer move together, block address returned; the bottom pointer starts at the frame bottom', floor=7)
    r_alloca(cg, rep)
    r_alloca_bottom_init(cg, P, rep)
    sub8 = _layout_summaries(P)
    sub5 = _initializer_report(P)
    r_bitfield_unit(P, rep, sub8, sub5)
    r_members_inside(P, rep, sub8)
    from ..lib_c04_decl import r_bitfield_unit_inside
    r_bitfield_unit_inside(P, rep, 'R04.11')
    r_static_home(cg, rep)
    r_init_designation(P, rep, sub5)
    r_vla_size(P, rep)
    from ..lib_types import r_pointer_scaling
    rep.rule('R04.10', 'element addresses: p+n / p[n] / p-n scale the index by the element size in 64-bit arithmetic (shared with R01.3)', floor=9)
    r_pointer_scaling(P, rep, 'R04.10')
    from ..lib_c04 import r_vla_arith
    rep.rule('R04.13', 'element addresses of variably modified types: p+n / n+p / p-n with p pointing to (or decaying to a pointer to) a variable-length row scale n by the hidden size variable of exactly that row type, never by the 8-byte placeholder size; a 1-D VLA steps by its constant element size; p-q divides the byte difference by the same factor', floor=20)
    r_vla_arith(P, rep, 'R04.13')
    from ..lib_c04 import r_zero_fill
    rep.rule('R04.14', 'a block-scope object (declared local or compound literal) with an initializer is zero-filled as a whole before its assignment chain runs, for every class whose initializer can leave bytes unmentioned: array, struct and union', floor=6)
    r_zero_fill(P, rep, 'R04.14')
    from ..lib_c04_order import r_zero_fill_extent
    rep.rule('R04.29', 'the zero fill of a block-scope object covers exactly the object: for every size, object alignment (Obj.align, which _Alignas and the 16-byte array rule raise above the '
                       'type\'s) and type alignment the sequence gen_expr emits for ND_MEMZERO writes zero to each of the bytes [offset, offset + sizeof) of the home and to no other byte '
                       '(rep stos and plain stores evaluated on a grid of concrete objects)', floor=30)
    r_zero_fill_extent(cg, rep, 'R04.29')
    from ..lib_c04 import r_vla_object
    rep.rule('R04.15', 'a declared VLA object designates a block of exactly the run-time size of its type: the declaration computes the size variable first, allocates that many bytes and stores the block address in the hidden pointer of the new variable', floor=2)
    r_vla_object(P, rep, 'R04.15')
    r_single_eval(P, rep)
    from ..lib_c04_sites import r_site_objects, r_lvar_registered, r_frame_twins
    rep.rule('R04.17', 'the hidden object of a lowering belongs to one site: the object attached to a tree (Node.ret_buffer of an aggregate-valued call, Node.var of the temporaries of op= / ?: / compound '
                       'literals, Type.vla_size) is created by that evaluation of the lowering, named by the program (scope lookup) or handed in - never a frame object taken from the parser\'s persistent '
                       'state (list of locals, static/global cache, lazily filled field); Node.ret_buffer is always a new frame object; new_lvar() registers every object it creates and the frame gives '
                       'look-alike hidden objects (same empty name, same Type) disjoint homes', floor=12)
    r_site_objects(P, rep, 'R04.17')
    r_lvar_registered(P, rep, 'R04.17')
    r_frame_twins(cg, P, rep, 'R04.17')
    r_alignas_reaches_object(P, rep)
    from ..lib_c04_decl import r_align_frame, r_member_not_vla, r_constant_bound
    rep.rule('R04.22', 'the alignment a declaration gave an object stays: Obj.align / Member.align is written by the code that creates the object, by a store of the declared value (VarAttr.align) or by a '
                       'raise-only update; a function that is handed the finished object (initialiser parsing, code generation) never overwrites it (frame condition of R04.18, whose interpretation of the '
                       'declaration sites cuts those functions away)', floor=4)
    r_align_frame(P, rep, 'R04.22')
    rep.rule('R04.23', 'no member of a struct/union has a variable-length array type: struct_members() diagnoses a declarator that yields one (C11 6.7.2.1p9) - the layout places members by Type.size, which for '
                       'a VLA type is only the placeholder of its hidden pointer', floor=1)
    r_member_not_vla(P, rep, 'R04.23')
    rep.rule('R04.24', 'an array declared with an integer constant expression as bound gets a fixed-size array type of bound * sizeof(element) bytes: the predicate array_dimensions() asks accepts the constant '
                       'expressions the compiler\'s own <stddef.h> produces for offsetof, array elements and nested designators included (shared with C08 R08.5)', floor=3)
    r_constant_bound(P, rep, 'R04.24')
    r_one_object_one_extent(P, cg, rep)
    from ..lib_c04_order import r_redeclared_array_extent
    rep.rule('R04.31', 'one object, one extent, also for the lvalues: after a file-scope array has been declared again, the Obj the scope maps the name to has the composite type - '
                       '`int a[5]; int a[];` leaves sizeof a == 20 (the type of every later lvalue `a`), as `int a[]; int a[5];` does (global_variable() evaluated on a scope that already has the name)', floor=3)
    r_redeclared_array_extent(P, rep, 'R04.31')
    r_type_objects_stay(P, rep, sub5)
    from ..lib_c04_decl import r_bitfield_width
    rep.rule('R04.27', 'a bit-field reaches the layout and the accessors only with a width they are sound for: struct_members() diagnoses a width that is negative, that exceeds the bits of the declared '
                       'type, or that is zero for a named member (C11 6.7.2.1p4), and accepts every other width - R04.1/R04.2 (shift counts 64-w-o, masks (1<<w)-1, one unit of the declared type) and '
                       'the layout step (R04.11 unit-fit, R04.19) are decided for 1 <= w <= 8*sizeof(type) only', floor=4)
    r_bitfield_width(P, rep, 'R04.27')
    from ..lib_c04 import r_vla_size_stays
    rep.rule('R04.28', 'the hidden size variable a VLA object was allocated by stays the one its type carries: when the declaration specifiers denote one variably modified Type object for several '
                       'declarators (typedef name, typeof), no later declarator rebinds Type.vla_size of the type - at any dimension - that an earlier object of the declaration already uses '
                       '(sizeof x and the strides of x[i] / p + n read it, R04.13; the block was allocated from it, R04.15)', floor=3)
    r_vla_size_stays(P, rep, 'R04.28')
    from ..lib_c04_typedef import r_typedef_vla_extent
    rep.rule('R04.32', 'the extent of an object declared through a typedef name of a variable-length array type is fixed when the typedef is reached (C11 6.7.8p8): the size computation a later '
                       'declaration / sizeof evaluates for the type bound to the typedef name (compute_vla_size) does not reach the typedef\'s length expressions again, at any dimension', floor=2)
    r_typedef_vla_extent(P, rep, 'R04.32')
    from ..lib_c04_abi import r_param_home, r_result_object
    rep.rule('R04.33', 'a parameter lvalue designates the bytes the caller stored: for every parameter class, with the registers free and exhausted and behind an even and an odd number of 8-byte '
                       'stack slots, assign_lvar_offsets() gives a parameter passed in memory the offset 16(%rbp) + its psABI position in the argument area (aligned to max(8, alignment of the type), as the caller '
                       'pads it) and a register parameter a home inside the frame that the prologue fills byte for byte from its registers; homes are disjoint (same judgement as C06 R06.7)', floor=150)
    r_param_home(cg, P, rep, 'R04.33')
    rep.rule('R04.34', 'the object a call of aggregate type designates holds the returned value: each eightbyte is stored from the register psABI 3.2.3 returns it in (rax/rdx, xmm0/xmm1 counted per class, '
                       '%st(0)), only bytes of the result object are written - also for sizes that are not a multiple of 8 - and the callee side loads exactly the bytes of the returned object '
                       '(same judgement as C06 R06.5)', floor=100)
    rep.rule('R04.35', 'a copy into an object writes exactly the bytes [0, size) of it: the copy `return v;` emits for an aggregate returned in memory, judged by the bytes its stores write (any store widths), '
                       'gives byte i of the caller\'s object byte i of the source for every i in [0, size) and writes no other byte, for sizes that are and are not multiples of 8', floor=12)
    r_result_object(cg, P, rep, 'R04.34', 'R04.35')
