"""C05 Initializers produce exactly the object value of C11 6.7.9 (DESIGN.md §3 C05).

Both initializer back ends of parse.c (create_lvar_init: assignment chain, write_gvar_data: byte image
+ relocations) are abstractly interpreted once per type class on an abstract Initializer/Type, with the
recursive call cut and recorded (structural induction over the initializer tree).  The recorded
sub-object visits, stores and cursor flow are compared with the oracle of C11 6.7.9 and with each other.
"""
from ..interp import Interp, Obj, Sym, Term, Lin, View, Cell, is_opaque, vkey, _Ref, int_type, FieldPlace
from ..chibi import Catalogue, type_cell, cat_of, INT_CATS
from ..build import AnalysisBroken
from ..lib_c05 import (TInterp, ctype_bits, settle, lin_eq, lin_diff, lsum, lscale, field, is_null, strip_cast, show,
                       children_hook, child_index)

U = 'parse.c'
SCALARS = INT_CATS + ('float', 'double', 'ldouble', 'ptr')
FLOATS = {'float': 'float', 'double': 'double', 'ldouble': 'long double'}


def _w(u, fn):
    f = u.fn(fn)
    return '%s:%d' % (u.name, f.line if f else 0)


def _need(u, *fns):
    for f in fns:
        if f not in u.functions:
            raise AnalysisBroken('anchor function %s vanished from %s' % (f, u.name))


def same(it, a, b):
    """same abstract value (object identity, same cell, or equal linear terms)"""
    if isinstance(a, View) and isinstance(b, View) and a.cell is b.cell and a.tag == b.tag:
        return True
    a, b = settle(it, a), settle(it, b)
    if isinstance(a, Obj) or isinstance(b, Obj):
        return a is b
    if isinstance(a, View) or isinstance(b, View):
        return False
    if a is None or b is None:
        return a is b
    return lin_eq(a, b)


# ------------------------------------------------------------------------------------------------
# the two back ends, described uniformly
# ------------------------------------------------------------------------------------------------
class BackEnd:
    """exploration of one back end function for one aggregate kind"""

    def __init__(self, P, u, E, fname):
        self.P, self.u, self.E, self.fname = P, u, E, fname
        self.static = fname == 'write_gvar_data'

    def interp(self, extra_models=None, loop_limit=2):
        be = self

        def h_rec(it, ctx, n, args):
            if be.static:
                r = Obj('Relocation', lazy=True, label=ctx.fresh('cursor-after-child'))
            else:
                r = Obj('Node', lazy=True, label=ctx.fresh('child-init-expr'))
            ctx.emit('rec', args, r, n.line)
            return r

        def m_eval2(it, ctx, n, args):
            i = ctx.choose(2, 'eval2 yields an address constant')
            v = Sym(ctx.fresh('eval2'), 'long')
            lab = None
            if i == 1:
                lab = Sym(ctx.fresh('label'), 'char **')
                ref = args[1]
                if not isinstance(ref, _Ref):
                    raise AnalysisBroken('eval2 is not given the address of a label variable in %s' % be.fname)
                ref.place.set(it, lab)
                ctx.note('eval2 -> label+addend')
            ctx.emit('call', 'eval2', args, n.line, v, lab)
            return v
        models = {'eval2': m_eval2}
        models.update(extra_models or {})
        cfg = {'cut': {be.fname: h_rec}, 'models': models,
               'opaque': ['eval', 'eval_double', 'new_add', 'add_type', 'new_cast'], 'loop_limit': loop_limit,
               'track_stores': True, 'lazy_field': children_hook()}
        return TInterp(self.P, self.u, cfg)

    def args(self, ty, init_expr=None):
        be = self

        def mk(ctx):
            init = Obj('Initializer', lazy=True, label='init')
            if init_expr is not None:
                init.fields['expr'] = init_expr
            ctx.root_init = init
            ctx.root_ty = ty(ctx) if callable(ty) else ty
            if be.static:
                ctx.p_cur = Obj('Relocation', lazy=True, label='cur')
                ctx.p_buf = Sym('buf', 'char *')
                ctx.p_off = Sym('offset', 'int')
                return [ctx.p_cur, init, ctx.root_ty, ctx.p_buf, ctx.p_off]
            ctx.p_desg = Obj('InitDesg', lazy=True, label='desg')
            ctx.p_tok = Obj('Token', lazy=True, label='tok')
            return [init, ctx.root_ty, ctx.p_desg, ctx.p_tok]
        return mk

    # a recorded recursive visit -> (child initializer, type, position description)
    def visit(self, it, ctx, ev):
        a = ev[1]
        if self.static:
            if len(a) < 5:
                raise AnalysisBroken('write_gvar_data no longer takes (cur, init, ty, buf, offset)')
            return {'cur': a[0], 'init': a[1], 'ty': a[2], 'buf': a[3], 'off': a[4], 'res': ev[2], 'line': ev[3]}
        if len(a) < 4:
            raise AnalysisBroken('create_lvar_init no longer takes (init, ty, desg, tok)')
        return {'init': a[0], 'ty': a[1], 'desg': settle(it, a[2]), 'res': ev[2], 'line': ev[3]}

    def kind_ty(self, kind):
        ty = Obj('Type', lazy=True, label='ty')
        ty.fields['kind'] = self.E[kind]
        return ty


def visits(be, it, ctx):
    return [be.visit(it, ctx, e) for e in ctx.events if e[0] == 'rec']


def pos_ok(be, it, ctx, v, idx=None, member=None, extra_off=0):
    """does the visit designate the sub-object (array element idx | member) of the current object?"""
    if be.static:
        want = ctx.p_off
        if idx is not None:
            base = field(ctx.root_ty, 'base')
            bs = field(base, 'size') if isinstance(base, Obj) else None
            if bs is None:
                return False, 'element size ty->base->size is never read'
            if not isinstance(idx, int):
                return False, 'non-concrete index'
            want = lsum(want, lscale(bs, idx))
        if member is not None:
            mo = member.fields.get('offset')
            if mo is None:
                return False, 'the member offset is not added: the member is written at the offset of the enclosing object'
            want = lsum(want, mo)
        if not lin_eq(v['off'], want):
            return False, 'byte offset is %s, expected %s' % (show(v['off']), show(want))
        if not same(it, v['buf'], ctx.p_buf):
            return False, 'a different buffer is passed down'
        return True, ''
    d = v['desg']
    if not isinstance(d, Obj):
        return False, 'designator is %s' % show(d)
    if not same(it, d.fields.get('next', 0), ctx.p_desg):
        return False, 'the designator chain does not continue with the enclosing object'
    dm = settle(it, d.fields.get('member', 0))
    di = settle(it, d.fields.get('idx', 0))
    if idx is not None:
        if not is_null(dm) or not (isinstance(di, int) and di == idx):
            return False, 'designator says index %s/member %s, expected index %d' % (show(di), show(dm), idx)
    if member is not None:
        if dm is not member:
            return False, 'designator names member %s, expected %s' % (show(dm), show(member))
    if not is_null(settle(it, d.fields.get('var', 0))):
        return False, 'designator of a sub-object carries a variable'
    return True, ''


def members_walk(it, ty):
    """members reached through ty->members / ->next as far as the path determined them.
    returns (list of Member objects, complete?) ; complete = the chain provably ended with NULL"""
    out = []
    v = field(ty, 'members')
    while True:
        if v is None:
            return out, False          # never read
        if isinstance(v, View):
            return out, False          # read but never tested
        if is_null(v):
            return out, True
        if not isinstance(v, Obj):
            return out, False
        out.append(v)
        v = field(v, 'next')
        if len(out) > 8:
            return out, False


def describe_member(it, init, m):
    bf = field(m, 'is_bitfield')
    s = 'bit-field' if bf == 1 else ('plain-member' if bf == 0 else 'member')
    ch = field(init, 'children')
    e = None
    if isinstance(ch, Obj) and 'idx' in m.fields:
        k = vkey(m.fields['idx'])
        el = ch if k == 0 else ch.meta.get(('elem', k))
        e = field(el, 'expr') if isinstance(el, Obj) else None
    if e is not None:
        s += ',no-initializer' if is_null(e) else ',initialised'
    return s


def child_is(it, ctx, v, idxval):
    """visit v descends into init->children[idxval]"""
    ch = field(ctx.root_init, 'children')
    k = child_index(ch, settle(it, v['init']))
    if k is None:
        return False
    return k == vkey(idxval)


# ------------------------------------------------------------------------------------------------
def r051_array(be, rep):
    fn = be.fname
    it = be.interp()
    res = it.explore(fn, be.args(be.kind_ty('TY_ARRAY')))
    seen = set()
    for ctx, out in res:
        if out[0] != 'ret':
            continue
        ty = ctx.root_ty
        al = field(ty, 'array_len')
        if al is None:
            rep.ob('R05.1', '%s:%s:array/length-never-read' % (U, fn), False,
                   '%s returns for an array type without reading its length: elements are not enumerated' % fn, where=_w(be.u, fn), facts={'path': ctx.trail})
            continue
        b = ctx.bounds.get(vkey(al))
        vs = visits(be, it, ctx)
        if not b or b[1] > 1 << 60:
            rep.ob('R05.1', '%s:%s:array/walk-leaves-early' % (U, fn), False,
                   '%s returns after %d element(s) of an array although more elements may follow (loop left before the index reached array_len)' % (fn, len(vs)),
                   where=_w(be.u, fn), facts={'path': ctx.trail})
            continue
        n = max(b[1], 0) if b[0] != b[1] else b[0]
        seen.add(n)
        ok = len(vs) == n
        msg = '%s visits %d element(s) of an array of %d' % (fn, len(vs), n)
        if ok:
            for i, v in enumerate(vs):
                if not child_is(it, ctx, v, i):
                    ok = False; msg = 'visit %d of an array of %d does not descend into init->children[%d]' % (i, n, i); break
                if not same(it, v['ty'], field(ty, 'base')):
                    ok = False; msg = 'element %d is initialised with another type than ty->base' % i; break
                g, why = pos_ok(be, it, ctx, v, idx=i)
                if not g:
                    ok = False; msg = 'element %d of an array is placed wrongly: %s' % (i, why); break
        rep.ob('R05.1', '%s:%s:array/len=%d/elements-0..len-1' % (U, fn, n), ok, msg, where=_w(be.u, fn), facts={'path': ctx.trail})
        if be.static:
            cursor_threaded(be, it, ctx, out, rep, 'array')
    if not seen >= {0, 1, 2}:
        rep.undecided('R05.1', '%s:%s:array' % (U, fn), 'array arm not recognised: paths for lengths 0,1,2 expected, got %s' % sorted(seen))


def r051_struct(be, rep):
    fn = be.fname
    it = be.interp()
    res = it.explore(fn, be.args(be.kind_ty('TY_STRUCT'), init_expr=None if be.static else 0))
    nfull = 0
    for ctx, out in res:
        if out[0] != 'ret':
            continue
        ty, init = ctx.root_ty, ctx.root_init
        mems, complete = members_walk(it, ty)
        vs = visits(be, it, ctx)
        if not complete:
            last = describe_member(it, init, mems[-1]) if mems else 'nothing'
            rep.ob('R05.1', '%s:%s:struct/walk-stops-after(%s)' % (U, fn, last), False,
                   '%s returns from a struct after a member that is a %s without looking at the following members: every later member keeps the zero fill '
                   'although it has an initializer (the member loop is left instead of continued)' % (fn, last.replace(',', ' with ').replace('-', ' ')),
                   where=_w(be.u, fn), facts={'path': ctx.trail})
            continue
        nfull += 1
        # every member: either a bit-field handled in place, or exactly one visit
        vi = 0
        ok, msg, construct = True, '', 'members-each-visited-once'
        for m in mems:
            bf = field(m, 'is_bitfield')
            if be.static and bf == 1:
                continue
            if be.static and bf is None:
                ok = False; msg = 'a member is handled without testing whether it is a bit-field'; construct = 'bit-field-test-missing'; break
            if vi >= len(vs):
                ok = False; msg = 'member #%d (%s) of a struct is not initialised by a recursive visit' % (mems.index(m), describe_member(it, init, m)); construct = 'member-not-visited'; break
            v = vs[vi]; vi += 1
            if 'idx' not in m.fields or not child_is(it, ctx, v, m.fields['idx']):
                ok = False; msg = 'a struct member is not initialised from init->children[mem->idx]'; construct = 'member-child-mismatch'; break
            if not same(it, v['ty'], m.fields.get('ty')):
                ok = False; msg = 'a struct member is initialised with another type than mem->ty'; construct = 'member-type-mismatch'; break
            g, why = pos_ok(be, it, ctx, v, member=m)
            if not g:
                ok = False; msg = 'a struct member is placed wrongly: %s' % why; construct = 'member-position'; break
        if ok and vi != len(vs):
            ok = False; msg = '%d recursive visits for %d non-bit-field members' % (len(vs), vi); construct = 'extra-visit'
        rep.ob('R05.1', '%s:%s:struct/%s' % (U, fn, construct), ok, msg, where=_w(be.u, fn), facts={'path': ctx.trail})
        if be.static:
            cursor_threaded(be, it, ctx, out, rep, 'struct')
            r054_path(be, it, ctx, mems, rep)
    if nfull < 2:
        rep.undecided('R05.1', '%s:%s:struct' % (U, fn), 'struct arm not recognised: fewer than 2 paths that walk a member list to its end')


def r051_struct_expr(be, rep):
    """a struct initialised by an expression of struct type (init->expr set): must be honoured or diagnosed"""
    fn = be.fname
    it = be.interp()
    e = Obj('Node', lazy=True, label='struct-valued-expr')
    res = it.explore(fn, be.args(be.kind_ty('TY_STRUCT'), init_expr=e))
    n = 0
    for ctx, out in res:
        n += 1
        if out[0] == 'noreturn':
            ok = out[1] in ('error_tok', 'error_at')
            rep.ob('R05.1', '%s:%s:struct-valued-initializer/diagnosed' % (U, fn), ok,
                   '%s stops with %s() on a struct initialised by an expression of struct type' % (fn, out[1]), where=_w(be.u, fn), facts={'path': ctx.trail})
            continue
        used = False
        for ev in ctx.events:
            if ev[0] == 'call' and any(a is e for a in ev[2] if isinstance(a, Obj)):
                used = True
        r = settle(it, out[1])
        if not be.static and isinstance(r, Obj):
            used = used or field(r, 'rhs') is e or field(r, 'lhs') is e
            if used:
                used = field(r, 'kind') == be.E['ND_ASSIGN'] and field(r, 'rhs') is e
        rep.ob('R05.1', '%s:%s:struct-valued-initializer/%s' % (U, fn, 'used' if used else 'ignored'), used,
               '%s ignores init->expr of a struct: `static struct S s = (struct S){1, 2};` (or any struct-valued initializer expression) is accepted '
               'without a diagnostic and the object silently keeps the zero fill, while the automatic back end assigns the expression' % fn,
               where=_w(be.u, fn), facts={'path': ctx.trail[-6:]})
    if n == 0:
        rep.undecided('R05.1', '%s:%s:struct-valued-initializer' % (U, fn), 'no path')


def r051_union(be, rep):
    fn = be.fname
    it = be.interp()
    res = it.explore(fn, be.args(be.kind_ty('TY_UNION'), init_expr=None if be.static else 0))
    got = set()
    for ctx, out in res:
        if out[0] != 'ret':
            continue
        ty, init = ctx.root_ty, ctx.root_init
        mem = field(init, 'mem')
        vs = visits(be, it, ctx)
        where = _w(be.u, fn)
        if mem is None or isinstance(mem, View):
            rep.ob('R05.1', '%s:%s:union/designated-member-not-consulted' % (U, fn), False,
                   '%s handles a union without testing init->mem: the member chosen by the initializer (designator or default first) is not the one initialised' % fn,
                   where=where, facts={'path': ctx.trail})
            continue
        if is_null(mem):
            got.add('none')
            # nothing parsed for this union: zero fill, or the first member (whose initializer is empty)
            ok = len(vs) == 0
            if len(vs) == 1:
                first = field(ty, 'members')
                ok = isinstance(first, Obj) and 'idx' in first.fields and child_is(it, ctx, vs[0], first.fields['idx']) and same(it, vs[0]['ty'], first.fields.get('ty')) \
                    and pos_ok(be, it, ctx, vs[0], member=None if be.static else first)[0]
            rep.ob('R05.1', '%s:%s:union/no-member-chosen' % (U, fn), ok,
                   'a union for which no initializer was parsed is not left zero / initialised through its first member', where=where, facts={'path': ctx.trail})
        else:
            got.add('mem')
            ok = len(vs) == 1 and isinstance(mem, Obj)
            msg = 'a union with a chosen member makes %d recursive visits (expected exactly 1)' % len(vs)
            if ok:
                v = vs[0]
                if 'idx' not in mem.fields or not child_is(it, ctx, v, mem.fields['idx']):
                    ok = False; msg = 'the chosen union member is not initialised from init->children[init->mem->idx]'
                elif not same(it, v['ty'], mem.fields.get('ty')):
                    ok = False; msg = 'the chosen union member is initialised with another type than init->mem->ty'
                else:
                    g, why = pos_ok(be, it, ctx, v, member=None if be.static else mem)
                    if not g:
                        ok = False; msg = 'the chosen union member is placed wrongly (all union members live at offset 0 of the union): %s' % why
            rep.ob('R05.1', '%s:%s:union/chosen-member' % (U, fn), ok, msg, where=where, facts={'path': ctx.trail})
        if be.static:
            cursor_threaded(be, it, ctx, out, rep, 'union')
    if got != {'none', 'mem'}:
        rep.undecided('R05.1', '%s:%s:union' % (U, fn), 'union arm not recognised (paths seen: %s)' % sorted(got))


# ------------------------------------------------------------------------------------------------
def cursor_threaded(be, it, ctx, out, rep, arm):
    """R05.7: the relocation cursor is threaded through every recursive call and returned"""
    vs = visits(be, it, ctx)
    cur = ctx.p_cur
    ok, msg, construct = True, '', 'cursor-threaded'
    for i, v in enumerate(vs):
        if settle(it, v['cur']) is not cur:
            ok = False; construct = 'call-gets-stale-cursor'
            msg = ('recursive call #%d in the %s arm of write_gvar_data is not given the relocation cursor returned by the previous call: relocations '
                   'appended by the previous sub-object are overwritten (its address constants are emitted as zero bytes)' % (i + 1, arm))
            break
        cur = v['res']
    if ok and settle(it, out[1]) is not cur:
        ok = False; construct = 'return-drops-callee-cursor'
        msg = ('the %s arm of write_gvar_data does not return the relocation cursor produced by its last recursive call: the next relocation of the same '
               'object is linked over the ones appended by this sub-object (pointer members are emitted as NULL)' % arm)
    rep.ob('R05.7', '%s:write_gvar_data:%s/%s' % (U, arm, construct), ok, msg, where='%s:%d' % (U, vs[-1]['line'] if vs else be.u.fn(be.fname).line), facts={'path': ctx.trail})


# ------------------------------------------------------------------------------------------------
def norm_merge(v):
    """recognise old | ((new & ((1 << w) - 1)) << o) up to commutativity; returns dict or None"""
    if not (isinstance(v, Term) and v.op == '|' and len(v.args) == 2):
        return None
    for old, sh in (v.args, v.args[::-1]):
        if isinstance(sh, Term) and sh.op == '<<':
            val, o = sh.args
            if isinstance(val, Term) and val.op == '&':
                for new, mask in (val.args, val.args[::-1]):
                    lm = Lin.of(mask)
                    if isinstance(lm, Lin) and lm.c == -1 and len(lm.terms) == 1:
                        (c, leaf), = lm.terms.values()
                        if c == 1 and isinstance(leaf, Term) and leaf.op == '<<' and leaf.args[0] == 1:
                            return {'old': old, 'new': new, 'w': leaf.args[1], 'o': o}
    return None


def r054_path(be, it, ctx, mems, rep):
    """static bit-field merge on one fully walked struct path"""
    init = ctx.root_init
    stores = [e for e in ctx.events if e[0] == 'store']
    for m in mems:
        if field(m, 'is_bitfield') != 1:
            continue
        d = describe_member(it, init, m)
        where = _w(be.u, be.fname)
        if 'offset' not in m.fields:
            mine = []
        else:
            addr = lsum(ctx.p_buf, ctx.p_off, m.fields['offset'])
            mine = [s for s in stores if isinstance(s[1], Term) and s[1].op == 'mem' and lin_eq(s[1].args[0], addr)]
        if d.endswith('no-initializer'):
            rep.ob('R05.4', '%s:write_gvar_data:bit-field-without-initializer-untouched' % U, not mine,
                   'a bit-field without initializer is written', where=where)
            continue
        if len(mine) != 1:
            rep.ob('R05.4', '%s:write_gvar_data:bit-field-store-missing' % U, False,
                   'an initialised bit-field member leads to %d stores at buf+offset+mem->offset (expected one read-modify-write of its storage unit)' % len(mine),
                   where=where, facts={'path': ctx.trail, 'stores': [show(s[1]) for s in stores]})
            continue
        s = mine[0]
        val, cast_t = strip_cast(s[2])
        f = norm_merge(val)
        sz = field(field(m, 'ty'), 'size') if isinstance(field(m, 'ty'), Obj) else None
        szb = ctx.bounds.get(vkey(sz)) if sz is not None and not isinstance(sz, int) else ([sz, sz] if isinstance(sz, int) else None)
        width = ctype_bits(s[1].args[1])
        ok = f is not None
        msg = 'the value stored for a bit-field is %s, not old | ((new & ((1 << bit_width) - 1)) << bit_offset)' % show(val)
        construct = 'merge-formula'
        if ok:
            old = f['old']
            okold = isinstance(old, Term) and old.op == 'load' and isinstance(old.args[0], Term) and old.args[0].op == 'mem' and lin_eq(old.args[0].args[0], s[1].args[0])
            ev = [e for e in ctx.events if e[0] == 'call' and e[1] in ('eval', 'eval2') and e[4] is f['new']]
            if not okold:
                ok = False; msg = 'the bit-field merge does not start from the bytes already in the storage unit (neighbouring bit-fields are lost)'; construct = 'merge-old-value'
            elif not ev:
                ok = False; msg = 'the merged value is not the evaluated initializer expression'; construct = 'merge-new-value'
            elif f['w'] is not m.fields.get('bit_width') or f['o'] is not m.fields.get('bit_offset'):
                ok = False; msg = 'mask width / shift are %s / %s, expected mem->bit_width / mem->bit_offset' % (show(f['w']), show(f['o'])); construct = 'merge-width-offset'
            elif not (szb and szb[0] == szb[1] and width == 8 * szb[0] and ctype_bits(old.args[0].args[1]) == width):
                ok = False; construct = 'merge-unit-width'
                msg = 'the storage unit of a bit-field of a %s-byte type is read with %s bits and written with %s bits' % (szb[0] if szb else '?', ctype_bits(old.args[0].args[1]), width)
        rep.ob('R05.4', '%s:write_gvar_data:%s' % (U, construct), ok, msg, where='%s:%d' % (U, s[3]), facts={'path': ctx.trail})
        # 64-bit arithmetic: every symbolic shift/mask feeding the merge is computed in a 64-bit type
        for e in ctx.events:
            if e[0] == 'binop' and e[1] in ('<<', '&', '|'):
                uses = e[4] is val or _contains(val, e[4])
                if uses:
                    bits = ctype_bits(e[2])
                    rep.ob('R05.4', '%s:write_gvar_data:merge-arithmetic-64-bit(%s)' % (U, e[1]), bits == 64,
                           'the bit-field merge computes `%s` in the %s-bit type `%s`: bit-fields of width >= %d (or ending above bit %d) are truncated' % (e[1], bits, e[2], (bits or 32) - 1, (bits or 32) - 1),
                           where='%s:%d' % (U, e[3]))


def _contains(v, t):
    if v is t:
        return True
    if isinstance(v, Term):
        return any(_contains(a, t) for a in v.args)
    if isinstance(v, Lin):
        return any(_contains(l, t) for c, l in v.terms.values())
    return False


# ------------------------------------------------------------------------------------------------
def r052_scalars(P, u, E, cat, rep):
    """scalar tail of write_gvar_data for every scalar type of the catalogue; also R05.7 relocation creation"""
    be = BackEnd(P, u, E, 'write_gvar_data')
    it = be.interp()
    e = Obj('Node', lazy=True, label='init.expr')
    res = it.explore('write_gvar_data', be.args(lambda ctx: type_cell(cat, 'ty', only=SCALARS), init_expr=e))
    done = {}
    nrel = 0
    for ctx, out in res:
        names = [n for n in cat_of(ctx.root_ty) if n]
        lab = [ev for ev in ctx.events if ev[0] == 'call' and ev[1] == 'eval2' and ev[5] is not None]
        stores = [ev for ev in ctx.events if ev[0] == 'store']
        where = _w(u, 'write_gvar_data')
        if lab:
            if out[0] != 'ret':
                continue
            nrel += 1
            r057_reloc(be, it, ctx, out, lab[-1], stores, rep)
            continue
        for name in names:
            size = dict(cat.entries())[name]['size']
            key = '%s:write_gvar_data:scalar/%s' % (U, name)
            if out[0] != 'ret':
                how = 'internal-error' if out[1] == 'error' else 'rejected'
                fa = out[2]
                rep.ob('R05.2', key + ':' + how, False,
                       'a static object of type class `%s` (size %d) with a constant initializer has no storage arm: write_gvar_data ends in %s(%s) instead of storing the value'
                       % (name, size, out[1], ', '.join(show(a) for a in fa[:1])), where='%s:%d' % (U, out[3]), facts={'path': ctx.trail})
                done[name] = True
                continue
            ok, msg, construct = True, '', 'stored'
            if len(stores) != 1 or not (isinstance(stores[0][1], Term) and stores[0][1].op == 'mem'):
                ok = False; construct = 'store-count'; msg = 'a scalar of type class `%s` leads to %d stores into the image (expected exactly one)' % (name, len(stores))
            else:
                s = stores[0]
                addr, ct = s[1].args
                val, cast_t = strip_cast(s[2])
                if not lin_eq(addr, lsum(ctx.p_buf, ctx.p_off)):
                    ok = False; construct = 'store-address'; msg = 'the value of a `%s` is stored at %s, not at buf + offset' % (name, show(addr))
                elif ctype_bits(ct) != 8 * size:
                    ok = False; construct = 'store-width'
                    msg = 'a `%s` (size %d) is stored through an lvalue of type `%s` (%s bits): %s' % (name, size, ct, ctype_bits(ct), 'neighbouring bytes are overwritten' if (ctype_bits(ct) or 0) > 8 * size else 'the upper bytes keep the zero fill')
                else:
                    src = [ev for ev in ctx.events if ev[0] == 'call' and ev[4] is val]
                    isf = name in FLOATS
                    if not src:
                        ok = False; construct = 'store-value'; msg = 'the stored value %s of a `%s` is not the evaluated initializer' % (show(val), name)
                    elif isf and (src[0][1] != 'eval_double' or ct.replace('const ', '') != FLOATS[name]):
                        ok = False; construct = 'store-float-representation'
                        msg = 'a `%s` is stored as `%s` from %s(): the bytes are not the IEEE representation of the value in that type' % (name, ct, src[0][1])
                    elif not isf and (src[0][1] not in ('eval2', 'eval') or int_type(ct) is None):
                        ok = False; construct = 'store-integer-representation'
                        msg = 'an integer/pointer `%s` is stored as `%s` from %s()' % (name, ct, src[0][1])
                    elif not any(a is e for a in src[0][2]):
                        ok = False; construct = 'store-value'; msg = 'the evaluated expression is not init->expr'
            if settle(it, out[1]) is not ctx.p_cur:
                ok = False; construct = 'cursor'; msg = 'a scalar without address constant changes the relocation cursor'
            rep.ob('R05.2', key + ':' + construct, ok, msg, where=where, facts={'path': ctx.trail})
            done[name] = True
    missing = [n for n in SCALARS if n not in done]
    if missing:
        rep.undecided('R05.2', '%s:write_gvar_data:scalar' % U, 'no path for scalar type classes %s' % missing)
    if nrel == 0:
        rep.undecided('R05.7', '%s:write_gvar_data:relocation' % U, 'no path creates a relocation for an address constant')
    # absent initializer: nothing is written
    it2 = be.interp()
    for ctx, out in it2.explore('write_gvar_data', be.args(lambda ctx: type_cell(cat, 'ty', only=SCALARS), init_expr=0)):
        stores = [ev for ev in ctx.events if ev[0] == 'store']
        ok = out[0] == 'ret' and not stores and settle(it2, out[1]) is ctx.p_cur
        rep.ob('R05.2', '%s:write_gvar_data:scalar-without-initializer-keeps-zero' % U, ok,
               'a scalar sub-object without initializer is not left as zero fill (outcome %s, %d stores)' % (out[0], len(stores)), where=_w(u, 'write_gvar_data'))


def r057_reloc(be, it, ctx, out, call, stores, rep):
    where = _w(be.u, 'write_gvar_data')
    rel = settle(it, out[1])
    val, lab = call[4], call[5]
    ok, msg, construct = True, '', 'relocation-record'
    if not isinstance(rel, Obj) or rel.lazy or rel is ctx.p_cur:
        ok = False; construct = 'relocation-not-returned'
        msg = 'an initializer that is an address constant (label+addend) does not return a freshly allocated relocation as the new list tail'
    else:
        if not same(it, rel.fields.get('offset', 0), ctx.p_off):
            ok = False; construct = 'relocation-offset'; msg = 'the relocation is recorded at offset %s, not at the element offset' % show(rel.fields.get('offset', 0))
        elif rel.fields.get('label', 0) is not lab:
            ok = False; construct = 'relocation-label'; msg = 'the relocation does not carry the label produced by eval2'
        elif rel.fields.get('addend', 0) is not val:
            ok = False; construct = 'relocation-addend'; msg = 'the relocation addend is %s, not the value produced by eval2' % show(rel.fields.get('addend', 0))
        elif field(ctx.p_cur, 'next') is not rel:
            ok = False; construct = 'relocation-not-linked'; msg = 'the new relocation is not linked behind the cursor (cur->next)'
        elif not is_null(settle(it, rel.fields.get('next', 0))):
            ok = False; construct = 'relocation-next'; msg = 'the new relocation does not end the list'
    if ok and stores:
        ok = False; construct = 'relocation-and-bytes'; msg = 'bytes are also written for an address constant'
    rep.ob('R05.7', '%s:write_gvar_data:%s' % (U, construct), ok, msg, where=where, facts={'path': ctx.trail})


# ------------------------------------------------------------------------------------------------
def run(P, rep, tier):
    u = P.unit(U)
    _need(u, 'write_gvar_data', 'create_lvar_init', 'lvar_initializer', 'gvar_initializer', 'eval2', 'eval_rval',
          'string_initializer', 'write_buf', 'read_buf')
    E = u.enums
    for k in ('TY_ARRAY', 'TY_STRUCT', 'TY_UNION', 'TY_FLOAT', 'TY_DOUBLE', 'ND_ASSIGN', 'ND_COMMA', 'ND_MEMZERO'):
        if k not in E:
            raise AnalysisBroken('enumerator %s vanished' % k)
    cat = Catalogue(P)
    rep.explanation = ('Both initializer back ends (create_lvar_init, write_gvar_data) are interpreted abstractly per type class with the recursive call cut '
                       '(structural induction over the initializer tree); the sub-objects they visit, the bytes they store, the relocation cursor they thread, '
                       'the address-constant arms of eval2/eval_rval, string_initializer, lvar_initializer/gvar_initializer and emit_data are compared with oracles '
                       'transcribed from C11 6.7.9. The designator/brace-elision cursor logic of the parser is decided only for the resume position after an index range.')
    rep.assumptions += ['calloc succeeds', 'loops over members/elements are analysed for 0..2 generic iterations; the facts checked are per-iteration facts',
                        'bit-field members have an integer type of size 1, 2, 4 or 8',
                        'formula rules compare normalised terms (commutativity of | and &); an equivalent rewrite outside that form would be reported']
    rep.rule('R05.1', 'both back ends visit exactly the sub-objects C11 6.7.9 prescribes: array elements 0..len-1 at stride base->size, every struct member (no arm leaves the member walk), the chosen union member; a struct-valued initializer expression is honoured or diagnosed', floor=14)
    rep.rule('R05.2', 'the static back end stores every scalar type class with its own width and representation (or nothing when there is no initializer)', floor=14)
    rep.rule('R05.4', 'static bit-field merge is old | ((new & ((1 << width) - 1)) << offset), computed in 64 bits, read and written with the width of the storage unit', floor=4)
    rep.rule('R05.7', 'address constants: the relocation cursor is threaded through every recursive call and returned; a label+addend becomes a relocation at the element offset; eval2/eval_rval add member offsets', floor=8)
    bs = BackEnd(P, u, E, 'write_gvar_data')
    bl = BackEnd(P, u, E, 'create_lvar_init')
    for be in (bs, bl):
        r051_array(be, rep)
        r051_struct(be, rep)
        r051_struct_expr(be, rep)
        r051_union(be, rep)
    r052_scalars(P, u, E, cat, rep)
