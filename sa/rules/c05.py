"""C05 Initializers produce exactly the object value of C11 6.7.9 (DESIGN.md §3 C05).

Both initializer back ends of parse.c (create_lvar_init: assignment chain, write_gvar_data: byte image
+ relocations) are abstractly interpreted once per type class on an abstract Initializer/Type, with the
recursive call cut and recorded (structural induction over the initializer tree).  The recorded
sub-object visits, stores and cursor flow are compared with the oracle of C11 6.7.9 and with each other.
"""
from ..interp import Interp, Obj, Sym, Term, Lin, View, Cell, is_opaque, vkey, _Ref, int_type, FieldPlace
from ..chibi import Catalogue, type_cell, cat_of, INT_CATS
from ..build import AnalysisBroken
from ..lib_c05 import (TInterp, NullInterp, ctype_bits, settle, lin_eq, lin_diff, lsum, lscale, field, is_null, strip_cast, show,
                       children_hook, child_index, show_key, eq_on_path)

U = 'parse.c'
SCALARS = INT_CATS + ('float', 'double', 'ldouble', 'ptr')
FLOATS = {'float': 'float', 'double': 'double', 'ldouble': 'long double'}


def _w(u, fn):
    f = u.fn(fn)
    return '%s:%d' % (u.name, f.line if f else 0)


def _need(u, *fns):
    for f in fns:
        if f not in u.functions:
            raise AnalysisBroken('anchor function %s vanished from %s' % (f, u.name))


def same(it, a, b):
    """same abstract value (object identity, same cell, or equal linear terms)"""
    if isinstance(a, View) and isinstance(b, View) and a.cell is b.cell and a.tag == b.tag:
        return True
    a, b = settle(it, a), settle(it, b)
    if isinstance(a, Obj) or isinstance(b, Obj):
        return a is b
    if isinstance(a, View) or isinstance(b, View):
        return False
    if a is None or b is None:
        return a is b
    return lin_eq(a, b)


# ------------------------------------------------------------------------------------------------
# the two back ends, described uniformly
# ------------------------------------------------------------------------------------------------
class BackEnd:
    """exploration of one back end function for one aggregate kind"""

    # the interface of each back end the rules model: the cursor / node comes back as the result, the sub-object through (init, ty[, buf, offset])
    SIGNATURES = {'write_gvar_data': (['Relocation *', 'Initializer *', 'Type *', 'char *', 'int'], 'Relocation *'),
                  'create_lvar_init': (['Initializer *', 'Type *', 'InitDesg *', 'Token *'], 'Node *')}

    def __init__(self, P, u, E, fname):
        self.P, self.u, self.E, self.fname = P, u, E, fname
        self.static = fname == 'write_gvar_data'
        if fname in self.SIGNATURES:
            from ..build import require_signature
            require_signature(u, fname, *self.SIGNATURES[fname])

    def interp(self, extra_models=None, loop_limit=2, cls=None):
        be = self

        def h_rec(it, ctx, n, args):
            if be.static:
                r = Obj('Relocation', lazy=True, label=ctx.fresh('cursor-after-child'))
            else:
                r = Obj('Node', lazy=True, label=ctx.fresh('child-init-expr'))
            ctx.emit('rec', args, r, n.line)
            return r

        def m_eval2(it, ctx, n, args):
            i = ctx.choose(2, 'eval2 yields an address constant')
            v = Sym(ctx.fresh('eval2'), 'long')
            lab = None
            if i == 1:
                lab = Obj(None, lazy=True, label=ctx.fresh('label'))     # a non-null char **
                ref = args[1]
                if not isinstance(ref, _Ref):
                    raise AnalysisBroken('eval2 is not given the address of a label variable in %s' % be.fname)
                ref.place.set(it, lab)
                ctx.note('eval2 -> label+addend')
            ctx.emit('call', 'eval2', args, n.line, v, lab)
            return v
        models = {'eval2': m_eval2}
        if 'eval_truth' in be.u.functions:
            # a helper that folds an expression to its truth value: judged on its own (r052_truth_helper), opaque here
            def m_eval_truth(it, ctx, n, args):
                v = Sym(ctx.fresh('eval_truth'), 'bool')
                ctx.emit('call', 'eval_truth', args, n.line, v)
                return v
            models['eval_truth'] = m_eval_truth
        models.update(extra_models or {})
        cfg = {'cut': {be.fname: h_rec}, 'models': models,
               'opaque': ['eval', 'eval_double', 'new_add', 'add_type', 'new_cast'], 'loop_limit': loop_limit,
               'track_stores': True, 'lazy_field': children_hook()}
        return (cls or TInterp)(self.P, self.u, cfg)

    def args(self, ty, init_expr=None):
        be = self

        def mk(ctx):
            init = Obj('Initializer', lazy=True, label='init')
            if init_expr is not None:
                init.fields['expr'] = init_expr(ctx) if callable(init_expr) else init_expr
            ctx.root_init = init
            ctx.root_ty = ty(ctx) if callable(ty) else ty
            if be.static:
                ctx.p_cur = Obj('Relocation', lazy=True, label='cur')
                ctx.p_buf = Sym('buf', 'char *')
                ctx.p_off = Sym('offset', 'int')
                return [ctx.p_cur, init, ctx.root_ty, ctx.p_buf, ctx.p_off]
            ctx.p_desg = Obj('InitDesg', lazy=True, label='desg')
            ctx.p_tok = Obj('Token', lazy=True, label='tok')
            return [init, ctx.root_ty, ctx.p_desg, ctx.p_tok]
        return mk

    # a recorded recursive visit -> (child initializer, type, position description)
    def visit(self, it, ctx, ev):
        a = ev[1]
        if self.static:
            if len(a) < 5:
                raise AnalysisBroken('write_gvar_data no longer takes (cur, init, ty, buf, offset)')
            return {'cur': a[0], 'init': a[1], 'ty': a[2], 'buf': a[3], 'off': a[4], 'res': ev[2], 'line': ev[3]}
        if len(a) < 4:
            raise AnalysisBroken('create_lvar_init no longer takes (init, ty, desg, tok)')
        return {'init': a[0], 'ty': a[1], 'desg': settle(it, a[2]), 'res': ev[2], 'line': ev[3]}

    def kind_ty(self, kind):
        """factory (abstract objects must be fresh on every path)"""
        def mk(ctx):
            ty = Obj('Type', lazy=True, label='ty')
            ty.fields['kind'] = self.E[kind]
            return ty
        return mk


def visits(be, it, ctx):
    return [be.visit(it, ctx, e) for e in ctx.events if e[0] == 'rec']


def pos_ok(be, it, ctx, v, idx=None, member=None, extra_off=0):
    """does the visit designate the sub-object (array element idx | member) of the current object?"""
    if be.static:
        want = ctx.p_off
        if idx is not None:
            base = field(ctx.root_ty, 'base')
            bs = field(base, 'size') if isinstance(base, Obj) else None
            if bs is None:
                return False, 'element size ty->base->size is never read'
            if not isinstance(idx, int):
                return False, 'non-concrete index'
            want = lsum(want, lscale(bs, idx))
        if member is not None:
            mo = member.fields.get('offset')
            if mo is None:
                return False, 'the member offset is not added: the member is written at the offset of the enclosing object'
            want = lsum(want, mo)
        if not lin_eq(v['off'], want):
            return False, 'byte offset is %s, expected %s' % (show(v['off']), show(want))
        if not same(it, v['buf'], ctx.p_buf):
            return False, 'a different buffer is passed down'
        return True, ''
    d = v['desg']
    if not isinstance(d, Obj):
        return False, 'designator is %s' % show(d)
    if not same(it, d.fields.get('next', 0), ctx.p_desg):
        return False, 'the designator chain does not continue with the enclosing object'
    dm = settle(it, d.fields.get('member', 0))
    di = settle(it, d.fields.get('idx', 0))
    if idx is not None:
        if not is_null(dm) or not (isinstance(di, int) and di == idx):
            return False, 'designator says index %s/member %s, expected index %d' % (show(di), show(dm), idx)
    if member is not None:
        if dm is not member:
            return False, 'designator names member %s, expected %s' % (show(dm), show(member))
    if not is_null(settle(it, d.fields.get('var', 0))):
        return False, 'designator of a sub-object carries a variable'
    return True, ''


def members_walk(it, ty):
    """members reached through ty->members / ->next as far as the path determined them.
    returns (list of Member objects, complete?) ; complete = the chain provably ended with NULL"""
    out = []
    v = field(ty, 'members')
    while True:
        if v is None:
            return out, False          # never read
        if isinstance(v, View):
            return out, False          # read but never tested
        if is_null(v):
            return out, True
        if not isinstance(v, Obj):
            return out, False
        out.append(v)
        v = field(v, 'next')
        if len(out) > 8:
            return out, False


def unnamed_bf(m):
    """does member m take part in initialization? C11 6.7.9p9: unnamed members (= unnamed bit-fields; an anonymous struct/union member is not
    a bit-field) do not.  True: known unnamed bit-field on this path; False: known to take part (named, or not a bit-field); None: the path never looked"""
    bf, nm = field(m, 'is_bitfield'), field(m, 'name')
    if isinstance(bf, int) and bf == 0:
        return False
    if isinstance(nm, Obj):
        return False
    if isinstance(bf, int) and bf == 1 and is_null(nm):
        return True
    return None


def first_part(m):
    """the first member at or behind m that is not known to be an unnamed bit-field on this path (Obj), 0 when the list provably ends before, else None"""
    n = 0
    while isinstance(m, Obj) and unnamed_bf(m) is True and n < 8:
        m = field(m, 'next'); n += 1
    if isinstance(m, Obj) or is_null(m):
        return m
    return None


def member_chain(m):
    out = []
    while isinstance(m, Obj) and len(out) < 8:
        out.append(m)
        m = field(m, 'next')
    return out


def member_of_child(k, starts):
    """the Member (reachable from one of `starts` through ->next) whose idx names init->children[k]"""
    for st in starts:
        for m in member_chain(st):
            if 'idx' in m.fields and vkey(m.fields['idx']) == k:
                return m
    return None


P9 = ('C11 6.7.9p9: unnamed members of a struct/union (unnamed bit-fields such as `int :3;`) do not take part in initialization; '
      'with `struct { int a; int :3; int b; } s = {1, 2};` the 2 belongs to b')


def describe_member(it, init, m):
    bf = field(m, 'is_bitfield')
    s = 'bit-field' if bf == 1 else ('plain-member' if bf == 0 else 'member')
    ch = field(init, 'children')
    e = None
    if isinstance(ch, Obj) and 'idx' in m.fields:
        k = vkey(m.fields['idx'])
        el = ch if k == 0 else ch.meta.get(('elem', k))
        e = field(el, 'expr') if isinstance(el, Obj) else None
    if e is not None:
        s += ',no-initializer' if is_null(e) else ',initialised'
    return s


def child_is(it, ctx, v, idxval):
    """visit v descends into init->children[idxval]"""
    ch = field(ctx.root_init, 'children')
    k = child_index(ch, settle(it, v['init']))
    if k is None:
        return False
    return k == vkey(idxval)


# ------------------------------------------------------------------------------------------------
def r051_array(be, rep):
    fn = be.fname
    it = be.interp()
    res = it.explore(fn, be.args(be.kind_ty('TY_ARRAY')))
    seen = set()
    for ctx, out in res:
        if out[0] != 'ret':
            continue
        ty = ctx.root_ty
        al = field(ty, 'array_len')
        if al is None:
            rep.ob('R05.1', '%s:%s:array/length-never-read' % (U, fn), False,
                   '%s returns for an array type without reading its length: elements are not enumerated' % fn, where=_w(be.u, fn), facts={'path': ctx.trail})
            continue
        b = ctx.bounds.get(vkey(al))
        vs = visits(be, it, ctx)
        if not b or b[1] > 1 << 60:
            rep.ob('R05.1', '%s:%s:array/walk-leaves-early' % (U, fn), False,
                   '%s returns after %d element(s) of an array although more elements may follow (loop left before the index reached array_len)' % (fn, len(vs)),
                   where=_w(be.u, fn), facts={'path': ctx.trail})
            continue
        n = max(b[1], 0) if b[0] != b[1] else b[0]
        seen.add(n)
        ok = len(vs) == n
        msg = '%s visits %d element(s) of an array of %d' % (fn, len(vs), n)
        if ok:
            for i, v in enumerate(vs):
                if not child_is(it, ctx, v, i):
                    ok = False; msg = 'visit %d of an array of %d does not descend into init->children[%d]' % (i, n, i); break
                if not same(it, v['ty'], field(ty, 'base')):
                    ok = False; msg = 'element %d is initialised with another type than ty->base' % i; break
                g, why = pos_ok(be, it, ctx, v, idx=i)
                if not g:
                    ok = False; msg = 'element %d of an array is placed wrongly: %s' % (i, why); break
        rep.ob('R05.1', '%s:%s:array/len=%d/elements-0..len-1' % (U, fn, n), ok, msg, where=_w(be.u, fn), facts={'path': ctx.trail})
        if be.static:
            cursor_threaded(be, it, ctx, out, rep, 'array')
    if not seen >= {0, 1, 2}:
        rep.undecided('R05.1', '%s:%s:array' % (U, fn), 'array arm not recognised: paths for lengths 0,1,2 expected, got %s' % sorted(seen))


def r051_struct(be, rep):
    fn = be.fname
    it = be.interp()
    # the list form: no whole-struct initializer expression (that form is judged by r051_struct_expr)
    res = it.explore(fn, be.args(be.kind_ty('TY_STRUCT'), init_expr=0))
    nfull = 0
    for ctx, out in res:
        if out[0] != 'ret':
            continue
        ty, init = ctx.root_ty, ctx.root_init
        mems, complete = members_walk(it, ty)
        vs = visits(be, it, ctx)
        if not complete:
            last = describe_member(it, init, mems[-1]) if mems else 'nothing'
            rep.ob('R05.1', '%s:%s:struct/walk-stops-after(%s)' % (U, fn, last), False,
                   '%s returns from a struct after a member that is a %s without looking at the following members: every later member keeps the zero fill '
                   'although it has an initializer (the member loop is left instead of continued)' % (fn, last.replace(',', ' with ').replace('-', ' ')),
                   where=_w(be.u, fn), facts={'path': ctx.trail})
            continue
        nfull += 1
        # every member: either a bit-field handled in place, or exactly one visit
        vi = 0
        ok, msg, construct = True, '', 'members-each-visited-once'
        for m in mems:
            bf = field(m, 'is_bitfield')
            if be.static and bf == 1:
                continue
            if be.static and bf is None:
                ok = False; msg = 'a member is handled without testing whether it is a bit-field'; construct = 'bit-field-test-missing'; break
            if vi >= len(vs):
                ok = False; msg = 'member #%d (%s) of a struct is not initialised by a recursive visit' % (mems.index(m), describe_member(it, init, m)); construct = 'member-not-visited'; break
            v = vs[vi]; vi += 1
            if 'idx' not in m.fields or not child_is(it, ctx, v, m.fields['idx']):
                ok = False; msg = 'a struct member is not initialised from init->children[mem->idx]'; construct = 'member-child-mismatch'; break
            if not same(it, v['ty'], m.fields.get('ty')):
                ok = False; msg = 'a struct member is initialised with another type than mem->ty'; construct = 'member-type-mismatch'; break
            g, why = pos_ok(be, it, ctx, v, member=m)
            if not g:
                ok = False; msg = 'a struct member is placed wrongly: %s' % why; construct = 'member-position'; break
        if ok and vi != len(vs):
            ok = False; msg = '%d recursive visits for %d non-bit-field members' % (len(vs), vi); construct = 'extra-visit'
        rep.ob('R05.1', '%s:%s:struct/%s' % (U, fn, construct), ok, msg, where=_w(be.u, fn), facts={'path': ctx.trail})
        if be.static:
            cursor_threaded(be, it, ctx, out, rep, 'struct')
            r054_path(be, it, ctx, mems, rep)
    if nfull < 2:
        rep.undecided('R05.1', '%s:%s:struct' % (U, fn), 'struct arm not recognised: fewer than 2 paths that walk a member list to its end')


def r051_struct_expr(be, rep, kind='TY_STRUCT', word='struct'):
    """a struct initialised by an expression of struct type (init->expr set): must be honoured or diagnosed"""
    fn = be.fname
    it = be.interp()
    res = it.explore(fn, be.args(be.kind_ty(kind), init_expr=lambda ctx: Obj('Node', lazy=True, label=word + '-valued-expr')))
    n = 0
    for ctx, out in res:
        n += 1
        e = ctx.root_init.fields['expr']
        if out[0] == 'noreturn':
            if out[1] not in ('error_tok', 'error_at'):
                continue     # size dispatch of read_buf/write_buf on impossible bit-field sizes: not judged here
            ok = True
            rep.ob('R05.1', '%s:%s:%s-valued-initializer/diagnosed' % (U, fn, word), ok,
                   '%s stops with %s() on a %s initialised by an expression of %s type' % (fn, out[1], word, word), where=_w(be.u, fn), facts={'path': ctx.trail})
            continue
        used = False
        for ev in ctx.events:
            if ev[0] == 'call' and any(a is e for a in ev[2] if isinstance(a, Obj)):
                used = True
        r = settle(it, out[1])
        if not be.static and isinstance(r, Obj):
            used = used or field(r, 'rhs') is e or field(r, 'lhs') is e
            if used:
                used = field(r, 'kind') == be.E['ND_ASSIGN'] and field(r, 'rhs') is e
        if be.static and not used:
            cp = _static_copy(be, it, ctx, out, e)
            if cp is not None:
                rep.ob('R05.1', '%s:%s:%s-valued-initializer/%s' % (U, fn, word, 'image-copied' if cp[0] else 'image-copy-' + cp[1]), cp[0],
                       '%s initialises a static %s from the image of the object named by init->expr, but %s' % (fn, word, cp[2]), where=_w(be.u, fn), facts={'path': ctx.trail[-8:]})
                continue
        rep.ob('R05.1', '%s:%s:%s-valued-initializer/%s' % (U, fn, word, 'used' if used else 'ignored'), used,
               ('%s ignores init->expr of a %s: `static %s S s = (%s S){1, 2};` (or any %s-valued initializer expression) is accepted '
                'without a diagnostic and the object silently keeps the zero fill, while the automatic back end assigns the expression' % (fn, word, word, word, word)) if be.static else
               ('%s does not turn a %s-valued initializer expression (`%s S x = y;`) into one assignment of the whole object: the object is initialised member-wise from an '
                'empty list and keeps the zero fill' % (fn, word, word)),
               where=_w(be.u, fn), facts={'path': ctx.trail[-6:]})
    if n == 0:
        rep.undecided('R05.1', '%s:%s:%s-valued-initializer' % (U, fn, word), 'no path')


def _static_copy(be, it, ctx, out, e):
    """write_gvar_data honours a struct/union-valued initializer expression by copying the already computed image of the object the
    expression names (a file-scope compound literal). None = no such copy on this path; else (ok, construct, what is wrong)"""
    cps = [ev for ev in ctx.events if ev[0] == 'call' and ev[1] in ('memcpy', 'memmove') and len(ev[2]) == 3]
    if not cps:
        return None
    var = field(e, 'var')
    src = field(var, 'init_data') if isinstance(var, Obj) else None
    mine = [ev for ev in cps if src is not None and ev[2][1] is src]
    if len(mine) != 1 or len(cps) != 1:
        return False, 'source', 'the bytes are not copied (once) from expr->var->init_data'
    a = mine[0][2]
    if field(e, 'kind') != be.E.get('ND_VAR'):
        return False, 'source', 'init->expr is not known to be a variable reference when its var is used'
    if field(var, 'is_local') != 0:
        return False, 'source-may-be-local', 'the object may be a local variable (no static image)'
    if not lin_eq(a[0], lsum(ctx.p_buf, ctx.p_off)):
        return False, 'destination', 'the bytes go to %s, not to buf + offset' % show(a[0])
    if not same(it, a[2], field(ctx.root_ty, 'size')) or 'size' not in ctx.root_ty.fields:
        return False, 'length', '%s bytes are copied, not ty->size' % show(a[2])
    # the relocations of the source image, shifted by the offset of the sub-object, appended behind the cursor in order
    srcs = []
    v = field(var, 'rel')
    while True:
        if v is None or isinstance(v, View):
            return False, 'relocations-not-walked', 'the relocation list of the source object is not walked to its end: pointer members of the copy are emitted as NULL'
        if is_null(v):
            break
        if not isinstance(v, Obj) or len(srcs) > 8:
            return False, 'relocations-not-walked', 'the relocation list of the source object is not interpretable'
        srcs.append(v)
        v = field(v, 'next')
    cur = ctx.p_cur
    for i, r in enumerate(srcs):
        n = field(cur, 'next')
        if not isinstance(n, Obj) or n.lazy or n in srcs:
            return False, 'relocation-not-copied', 'relocation #%d of the source image is not copied into a fresh relocation linked behind the cursor (sharing the node would splice the source list)' % i
        if 'offset' not in r.fields or not lin_eq(n.fields.get('offset', 0), lsum(r.fields['offset'], ctx.p_off)):
            return False, 'relocation-offset', 'copied relocation #%d is recorded at %s, expected the source offset plus the offset of the sub-object' % (i, show(n.fields.get('offset', 0)))
        if 'label' not in r.fields or n.fields.get('label', 0) is not r.fields['label'] or 'addend' not in r.fields or n.fields.get('addend', 0) is not r.fields['addend']:
            return False, 'relocation-target', 'copied relocation #%d does not carry label and addend of the source relocation' % i
        cur = n
    if not is_null(settle(it, cur.fields.get('next', 0))) and srcs:
        return False, 'relocation-list-end', 'the last copied relocation does not end the list'
    if settle(it, out[1]) is not cur:
        return False, 'cursor', 'the returned relocation cursor is not the last relocation appended'
    return True, '', ''


def r051_union(be, rep):
    fn = be.fname
    it = be.interp()
    res = it.explore(fn, be.args(be.kind_ty('TY_UNION'), init_expr=None if be.static else 0))
    got = set()
    for ctx, out in res:
        if out[0] != 'ret':
            continue
        ty, init = ctx.root_ty, ctx.root_init
        mem = field(init, 'mem')
        vs = visits(be, it, ctx)
        where = _w(be.u, fn)
        if mem is None or isinstance(mem, View):
            rep.ob('R05.1', '%s:%s:union/designated-member-not-consulted' % (U, fn), False,
                   '%s handles a union without testing init->mem: the member chosen by the initializer (designator or default first) is not the one initialised' % fn,
                   where=where, facts={'path': ctx.trail})
            continue
        if is_null(mem):
            got.add('none')
            # nothing parsed for this union: zero fill, or the first member (whose initializer is empty)
            ok = len(vs) == 0
            if len(vs) == 1:
                first = field(ty, 'members')
                ok = isinstance(first, Obj) and 'idx' in first.fields and child_is(it, ctx, vs[0], first.fields['idx']) and same(it, vs[0]['ty'], first.fields.get('ty')) \
                    and pos_ok(be, it, ctx, vs[0], member=None if be.static else first)[0]
            rep.ob('R05.1', '%s:%s:union/no-member-chosen' % (U, fn), ok,
                   'a union for which no initializer was parsed is not left zero / initialised through its first member', where=where, facts={'path': ctx.trail})
        else:
            got.add('mem')
            ok = len(vs) == 1 and isinstance(mem, Obj)
            msg = 'a union with a chosen member makes %d recursive visits (expected exactly 1)' % len(vs)
            bf = field(mem, 'is_bitfield') if isinstance(mem, Obj) else 0
            if be.static and isinstance(mem, Obj) and bf != 0:
                # the static back end writes a scalar with the width of the type it is given: a member that is a bit-field must be merged into its
                # storage unit with its own width (as in the struct arm), never handed to the scalar arm with mem->ty
                if bf == 1 and not vs:
                    got.add('bit-field')
                    rep.ob('R05.1', '%s:%s:union/chosen-bit-field-member-merged-in-place' % (U, fn), True, '', where=where, facts={'path': ctx.trail})
                    r054_path(be, it, ctx, [mem], rep, union=True)
                else:
                    rep.ob('R05.1', '%s:%s:union/chosen-member-may-be-bit-field' % (U, fn), False,
                           'the chosen member of a union is written by the scalar arm with the full width of its declared type %s: for a bit-field member '
                           '(`static union { int a:4; int b; } u = {0xff};`) the whole storage unit receives the unmasked value (ff 00 00 00), the automatic object and gcc '
                           'store the value converted to the 4-bit field (0f)' % ('although it is a bit-field' if bf == 1 else 'without testing whether it is a bit-field'),
                           where=where, facts={'path': ctx.trail})
                cursor_threaded(be, it, ctx, out, rep, 'union')
                continue
            if ok:
                v = vs[0]
                if 'idx' not in mem.fields or not child_is(it, ctx, v, mem.fields['idx']):
                    ok = False; msg = 'the chosen union member is not initialised from init->children[init->mem->idx]'
                elif not same(it, v['ty'], mem.fields.get('ty')):
                    ok = False; msg = 'the chosen union member is initialised with another type than init->mem->ty'
                else:
                    g, why = pos_ok(be, it, ctx, v, member=None if be.static else mem)
                    if not g:
                        ok = False; msg = 'the chosen union member is placed wrongly (all union members live at offset 0 of the union): %s' % why
            rep.ob('R05.1', '%s:%s:union/chosen-member' % (U, fn), ok, msg, where=where, facts={'path': ctx.trail})
        if be.static:
            cursor_threaded(be, it, ctx, out, rep, 'union')
    if not {'none', 'mem'} <= got:
        rep.undecided('R05.1', '%s:%s:union' % (U, fn), 'union arm not recognised (paths seen: %s)' % sorted(got))


# ------------------------------------------------------------------------------------------------
def cursor_threaded(be, it, ctx, out, rep, arm):
    """R05.7: the relocation cursor is threaded through every recursive call and returned"""
    vs = visits(be, it, ctx)
    cur = ctx.p_cur
    ok, msg, construct = True, '', 'cursor-threaded'
    for i, v in enumerate(vs):
        if settle(it, v['cur']) is not cur:
            ok = False; construct = 'call-gets-stale-cursor'
            msg = ('recursive call #%d in the %s arm of write_gvar_data is not given the relocation cursor returned by the previous call: relocations '
                   'appended by the previous sub-object are overwritten (its address constants are emitted as zero bytes)' % (i + 1, arm))
            break
        cur = v['res']
    if ok and settle(it, out[1]) is not cur:
        ok = False; construct = 'return-drops-callee-cursor'
        msg = ('the %s arm of write_gvar_data does not return the relocation cursor produced by its last recursive call: the next relocation of the same '
               'object is linked over the ones appended by this sub-object (pointer members are emitted as NULL)' % arm)
    rep.ob('R05.7', '%s:write_gvar_data:%s/%s' % (U, arm, construct), ok, msg, where='%s:%d' % (U, vs[-1]['line'] if vs else be.u.fn(be.fname).line), facts={'path': ctx.trail})


# ------------------------------------------------------------------------------------------------
ALL_ONES = (-1, (1 << 64) - 1)


def norm_merge(v):
    """recognise old | ((new & MASK) << o) up to commutativity, MASK = (1 << w) - 1 (form 'shift') or all ones / absent (form 'all');
    returns dict or None"""
    if not (isinstance(v, Term) and v.op == '|' and len(v.args) == 2):
        return None
    for old, sh in (v.args, v.args[::-1]):
        if isinstance(sh, Term) and sh.op == '<<':
            val, o = sh.args
            if isinstance(val, Term) and val.op == '&':
                for new, mask in (val.args, val.args[::-1]):
                    if isinstance(mask, int) and not isinstance(mask, bool) and mask in ALL_ONES:
                        return {'old': old, 'new': new, 'w': None, 'o': o, 'form': 'all'}
                    lm = Lin.of(mask)
                    if isinstance(lm, Lin) and lm.c == -1 and len(lm.terms) == 1:
                        (c, leaf), = lm.terms.values()
                        if c == 1 and isinstance(leaf, Term) and leaf.op == '<<' and leaf.args[0] == 1:
                            return {'old': old, 'new': new, 'w': leaf.args[1], 'o': o, 'form': 'shift'}
            elif isinstance(val, (Sym, Term)) and not (isinstance(old, Term) and old.op == '<<'):
                return {'old': old, 'new': val, 'w': None, 'o': o, 'form': 'all'}
    return None


def _width_is(ctx, m, n):
    w = m.fields.get('bit_width')
    if w is None:
        return False
    b = ctx.bounds.get(vkey(w))
    return bool(b) and b[0] == b[1] == n


def _branches_on_folded_value(ctx):
    evs = [vkey(e[4]) for e in ctx.events if e[0] == 'call' and e[1] in ('eval', 'eval2', 'eval_double', 'eval_truth') and len(e) > 4 and e[4] is not None]
    deps = set(ctx.facts) | set(ctx.bounds) | set(ctx.neq)
    return any(k in deps for k in evs)


def _subterms(v):
    yield v
    if isinstance(v, Term):
        for a in v.args:
            for x in _subterms(a):
                yield x
    else:
        l = Lin.of(v) if not isinstance(v, (int, Sym)) else None
        if isinstance(l, Lin):
            for c, leaf in l.terms.values():
                for x in _subterms(leaf):
                    yield x


def _mentions_all(v, leaves):
    subs = list(_subterms(v))
    return all(x is not None and any(y is x for y in subs) for x in leaves)


def _has_load(v):
    return any(isinstance(x, Term) and x.op == 'load' for x in _subterms(v))


def _merge_arith(rep, ctx, val):
    """64-bit arithmetic: every symbolic shift/mask feeding the merge is computed in a 64-bit type"""
    for e in ctx.events:
        if e[0] == 'binop' and e[1] in ('<<', '&', '|'):
            uses = e[4] is val or _contains(val, e[4])
            if uses:
                bits = ctype_bits(e[2])
                rep.ob('R05.4', '%s:write_gvar_data:merge-arithmetic-64-bit(%s)' % (U, e[1]), bits == 64,
                       'the bit-field merge computes `%s` in the %s-bit type `%s`: bit-fields of width >= %d (or ending above bit %d) are truncated' % (e[1], bits, e[2], (bits or 32) - 1, (bits or 32) - 1),
                       where='%s:%d' % (U, e[3]))


def r054_path(be, it, ctx, mems, rep, union=False):
    """static bit-field merge on one fully walked struct path (union=True: the chosen member of a union, which lives at offset 0)"""
    init = ctx.root_init
    stores = [e for e in ctx.events if e[0] == 'store']
    for m in mems:
        if field(m, 'is_bitfield') != 1:
            continue
        d = describe_member(it, init, m)
        where = _w(be.u, be.fname)
        if 'offset' not in m.fields and not union:
            mine = []
        else:
            addr = lsum(ctx.p_buf, ctx.p_off, m.fields['offset']) if 'offset' in m.fields else lsum(ctx.p_buf, ctx.p_off)
            mine = [s for s in stores if isinstance(s[1], Term) and s[1].op == 'mem' and lin_eq(s[1].args[0], addr)]
        if d.endswith('no-initializer'):
            rep.ob('R05.4', '%s:write_gvar_data:bit-field-without-initializer-untouched' % U, not mine,
                   'a bit-field without initializer is written', where=where)
            continue
        ext = sorted(set(e[1] for e in ctx.events if e[0] == 'call' and e[1] not in ('eval', 'eval2', 'eval_double')))
        if len(mine) != 1 and ext:
            rep.undecided('R05.4', '%s:write_gvar_data:bit-field-store' % U, 'the bit-field arm writes through %s(): not interpretable as a typed store' % '/'.join(ext), where=where)
            continue
        if len(mine) != 1:
            rep.ob('R05.4', '%s:write_gvar_data:bit-field-store-missing' % U, False,
                   'an initialised bit-field member leads to %d stores at buf+offset+mem->offset (expected one read-modify-write of its storage unit)' % len(mine),
                   where=where, facts={'path': ctx.trail, 'stores': [show(s[1]) for s in stores]})
            continue
        s = mine[0]
        val, cast_t = strip_cast(s[2])
        f = norm_merge(val)
        sz = field(field(m, 'ty'), 'size') if isinstance(field(m, 'ty'), Obj) else None
        szb = ctx.bounds.get(vkey(sz)) if sz is not None and not isinstance(sz, int) else ([sz, sz] if isinstance(sz, int) else None)
        width = ctype_bits(s[1].args[1])
        ok = f is not None
        msg = 'the value stored for a bit-field is %s, not old | ((new & ((1 << bit_width) - 1)) << bit_offset)' % show(val)
        construct = 'merge-formula'
        if f is None and _mentions_all(val, [m.fields.get('bit_width'), m.fields.get('bit_offset')]) and _has_load(val):
            # old bytes, field width and field offset all enter the stored value, but not in the shape this rule can read (e.g. a mask written
            # `~0UL >> (64 - w)`): the rule compares terms, it does not evaluate them, so an unknown shape gets no verdict (never a guessed one)
            rep.undecided('R05.4', '%s:write_gvar_data:merge-formula' % U, 'the value stored for a bit-field (%s) combines the old bytes, bit_width and bit_offset in a form the rule does not recognise' % show(val), where=where)
            _merge_arith(rep, ctx, val)       # the width of the arithmetic is judged whatever the shape
            continue
        if f is None:
            # the path branched on the folded initializer value itself (`eval_truth(e) ? 1 : 0`): the stored term holds a constant, the formula cannot be compared
            if _branches_on_folded_value(ctx):
                rep.undecided('R05.4', '%s:write_gvar_data:merge-formula' % U, 'the bit-field arm branches on the folded initializer value: the stored term %s cannot be compared with the merge formula' % show(val), where=where)
                continue
        if ok:
            old = f['old']
            okold = isinstance(old, Term) and old.op == 'load' and isinstance(old.args[0], Term) and old.args[0].op == 'mem' and lin_eq(old.args[0].args[0], s[1].args[0])
            ev = [e for e in ctx.events if e[0] == 'call' and e[1] in ('eval', 'eval2') and e[4] is f['new']]
            # a bit-field of type _Bool holds the CONVERTED value (1 iff the initializer compares unequal to 0), not its low bit
            mty = settle(it, field(m, 'ty'))
            mk = settle(it, mty.fields.get('kind')) if isinstance(mty, Obj) and 'kind' in mty.fields else None
            TB = be.E.get('TY_BOOL')
            if mk is None:
                may_bool, is_bool = True, False
            elif isinstance(mk, View):
                cs = [mk.proj(c) for c in mk.cell.cands]
                may_bool, is_bool = TB in cs, cs == [TB]
            else:
                may_bool = is_bool = (mk == TB)
            ch = field(init, 'children')
            el = None
            if isinstance(ch, Obj) and 'idx' in m.fields:
                k_ = vkey(m.fields['idx'])
                el = ch if k_ == 0 else ch.meta.get(('elem', k_))
            ex = settle(it, field(el, 'expr')) if isinstance(el, Obj) else None
            bj = _bool_value(it, be.E, ctx, f['new'], ex) if (may_bool and TB is not None and isinstance(ex, Obj)) else None
            if bj is not None and bj[0] is False:
                # an obligation of its own (the merge formula is judged independently below)
                rep.ob('R05.4', '%s:write_gvar_data:merge-new-value/%s' % (U, bj[1]), False,
                       'static bit-field of type _Bool (`struct { _Bool f:1; } s = {2};` stores 0, gcc and the automatic back end give 1): ' + bj[2],
                       where='%s:%d' % (U, s[3]), facts={'path': ctx.trail})
            if not okold:
                ok = False; msg = 'the bit-field merge does not start from the bytes already in the storage unit (neighbouring bit-fields are lost)'; construct = 'merge-old-value'
            elif bj is not None and bj[0] is True and is_bool:
                pass
            elif not ev and _branches_on_folded_value(ctx):
                rep.undecided('R05.4', '%s:write_gvar_data:merge-formula' % U, 'the bit-field arm branches on the folded initializer value: the merged value %s cannot be traced to it' % show(f['new']), where=where)
                continue
            elif not ev:
                ok = False; msg = 'the merged value is not the evaluated initializer expression'; construct = 'merge-new-value'
            elif (f['form'] == 'shift' and f['w'] is not m.fields.get('bit_width')) or f['o'] is not m.fields.get('bit_offset'):
                ok = False; msg = 'mask width / shift are %s / %s, expected mem->bit_width / mem->bit_offset' % (show(f['w']), show(f['o'])); construct = 'merge-width-offset'
            elif f['form'] == 'all' and not _width_is(ctx, m, 64):
                ok = False; construct = 'merge-unmasked'
                msg = 'the initializer value of a bit-field is merged without masking it to the field width although the width is not known to be 64: excess bits spill into the neighbouring fields'
            elif not (szb and szb[0] == szb[1] and width == 8 * szb[0] and ctype_bits(old.args[0].args[1]) == width):
                ok = False; construct = 'merge-unit-width'
                msg = 'the storage unit of a bit-field of a %s-byte type is read with %s bits and written with %s bits' % (szb[0] if szb else '?', ctype_bits(old.args[0].args[1]), width)
        rep.ob('R05.4', '%s:write_gvar_data:%s' % (U, construct), ok, msg, where='%s:%d' % (U, s[3]), facts={'path': ctx.trail})
        if ok and f['form'] == 'shift':
            # (1 << w) - 1 computed in a B-bit type is undefined for w == B; a bit-field may be as wide as its (up to 64-bit) type
            sh = [e for e in ctx.events if e[0] == 'binop' and e[1] == '<<' and isinstance(e[4], Term) and e[4].args[0] == 1 and e[4].args[1] is f['w']]
            B = ctype_bits(sh[0][2]) if sh else None
            if B == 64:
                wb = ctx.bounds.get(vkey(f['w']))
                excluded = (wb is not None and wb[1] < 64) or 64 in ctx.neq.get(vkey(f['w']), ())
                rep.ob('R05.4', '%s:write_gvar_data:merge-mask-full-width' % U, excluded,
                       'the mask (1L << bit_width) - 1 is computed for every width including 64: for a bit-field as wide as its 64-bit type (`long a:64`) the shift count equals the '
                       'type width (undefined; 1L << 64 == 1 on x86), the mask becomes 0 and the member is stored as 0', where='%s:%d' % (U, sh[0][3]))
        _merge_arith(rep, ctx, val)


def _store_place(s):
    """(address, C type of the lvalue) of a ('store', place, value, line) event through an opaque pointer, else None"""
    p = s[1]
    if isinstance(p, Term) and p.op == 'mem':
        return p.args[0], p.args[1]
    if isinstance(p, Term) and p.op == 'elem':
        base, idx, ct = p.args
        bits = ctype_bits(ct)
        if bits and bits % 8 == 0:
            a = lsum(base, lscale(idx, bits // 8))
            if a is not None:
                return a, ct
    return None


def _truth_base(v):
    """X if v is a truth value of X ((X != 0), !!X, nested), else None"""
    got = None
    while True:
        v, _ = strip_cast(v)
        if isinstance(v, Term) and v.op.split(':')[0] == '!=' and len(v.args) == 2:
            a, b = v.args
            if isinstance(b, (int, float)) and not isinstance(b, bool) and b == 0:
                got = v = a; continue
            if isinstance(a, (int, float)) and not isinstance(a, bool) and a == 0:
                got = v = b; continue
        if isinstance(v, Term) and v.op == '!' and isinstance(v.args[0], Term) and v.args[0].op == '!':
            got = v = v.args[0].args[0]; continue
        return got


def _float_kinds(E):
    return set(E[k] for k in ('TY_FLOAT', 'TY_DOUBLE', 'TY_LDOUBLE') if k in E)


def _may_be_floating(it, E, e):
    """may the type of expression node e be a floating type on this path (as far as the path looked at it)?"""
    e = settle(it, e)
    ty = e.fields.get('ty') if isinstance(e, Obj) else None
    ty = settle(it, ty)
    if isinstance(ty, View):
        return True
    k = ty.fields.get('kind') if isinstance(ty, Obj) else None
    if k is None:
        return True
    k = settle(it, k)
    if isinstance(k, View):
        return any(k.proj(c) in _float_kinds(E) for c in k.cell.cands)
    return k in _float_kinds(E)


def _bool_value(it, E, ctx, val, e, root_ty=None):
    """judge the value stored for an object of type _Bool initialised by expression node e (C11 6.3.1.2: 1 iff the value compares unequal to 0).
    returns (ok, construct, message) ; ok None = shape not recognised"""
    calls = [ev for ev in ctx.events if ev[0] == 'call' and ev[1] in ('eval', 'eval2', 'eval_double', 'eval_truth')]

    def src_of(x):
        for ev in calls:
            if ev[4] is x:
                return ev
        return None

    def arg_is_expr(ev):
        for a in ev[2]:
            a = settle(it, a)
            if a is e:
                return 'expr'
            for c in ctx.events:
                # the conversion delegated to the ND_CAST arm of the evaluator: eval(new_cast(init->expr, ty))
                if c[0] == 'call' and c[1] == 'new_cast' and c[4] is a and len(c[2]) >= 2 and settle(it, c[2][0]) is e:
                    return 'cast'
        return None
    raw, _ = strip_cast(val)
    ev = src_of(raw)
    if ev is not None:
        how = arg_is_expr(ev)
        if how == 'cast' or (how == 'expr' and ev[1] == 'eval_truth'):
            return True, 'converted', ''
        if how == 'expr':
            return (False, 'bool-not-converted',
                    'the value of the initializer is stored into a _Bool object as its low byte / its low bits instead of being converted (C11 6.3.1.2: 1 if it compares unequal to 0): '
                    '`static _Bool b = 256;` stores 0, `static _Bool b = 2;` stores 2, `= 0.5` stores 0, while the same initializer of an automatic object gives 1')
        return None, '', ''
    base = _truth_base(val)
    if base is None:
        return None, '', ''
    ev = src_of(base)
    if ev is None or arg_is_expr(ev) is None:
        return None, '', ''
    if ev[1] in ('eval', 'eval2') and arg_is_expr(ev) == 'expr' and _may_be_floating(it, E, e):
        return (False, 'bool-from-truncated-floating-value',
                'the truth value stored into a _Bool object is computed from the initializer folded as an INTEGER although the expression may be floating: 0.5 is truncated to 0 first '
                '(`static _Bool b = 0.5;` must be 1)')
    return True, 'converted', ''


_FLOAT_RANK = {'float': 1, 'double': 2, 'long double': 3}


def _cast_chain(v):
    """types of the conversions wrapped around a value, outermost first"""
    out = []
    while isinstance(v, Term) and v.op.startswith('cast:'):
        out.append(v.op[5:].replace('const ', '').replace('volatile ', '').strip())
        v = v.args[0]
    return out


def _lossy_conversions(v, name, size):
    """conversions in the cast chain of a stored value that lose values of the destination type class `name` (size bytes): for a floating object
    a conversion to a floating type of lower precision or to an integer type; for an integer/pointer object a conversion to a narrower integer
    type or to a floating type with fewer mantissa bits than the object has value bits"""
    bad = []
    for t in _cast_chain(v):
        if name in FLOATS:
            r = _FLOAT_RANK.get(t)
            if r is None:
                if int_type(t) is not None:
                    bad.append(t)
                continue
            if r < _FLOAT_RANK[FLOATS[name]]:
                bad.append(t)
        else:
            it_ = int_type(t)
            if it_ is not None:
                bits = 8 if it_[0] == 1 else it_[0]
                if bits < 8 * size:
                    bad.append(t)
            elif t in _FLOAT_RANK:
                mant = {'float': 24, 'double': 53, 'long double': 64}[t]
                if mant < 8 * size:
                    bad.append(t)
    return bad


def _contains(v, t):
    if v is t:
        return True
    if isinstance(v, Term):
        return any(_contains(a, t) for a in v.args)
    if isinstance(v, Lin):
        return any(_contains(l, t) for c, l in v.terms.values())
    return False


# ------------------------------------------------------------------------------------------------
def r052_scalars(P, u, E, cat, rep):
    """scalar tail of write_gvar_data for every scalar type of the catalogue; also R05.7 relocation creation"""
    be = BackEnd(P, u, E, 'write_gvar_data')
    it = be.interp()
    res = it.explore('write_gvar_data', be.args(lambda ctx: type_cell(cat, 'ty', only=SCALARS), init_expr=lambda ctx: Obj('Node', lazy=True, label='init.expr')))
    done = {}
    nrel = 0
    for ctx, out in res:
        e = ctx.root_init.fields['expr']
        names = [n for n in cat_of(ctx.root_ty) if n]
        lab = [ev for ev in ctx.events if ev[0] == 'call' and ev[1] == 'eval2' and ev[5] is not None]
        stores = [ev for ev in ctx.events if ev[0] == 'store']
        where = _w(u, 'write_gvar_data')
        if lab:
            if out[0] != 'ret':
                continue
            nrel += 1
            r057_reloc(be, it, ctx, out, lab[-1], stores, rep)
            continue
        for name in names:
            size = dict(cat.entries())[name]['size']
            key = '%s:write_gvar_data:scalar/%s' % (U, name)
            if out[0] != 'ret':
                how = 'internal-error' if out[1] == 'error' else 'rejected'
                fa = out[2]
                rep.ob('R05.2', key + ':' + how, False,
                       'a static object of type class `%s` (size %d) with a constant initializer has no storage arm: write_gvar_data ends in %s(%s) instead of storing the value'
                       % (name, size, out[1], ', '.join(show(a) for a in fa[:1])), where='%s:%d' % (U, out[3]), facts={'path': ctx.trail})
                done[name] = True
                continue
            ok, msg, construct = True, '', 'stored'
            ext = sorted(set(ev[1] for ev in ctx.events if ev[0] == 'call' and ev[1] not in ('eval', 'eval2', 'eval_double')))
            if len(stores) != 1 and ext:
                rep.undecided('R05.2', key, 'the scalar arm writes through %s(): not interpretable as a typed store' % '/'.join(ext), where=where)
                done[name] = True
                continue
            if len(stores) != 1 or _store_place(stores[0]) is None:
                ok = False; construct = 'store-count'; msg = 'a scalar of type class `%s` leads to %d stores into the image (expected exactly one)' % (name, len(stores))
            else:
                s = stores[0]
                addr, ct = _store_place(s)
                val, cast_t = strip_cast(s[2])
                bj = _bool_value(it, E, ctx, s[2], e) if name == 'bool' else None
                if not lin_eq(addr, lsum(ctx.p_buf, ctx.p_off)):
                    ok = False; construct = 'store-address'; msg = 'the value of a `%s` is stored at %s, not at buf + offset' % (name, show(addr))
                elif ctype_bits(ct) != 8 * size:
                    ok = False; construct = 'store-width'
                    msg = 'a `%s` (size %d) is stored through an lvalue of type `%s` (%s bits): %s' % (name, size, ct, ctype_bits(ct), 'neighbouring bytes are overwritten' if (ctype_bits(ct) or 0) > 8 * size else 'the upper bytes keep the zero fill')
                elif bj is not None and bj[0] is None:
                    rep.undecided('R05.2', key + ':bool-conversion', 'the value stored for a _Bool (%s) is not recognised as the raw or the converted initializer value' % show(s[2]), where=where)
                    done[name] = True
                    continue
                elif bj is not None:
                    ok, construct, msg = bj[0], ('stored' if bj[0] else bj[1]), bj[2]
                else:
                    src = [ev for ev in ctx.events if ev[0] == 'call' and ev[4] is val]
                    isf = name in FLOATS
                    if not src:
                        ok = False; construct = 'store-value'; msg = 'the stored value %s of a `%s` is not the evaluated initializer' % (show(val), name)
                    elif isf and (src[0][1] != 'eval_double' or ct.replace('const ', '') != FLOATS[name]):
                        ok = False; construct = 'store-float-representation'
                        msg = 'a `%s` is stored as `%s` from %s(): the bytes are not the IEEE representation of the value in that type' % (name, ct, src[0][1])
                    elif not isf and (src[0][1] not in ('eval2', 'eval') or int_type(ct) is None):
                        ok = False; construct = 'store-integer-representation'
                        msg = 'an integer/pointer `%s` is stored as `%s` from %s()' % (name, ct, src[0][1])
                    elif not any(a is e for a in src[0][2]):
                        ok = False; construct = 'store-value'; msg = 'the evaluated expression is not init->expr'
                    else:
                        lossy = _lossy_conversions(s[2], name, size)
                        if lossy:
                            ok = False; construct = 'store-value-narrowed-through-' + lossy[0].replace(' ', '-')
                            msg = ('on its way from %s() to the image the value of a `%s` object passes through a conversion to `%s`, which cannot represent every value of the object\'s type: '
                                   'the static object receives a rounded/truncated value (`static long double x = 0.1L;` keeps 53 of 64 mantissa bits) while the automatic object initialised by '
                                   'the same expression keeps the full value' % (src[0][1], name, lossy[0]))
            if settle(it, out[1]) is not ctx.p_cur:
                ok = False; construct = 'cursor'; msg = 'a scalar without address constant changes the relocation cursor'
            rep.ob('R05.2', key + ':' + construct, ok, msg, where=where, facts={'path': ctx.trail})
            done[name] = True
    missing = [n for n in SCALARS if n not in done]
    if missing:
        rep.undecided('R05.2', '%s:write_gvar_data:scalar' % U, 'no path for scalar type classes %s' % missing)
    if nrel == 0:
        rep.undecided('R05.7', '%s:write_gvar_data:relocation' % U, 'no path creates a relocation for an address constant')
    # absent initializer: nothing is written
    it2 = be.interp()
    for ctx, out in it2.explore('write_gvar_data', be.args(lambda ctx: type_cell(cat, 'ty', only=SCALARS), init_expr=0)):
        stores = [ev for ev in ctx.events if ev[0] == 'store']
        ok = out[0] == 'ret' and not stores and settle(it2, out[1]) is ctx.p_cur
        rep.ob('R05.2', '%s:write_gvar_data:scalar-without-initializer-keeps-zero' % U, ok,
               'a scalar sub-object without initializer is not left as zero fill (outcome %s, %d stores)' % (out[0], len(stores)), where=_w(u, 'write_gvar_data'))


def r052_truth_helper(P, u, E, rep):
    """eval_truth (used by the static back end to convert an initializer to _Bool): 1 iff the folded value compares unequal to 0, a floating
    expression folded as a floating value"""
    fn = 'eval_truth'
    if fn not in u.functions:
        return
    it = TInterp(P, u, {'opaque': ['eval', 'eval2', 'eval_double', 'add_type'], 'track_stores': True})

    def mk(ctx):
        ctx.node = Obj('Node', lazy=True, label='node')
        return [ctx.node]
    n = 0
    for ctx, out in it.explore(fn, mk):
        if out[0] != 'ret':
            continue
        n += 1
        bj = _bool_value(it, E, ctx, Term('!=', out[1], 0), ctx.node)
        key = '%s:%s:truth-of-the-folded-value' % (U, fn)
        if bj[0] is None:
            rep.undecided('R05.2', key, 'the value returned by eval_truth (%s) is not recognised as a truth value of the folded expression' % show(out[1]), where=_w(u, fn))
        else:
            rep.ob('R05.2', key if bj[0] else key + '/' + bj[1], bj[0], 'eval_truth (conversion of a constant initializer to _Bool): ' + bj[2], where=_w(u, fn), facts={'path': ctx.trail})
    if n == 0:
        rep.undecided('R05.2', '%s:%s' % (U, fn), 'no returning path')


def r057_reloc(be, it, ctx, out, call, stores, rep):
    where = _w(be.u, 'write_gvar_data')
    rel = settle(it, out[1])
    val, lab = call[4], call[5]
    ok, msg, construct = True, '', 'relocation-record'
    if not isinstance(rel, Obj) or rel.lazy or rel is ctx.p_cur:
        ok = False; construct = 'relocation-not-returned'
        msg = 'an initializer that is an address constant (label+addend) does not return a freshly allocated relocation as the new list tail'
    else:
        if not same(it, rel.fields.get('offset', 0), ctx.p_off):
            ok = False; construct = 'relocation-offset'; msg = 'the relocation is recorded at offset %s, not at the element offset' % show(rel.fields.get('offset', 0))
        elif rel.fields.get('label', 0) is not lab:
            ok = False; construct = 'relocation-label'; msg = 'the relocation does not carry the label produced by eval2'
        elif rel.fields.get('addend', 0) is not val:
            ok = False; construct = 'relocation-addend'; msg = 'the relocation addend is %s, not the value produced by eval2' % show(rel.fields.get('addend', 0))
        elif field(ctx.p_cur, 'next') is not rel:
            ok = False; construct = 'relocation-not-linked'; msg = 'the new relocation is not linked behind the cursor (cur->next)'
        elif not is_null(settle(it, rel.fields.get('next', 0))):
            ok = False; construct = 'relocation-next'; msg = 'the new relocation does not end the list'
    if ok and stores:
        ok = False; construct = 'relocation-and-bytes'; msg = 'bytes are also written for an address constant'
    rep.ob('R05.7', '%s:write_gvar_data:%s' % (U, construct), ok, msg, where=where, facts={'path': ctx.trail})


# ------------------------------------------------------------------------------------------------
def run(P, rep, tier):
    u = P.unit(U)
    _need(u, 'write_gvar_data', 'create_lvar_init', 'lvar_initializer', 'gvar_initializer', 'eval2', 'eval_rval',
          'string_initializer', 'write_buf', 'read_buf')
    E = u.enums
    for k in ('TY_ARRAY', 'TY_STRUCT', 'TY_UNION', 'TY_FLOAT', 'TY_DOUBLE', 'ND_ASSIGN', 'ND_COMMA', 'ND_MEMZERO'):
        if k not in E:
            raise AnalysisBroken('enumerator %s vanished' % k)
    cat = Catalogue(P)
    rep.explanation = ('Both initializer back ends (create_lvar_init, write_gvar_data) are interpreted abstractly per type class with the recursive call cut '
                       '(structural induction over the initializer tree); the sub-objects they visit, the bytes they store, the relocation cursor they thread, '
                       'the address-constant arms of eval2/eval_rval, string_initializer, lvar_initializer/gvar_initializer, init_desg_expr, the ND_MEMZERO/ND_COMMA arms of '
                       'gen_expr and the image walk of emit_data are compared with oracles transcribed from C11 6.7.9. Of the designator/brace-elision cursor logic of the '
                       'parser only the resume position after a designator (R05.8, sibling agreement of the cursor-walk functions), whole-aggregate copy initialisation (taken exactly for an expression of the '
                       'object\'s own type; an expression of any other type and a string literal for an array of non-character elements go to the first member/element by brace elision), '
                       'the completion of arrays of unknown bound / flexible array members (R05.9: declared element type, length from the initializer, final type handed to '
                       'the object) and the override of an earlier initializer of the same sub-object by a later one (R05.10: union member selection, scalar expression, '
                       'whole-struct copy expression) and the member lookup of a `.name` designator (R05.12: exact name match, members passed over differ, anonymous aggregates '
                       'probed) are decided; the constant-expression evaluator is checked per node kind for its label discipline and for evaluating exactly the selected arm of a '
                       'conditional (R05.11); the token-stream dependent rest (brace elision, excess elements) is not, nor is the reset of '
                       'individual members when a whole aggregate sub-object is initialised a second time by a list. '
                       'Further decided: the member cursor passes over unnamed bit-fields (R05.13, C11 6.7.9p9); the separator protocol of the list walk (R05.14: every element parser '
                       'is entered at the start of an element, `,` is skipped exactly behind an element, also when a walk is continued behind a designated sub-object or brace-elided; '
                       'trailing comma); aggregates without members are initialised without touching children or NULL members (R05.15); a static _Bool object / bit-field receives '
                       'the converted value (R05.2/R05.4); every lvalue kind of array type is an address constant in eval2 (R05.7). '
                       'Round 7: the value of a static scalar passes through no conversion that loses values of the object\'s type on its way from the evaluator to the image (R05.2 '
                       'store-value-narrowed) and eval_double folds every node kind in the precision of the node\'s type (R05.20); the chosen member of a static union that is a bit-field is '
                       'merged with its own width (R05.1 union/...bit-field, R05.4); a string literal enclosed in braces initialises a character array as a whole (R05.6 braced-string-literal, '
                       'initializer2 run on the token sequence `{ "literal" }`); array designator indices are range-checked as 64-bit values (R05.19); no function writes a type object that '
                       'other declarations share (R05.18 = C08 R08.6: a typedef of an array of unknown bound must stay incomplete for later initializers).')
    rep.assumptions += ['calloc succeeds', 'loops over members/elements are analysed for 0..2 generic iterations; the facts checked are per-iteration facts',
                        'bit-field members have an integer type of size 1, 2, 4 or 8',
                        'formula rules compare normalised terms (commutativity of | and &); an equivalent rewrite outside that form would be reported',
                        'R05.14 judges token sequences of valid programs: behind an element stands `,` or `}`, an element does not start with `,`; array designator indices are non-negative',
                        'R05.13/R05.14 walk member lists of at most 3 members behind any starting member (per-member facts)']
    rep.rule('R05.1', 'both back ends visit exactly the sub-objects C11 6.7.9 prescribes: array elements 0..len-1 at stride base->size, every struct member (no arm leaves the member walk), the chosen union member; a struct-valued initializer expression is honoured or diagnosed; the parser takes an expression as the value of a whole struct/union exactly when it has the object\'s own type (also through a copy_type() copy), any other expression initialises the first member by brace elision', floor=20)
    rep.rule('R05.2', 'the static back end stores every scalar type class with its own width and representation (or nothing when there is no initializer)', floor=14)
    rep.rule('R05.4', 'static bit-field merge is old | ((new & ((1 << width) - 1)) << offset), computed in 64 bits, read and written with the width of the storage unit', floor=4)
    rep.rule('R05.7', 'address constants: the relocation cursor is threaded through every recursive call and returned; a label+addend becomes a relocation at the element offset; eval2/eval_rval add member offsets', floor=13)
    rep.rule('R05.13', 'members that do not take part in initialization (unnamed bit-fields, C11 6.7.9p9) never receive a positional initializer: the member cursor of '
             'struct_initializer1, struct_initializer2 and the default member of union_initializer pass over them', floor=3)
    copies = r051_copy(P, u, E, rep)
    bs = BackEnd(P, u, E, 'write_gvar_data')
    bl = BackEnd(P, u, E, 'create_lvar_init')
    for be in (bs, bl):
        r051_array(be, rep)
        r051_struct(be, rep)
        r051_struct_expr(be, rep)
        if copies.get('union'):
            # only when the parser produces whole-union initializer expressions at all
            r051_struct_expr(be, rep, 'TY_UNION', 'union')
        r051_union(be, rep)
    r052_scalars(P, u, E, cat, rep)
    r052_truth_helper(P, u, E, rep)
    r052_lvar(P, u, E, cat, rep)
    r057_addr(P, u, E, cat, rep)
    r058(P, u, E, rep)
    r055(P, rep)
    r053(P, u, E, rep)
    r056(P, u, E, cat, rep)
    r059(P, u, E, cat, rep)
    r0510(P, u, E, rep, copies)
    r0511(P, u, E, cat, rep)
    r0512(P, u, E, rep)
    r0514(P, u, E, rep)
    r0516(P, rep)
    r0517(P, rep, tier)
    r0518(P, u, rep)
    r0519(P, u, E, rep)
    from ..lib_c05b import r_fold_precision
    r_fold_precision(P, u, E, rep, U)
    from ..lib_c05c import r0521, r0522
    r0521(P, u, E, rep)
    r0522(P, u, E, rep)


def _fact_holds(ctx, op, a, b):
    """is the comparison `a op b` (op in < >=) a consequence of one recorded decision of the path? (both spellings, both senses)"""
    NEG = {'<': '>=', '>=': '<', '>': '<=', '<=': '>'}
    SWAP = {'<': '>', '>': '<', '<=': '>=', '>=': '<='}
    ka, kb = vkey(a), vkey(b)
    for k, truth in ctx.facts.items():
        if not (isinstance(k, tuple) and len(k) == 4 and k[0] == 'term'):
            continue
        o = str(k[1]).split(':')[0]
        if o not in NEG:
            continue
        if not truth:
            o = NEG[o]
        if (k[2], k[3]) == (ka, kb) and o == op:
            return True
        if (k[2], k[3]) == (kb, ka) and SWAP[o] == op:
            return True
    if isinstance(b, int) and op == '>=':
        bd = ctx.bounds.get(ka)
        return bool(bd) and bd[0] >= b
    return False


def r0519(P, u, E, rep):
    """array_designator: the index of `[i]` / `[lo ... hi]` is an integer constant expression of 64 bits; the element it designates is
    init->children[i], so 0 <= i < array_len must be established for the VALUE OF THE EXPRESSION - a check made on a copy narrowed to int accepts
    `[0x100000000] = 1` as element 0 (C11 6.7.9p6: the index shall designate an element of the array)"""
    fn = 'array_designator'
    rep.rule('R05.19', 'an array designator index is range-checked (0 <= begin <= end < array_len) as the value of its constant expression, not as a copy narrowed to a smaller integer '
             'type: the element initialised is the one the program designates, an index outside the array is diagnosed', floor=2)
    it = _cursor_interp(P, u, drop=(fn,))
    ps = u.params(fn)
    if len(ps) != 5:
        raise AnalysisBroken('array_designator no longer takes (rest, tok, ty, begin, end)')

    def mk(ctx):
        ctx.ty = Obj('Type', lazy=True, label='ty')
        ctx.b, ctx.e, ctx.slot = _Slot(), _Slot(), _Slot()
        ctx.b.v = ctx.e.v = None
        return [_Ref(ctx.slot), Obj('Token', lazy=True, label='tok'), ctx.ty, _Ref(ctx.b), _Ref(ctx.e)]
    n = 0
    where = _w(u, fn)
    for ctx, out in it.explore(fn, mk):
        if out[0] != 'ret':
            continue
        ces = [e[1] for e in ctx.events if e[0] == 'cexpr']
        alen = field(ctx.ty, 'array_len')
        rng = len(ces) == 2
        form = 'range' if rng else 'index'
        for what, slot in (('begin', ctx.b), ('end', ctx.e)):
            X = slot.v
            raw = strip_cast(X)[0]
            key = '%s:%s:%s' % (U, fn, what if what == 'begin' else form + '-end')
            want = ces[0] if (what == 'begin' or not rng) else ces[-1]
            if what == 'end' and not rng:
                rep.ob('R05.19', key + '-is-begin', X is not None and bool(ces) and raw is want, '`[i] = v` does not designate the one-element range i..i (end is %s)' % show(X), where=where)
                continue
            if X is None or not ces or raw is not want or alen is None:
                rep.undecided('R05.19', key, 'the value handed back as `%s` (%s) is not recognised as the value of the designator\'s constant expression, or ty->array_len is never read' % (what, show(X)), where=where)
                continue
            n += 1
            narrow = [t for t in _cast_chain(X) if int_type(t) is not None and (8 if int_type(t)[0] == 1 else int_type(t)[0]) < 64]

            def checked(v):
                lo = _fact_holds(ctx, '>=', v, 0)
                if what == 'end' and rng:
                    b0 = ctx.b.v
                    lo = lo or any(_fact_holds(ctx, '>=', v, w) for w in (b0, strip_cast(b0)[0]))
                return lo and _fact_holds(ctx, '<', v, alen)
            if checked(raw):
                rep.ob('R05.19', key + ':checked-as-evaluated', True, '', where=where)
            elif narrow and checked(X):
                rep.ob('R05.19', key + ':checked-after-narrowing-to-' + narrow[0].replace(' ', '-'), False,
                       'the %s index of an array designator is converted from the 64-bit value of its constant expression to `%s` BEFORE it is compared with 0 and the array length: '
                       '`int a[4] = {[0x100000000] = 1};` passes the check as index 0 and silently initialises a[0] (gcc: "array index in initializer exceeds array bounds")' % (what, narrow[0]),
                       where=where, facts={'path': ctx.trail})
            else:
                rep.undecided('R05.19', key, 'no comparison of the %s index with 0 / the array length is recognised on an accepting path of array_designator' % what, where=where)
    if n == 0:
        rep.undecided('R05.19', '%s:%s' % (U, fn), 'no accepting path recognised')


def r0518(P, u, rep):
    """the size of an object whose bound comes from its initializer (`T a[] = {...}`, a flexible array member) is computed from the declared type
    object: `typedef int Vec[]; Vec v = {1, 2, 3};` needs the typedef's type to be an array of unknown bound still. Any code that completes or
    otherwise rewrites a type object it shares with other declarations (a flexible member completed in place, an element type patched) makes a later
    initializer produce another object than C11 6.7.9p22 prescribes. C08's ownership rule, re-used"""
    from ..report import Report, reissue
    from . import c08
    rep.rule('R05.18', 'the type object a declaration hands to its initializer (array of unknown bound to be completed from the initializer, C11 6.7.9p22; flexible array member) is the '
             'declared one: no function stores into a Type/Member object that other declarations share - a type is completed or adjusted on a fresh copy (array_of, copy_type), never in '
             'place (same obligations as C08 R08.6)', floor=30)
    sub = Report('C08')
    try:
        c08.r086(P, u, sub)
    except AnalysisBroken as e:
        rep.undecided('R05.18', 'parse.c:scope:type-object-ownership', 'could not be evaluated: %s' % e)
        return
    except RecursionError:
        rep.undecided('R05.18', 'parse.c:scope:type-object-ownership', 'expression nesting too deep for the ownership analysis')
        return
    reissue(rep, 'R05.18', sub, 'a later object declared with the same type (e.g. through a typedef of an array of unknown bound) gets a wrong size and loses its initializers: ',
            keep=lambda o: o['key'].startswith('R08.6:'))


def r0517(P, rep, tier):
    """an automatic compound literal is ND_COMMA(initialising assignments, variable); used as an lvalue (`&(T){...}`, `(T){...}.m`) it is lowered by
    gen_addr: the initialising expressions are evaluated for their side effects only and must leave nothing behind - the value of a long double
    member assignment stays on the x87 stack otherwise and the 8th evaluation stores NaN. C20's gen_addr effect rule, re-used"""
    from ..report import Report, reissue
    from . import c20
    rep.rule('R05.17', 'the initialising assignments of a compound literal used as an lvalue are evaluated for their side effects only: gen_addr of ND_COMMA (and every other gen_addr arm) leaves the machine stack and the x87 stack as it found them (same obligations as C20 R20.7)', floor=5)
    sub = Report('C20')
    c20.run(P, sub, tier)
    reissue(rep, 'R05.17', sub, 'a long double member of a compound literal would be initialised with NaN after a few evaluations: ', keep=lambda o: o['key'].startswith('R20.7:'))


def r0516(P, rep):
    """the image of a static object is computed while a parser context flag says "inside a static initialiser": a compound literal nested in such an
    initialiser is an anonymous static object only while the flag is up, and the inner activation of gvar_initializer (for that literal) must hand the
    context back. C15's static-context rule, re-used"""
    from ..report import Report, reissue
    from ..chibi import CG
    from . import c15
    rep.rule('R05.16', 'gvar_initializer establishes the static-initialiser context for the whole parse of the initialiser, a nested activation (compound literal inside the initialiser) returns with the context it was entered with, and the context ends with the outermost initialiser (same obligations as C15 R15.6 static-context): otherwise a later compound literal of the same initialiser becomes an automatic object and the initialiser is rejected or takes a stack address', floor=2)
    sub = Report('C15')
    sub.rule('R15.6', '', 1)
    try:
        c15.r156_static_context(c15.ParseEnv(P, CG(P)), sub, ('new_anon_gvar', 'new_gvar', 'new_var', 'new_unique_name', 'new_string_literal'))
    except AnalysisBroken as e:
        rep.undecided('R05.16', 'parse.c:gvar_initializer:static-context', 'could not be evaluated: %s' % e)
        return
    reissue(rep, 'R05.16', sub, 'a static initialiser holding a compound literal would be translated wrongly: ')


# ------------------------------------------------------------------------------------------------
# R05.7 address-constant arms of eval2 / eval_rval
# ------------------------------------------------------------------------------------------------
# kind -> (recursive terms [(callee, child field, label passed on?, sign)], member offset added?, label source or None)
ADDR_SPEC = {
    'eval2': {
        'ND_ADDR': ([('eval_rval', 'lhs', True, 1)], False, None),
        'ND_LABEL_VAL': ([], False, ('node', 'unique_label')),
        'ND_MEMBER': ([('eval_rval', 'lhs', True, 1)], True, None),
        'ND_VAR': ([], False, ('var', 'name')),
        # every lvalue kind of eval_rval can have array type; as a value it is the address of its first element (C11 6.3.2.1p3):
        # `a[1]` of `int a[3][4]` (ND_DEREF of array type) in `&a[1][2]` / `int *q = a[1];`
        'ND_DEREF': ([('eval2', 'lhs', True, 1)], False, None),
        'ND_ADD': ([('eval2', 'lhs', True, 1), ('eval2', 'rhs', False, 1)], False, None),
        'ND_SUB': ([('eval2', 'lhs', True, 1), ('eval2', 'rhs', False, -1)], False, None),
        'ND_COMMA': ([('eval2', 'rhs', True, 1)], False, None),
        'ND_CAST': ([('eval2', 'lhs', True, 1)], False, None),
    },
    'eval_rval': {
        'ND_VAR': ([], False, ('var', 'name')),
        'ND_DEREF': ([('eval2', 'lhs', True, 1)], False, None),
        'ND_MEMBER': ([('eval_rval', 'lhs', True, 1)], True, None),
    },
}
WHAT = {'ND_ADDR': '&lvalue', 'ND_LABEL_VAL': '&&label', 'ND_MEMBER': 'an array member (decays to its address)', 'ND_VAR': 'an array/function designator',
        'ND_ADD': 'address + n', 'ND_SUB': 'address - n', 'ND_COMMA': '(x, address)', 'ND_CAST': '(T)address', 'ND_DEREF': '*pointer as lvalue'}
WHAT2 = {'ND_DEREF': 'an element lvalue of array type, e.g. a[1] of a two-dimensional array (decays to its address: `&a[1][2]`, `int *q = a[1];`)'}


class _Slot:
    """a C variable of type char ** living outside the interpreted function (the caller's `label`)"""
    def __init__(self):
        self.v = 0

    def get(self, it):
        return self.v

    def set(self, it, v):
        self.v = v


def _offer_slot(it, ctx, name, args):
    """an operand evaluation (a cut recursive call) is handed the caller's label slot: returns whether the slot was KNOWN to be empty at that moment
    (None: the slot was not handed over). Afterwards the slot holds what that operand may have recorded - nothing (an integer operand) or its own
    symbol (an address operand): a two-candidate value the code under analysis can test (`!*label`), so `1 + (long)&x` style arms that offer the
    slot to a second operand only while it is still empty are told apart from arms that let a second operand overwrite the first one's symbol"""
    if not (len(args) > 1 and args[1] is ctx.lref):
        return None
    cur = settle(it, ctx.slot.v)
    empty = is_null(cur)
    k = len(getattr(ctx, 'c05_offers', ()))
    sym = Obj('char', lazy=True, label='symbol-recorded-by-%s#%d' % (name, k))
    val = View(Cell([0, sym], 'slot-after-%s#%d' % (name, k))) if empty else sym
    ctx.slot.v = val
    ctx.c05_offers = list(getattr(ctx, 'c05_offers', ())) + [(val, sym)]
    return empty


def _slot_untouched(it, ctx):
    """the arm itself has not written the slot: it is empty, or holds what an operand evaluation may have recorded there"""
    v = ctx.slot.v
    if is_null(v):
        return True
    w = settle(it, v)
    if is_null(w):
        return True
    return any(v is val or w is sym for val, sym in getattr(ctx, 'c05_offers', ()))


def r057_addr(P, u, E, cat, rep):
    for fn, table in ADDR_SPEC.items():
        for kind, (terms, plus, labsrc) in table.items():
            if kind not in E:
                raise AnalysisBroken('enumerator %s vanished' % kind)
            _addr_arm(P, u, E, cat, rep, fn, kind, terms, plus, labsrc)


def _addr_arm(P, u, E, cat, rep, fn, kind, terms, plus, labsrc):
    def h(name):
        def f(it, ctx, n, args):
            r = Sym(ctx.fresh(name), 'long')
            ctx.emit('rec', name, args, r, n.line, _offer_slot(it, ctx, name, args))
            return r
        return f
    it = TInterp(P, u, {'cut': {'eval2': h('eval2'), 'eval_rval': h('eval_rval')}, 'opaque': ['add_type', 'eval_double'], 'track_stores': True})

    def mk(ctx):
        node = Obj('Node', lazy=True, label='node')
        node.fields['kind'] = E[kind]
        node.fields['ty'] = type_cell(cat, 'node.ty', only=('ptr', 'array'))
        for ch in ('lhs', 'rhs'):
            node.fields[ch] = Obj('Node', lazy=True, label='node.' + ch)
        var = Obj('Obj', lazy=True, label='node.var')
        var.fields['ty'] = type_cell(cat, 'node.var.ty', only=('array', 'func', 'int', 'ptr', 'struct'))
        node.fields['var'] = var
        node.fields['member'] = Obj('Member', lazy=True, label='node.member')
        ctx.node = node
        ctx.slot = _Slot()
        ctx.lref = _Ref(ctx.slot)
        return [node, ctx.lref]
    res = it.explore(fn, mk)
    key = '%s:%s:%s' % (U, fn, kind)
    where = _w(u, fn)
    nret = nrej = 0
    for ctx, out in res:
        node = ctx.node
        if out[0] != 'ret':
            # rejected: only acceptable for operand shapes that are not address constants
            nty = cat_of(node.fields['ty'])
            vty = cat_of(node.fields['var'].fields['ty'])
            loc = field(node.fields['var'], 'is_local')
            tls = field(node.fields['var'], 'is_tls')
            valid = True
            if kind == 'ND_MEMBER' and fn == 'eval2' and 'array' not in nty:
                valid = False        # a non-array member is not an address
            if kind == 'ND_DEREF' and fn == 'eval2' and 'array' not in nty:
                valid = False        # *p of non-array type is a load, not an address
            if kind == 'ND_VAR' and fn == 'eval2' and not set(vty) <= {'array', 'func'}:
                valid = False
            if kind == 'ND_VAR' and fn == 'eval_rval' and loc != 0:
                valid = False        # address of a local is not constant
            if kind == 'ND_VAR' and fn == 'eval2' and loc is not None and loc != 0:
                valid = False        # neither is a local array as a value
            if kind == 'ND_VAR' and tls is not None and tls != 0:
                valid = False        # C11 6.6p9: an address constant points to an object of STATIC storage duration; a thread-local object has none before its thread runs
            if valid:
                nrej += 1
                rep.ob('R05.7', key + '/rejected', False,
                       '%s rejects %s (%s) with %s(%s) although it is an address constant' % (fn, kind, (WHAT2 if fn == 'eval2' else {}).get(kind, WHAT[kind]), out[1], show(out[2][1]) if len(out[2]) > 1 else ''),
                       where='%s:%d' % (U, out[3]), facts={'path': ctx.trail})
            continue
        if kind == 'ND_VAR' and fn == 'eval_rval' and field(node.fields['var'], 'is_local') != 0:
            rep.ob('R05.7', key + '/local-accepted', False, 'eval_rval accepts the address of a local variable as a link-time constant', where=where, facts={'path': ctx.trail})
            continue
        if kind == 'ND_VAR' and field(node.fields['var'], 'is_tls') not in (None, 0):
            rep.ob('R05.7', key + '/thread-local-accepted', False, '%s accepts the address of a thread-local variable as a link-time constant' % fn, where=where, facts={'path': ctx.trail})
            continue
        if kind == 'ND_VAR' and fn == 'eval2' and not set(cat_of(node.fields['var'].fields['ty'])) <= {'array', 'func'}:
            rep.ob('R05.7', key + '/non-address-accepted', False, 'eval2 accepts the VALUE of a non-array variable as an address constant', where=where, facts={'path': ctx.trail})
            continue
        if kind == 'ND_MEMBER' and fn == 'eval2' and cat_of(node.fields['ty']) != ['array']:
            rep.ob('R05.7', key + '/non-address-accepted', False, 'eval2 accepts the VALUE of a non-array member as an address constant', where=where, facts={'path': ctx.trail})
            continue
        if kind == 'ND_DEREF' and fn == 'eval2' and cat_of(node.fields['ty']) != ['array']:
            nrej += 1
            rep.ob('R05.7', key + '/non-address-accepted', False, 'eval2 accepts the VALUE of a dereferenced pointer (a load from memory) as a constant', where=where, facts={'path': ctx.trail})
            continue
        nret += 1
        recs = [e for e in ctx.events if e[0] == 'rec']
        ok, msg, construct = True, '', 'addend+label'
        want = 0
        if len(recs) != len(terms):
            ok = False; construct = 'operands'; msg = '%s evaluates %d operand(s) of %s, expected %d' % (fn, len(recs), kind, len(terms))
        else:
            for (callee, ch, lab, sign), r in zip(terms, recs):
                a = r[2]
                if r[1] != callee and not (callee == 'eval2' and r[1] == 'eval2'):
                    ok = False; construct = 'operands'; msg = 'operand %s of %s is evaluated by %s, expected %s' % (ch, kind, r[1], callee); break
                if settle(it, a[0]) is not node.fields[ch]:
                    ok = False; construct = 'operands'; msg = '%s of %s does not evaluate node->%s' % (fn, kind, ch); break
                passed = len(a) > 1 and a[1] is ctx.lref
                if lab and not passed:
                    ok = False; construct = 'label-not-passed'
                    msg = '%s of %s evaluates node->%s without handing down the label slot: the symbol of the address constant is lost (a relocation cannot be produced)' % (fn, kind, ch); break
                if not lab and not (len(a) > 1 and is_null(a[1])):
                    # an operand that enters the sum with +1 may be the address operand instead of the usual one (`1 + (long)&x`): it may be offered
                    # the slot while the slot is known to be still empty; anything else lets it overwrite / negate a symbol
                    if not (sign == 1 and passed and len(r) > 5 and r[5] is True):
                        ok = False; construct = 'label-passed-to-integer-operand'; msg = 'the integer operand node->%s of %s is evaluated with the label slot%s' % (
                            ch, kind, '' if sign != 1 else ' without a test that no earlier operand has recorded its symbol there'); break
                want = lsum(want, lscale(r[3], sign))
        if ok:
            if plus:
                mo = node.fields['member'].fields.get('offset')
                if mo is None:
                    ok = False; construct = 'member-offset-dropped'
                    msg = ('%s of %s returns %s: the offset of the member inside its struct (node->member->offset) is not added to the addend, so the address constant '
                           'points offsetof(member) bytes too low' % (fn, kind, show(out[1])))
                else:
                    want = lsum(want, mo)
            if ok and not lin_eq(out[1], want):
                ok = False; construct = 'addend'; msg = 'the addend computed by %s for %s (%s) is %s, expected %s' % (fn, kind, WHAT[kind], show(out[1]), show(want))
        if ok:
            L = ctx.slot.v
            if labsrc is None:
                if not _slot_untouched(it, ctx):
                    ok = False; construct = 'label'; msg = '%s of %s writes the label slot itself' % (fn, kind)
            else:
                owner = node if labsrc[0] == 'node' else node.fields['var']
                good = isinstance(L, _Ref) and isinstance(L.place, FieldPlace) and L.place.obj is owner and L.place.f == labsrc[1]
                if not good:
                    ok = False; construct = 'label'; msg = '%s of %s does not set *label to the address of %s->%s' % (fn, kind, labsrc[0], labsrc[1])
        rep.ob('R05.7', key + '/' + construct, ok, msg, where=where, facts={'path': ctx.trail})
    if nret == 0 and nrej == 0:
        rep.undecided('R05.7', key, '%s has no accepting path for %s' % (fn, kind))


# ------------------------------------------------------------------------------------------------
# R05.8 positional cursor after a designator (the functions that implement the same cursor walk must agree)
# ------------------------------------------------------------------------------------------------
def _set_rest(it, ctx, ref, what):
    t = Obj('Token', lazy=True, label=ctx.fresh(what))
    if isinstance(ref, _Ref):
        ref.place.set(it, t)
    return t


def _cursor_models(equal_is=None):
    """python models of the parser helpers called by the cursor-walk functions"""
    def m_array_designator(it, ctx, n, a):
        b, e = Sym(ctx.fresh('begin'), 'int'), Sym(ctx.fresh('end'), 'int')
        if len(a) < 5 or not isinstance(a[3], _Ref) or not isinstance(a[4], _Ref):
            raise AnalysisBroken('array_designator is no longer called with (&rest, tok, ty, &begin, &end)')
        a[3].place.set(it, b); a[4].place.set(it, e)
        ctx.facts[vkey(Term('<=', b, e))] = True      # post-condition of array_designator: it rejects an empty range
        _set_rest(it, ctx, a[0], 'tok-after-designator')
        ctx.emit('adesig', b, e, n.line)
        return None

    def m_struct_designator(it, ctx, n, a):
        m = Obj('Member', lazy=True, label=ctx.fresh('designated-member'))
        _set_rest(it, ctx, a[0], 'tok-after-designator')
        ctx.emit('sdesig', m, n.line)
        return m

    def m_sub(name):
        def f(it, ctx, n, a):
            _set_rest(it, ctx, a[0], 'tok-after-' + name)
            ctx.emit('sub', name, a, n.line)
            return None
        return f

    def m_const_expr(it, ctx, n, a):
        v = Sym(ctx.fresh('const_expr'), 'long')
        _set_rest(it, ctx, a[0], 'tok-after-const-expr')
        ctx.emit('cexpr', v, n.line)
        return v

    def m_equal(it, ctx, n, a):
        s = a[1] if len(a) > 1 else None
        if equal_is is not None and isinstance(s, str):
            return 1 if s == equal_is else 0
        r = View(Cell([0, 1], ctx.fresh('equal(tok,%r)' % (s,))))
        ctx.emit('equal', s, r, n.line)
        return r
    return {'array_designator': m_array_designator, 'struct_designator': m_struct_designator, 'designation': m_sub('designation'),
            'initializer2': m_sub('initializer2'), 'array_initializer2': m_sub('array_initializer2'), 'struct_initializer2': m_sub('struct_initializer2'),
            'const_expr': m_const_expr, 'equal': m_equal}


def short_lists_hook(depth=2):
    """children_hook + member lists of at most `depth` further members behind any member the analysis starts from (keeps loops that pass over
    members from multiplying the paths of the enclosing walk; the facts judged are per-member facts)"""
    base = children_hook()

    def hook(it, ctx, o, f, t):
        if o.tname == 'Member' and f == 'next':
            d = o.meta.get('depth', 0)
            if d >= depth:
                return 0
            nx = Obj('Member', lazy=True, label=(o.label or 'mem') + '.next')
            nx.meta['depth'] = d + 1
            return View(Cell([0, nx], nx.label, names={0: 'NULL'}))
        return base(it, ctx, o, f, t)
    return hook


def _cursor_interp(P, u, equal_is=None, drop=(), short_lists=False, cls=None):
    models = _cursor_models(equal_is)
    for d in drop:
        models.pop(d, None)
    return (cls or TInterp)(P, u, {'models': models, 'opaque': ['skip', 'consume_end', 'consume', 'is_end', 'count_array_init_elements', 'new_initializer', 'array_of',
                                                        'skip_excess_element', 'error_tok'],
                          'loop_limit': 2, 'lazy_field': short_lists_hook() if short_lists else children_hook(), 'track_stores': True})


def _mk_init(kind_val):
    def mk(ctx):
        init = Obj('Initializer', lazy=True, label='init')
        ty = Obj('Type', lazy=True, label='init.ty')
        ty.fields['kind'] = kind_val
        init.fields['ty'] = ty
        init.fields['is_flexible'] = 0
        ctx.root_init = init
        ctx.slot = _Slot()
        return [_Ref(ctx.slot), Obj('Token', lazy=True, label='tok'), init]
    return mk


def _child_key(ctx, child, it):
    return child_index(field(ctx.root_init, 'children'), settle(it, child))


def _key_eq(ctx, k, want):
    """index key k (vkey of a linear value) equals `want` on this path"""
    from ..lib_c05 import _lin_of_key
    L = _lin_of_key(k)
    if L is None:
        return False
    v = L[0]
    for lk, c in L[1].items():
        leaf = Sym(lk[1]) if lk[0] == 'sym' else None
        if leaf is None:
            return False
        v = lsum(v, lscale(leaf, c))
    return eq_on_path(ctx, v, want)


def _range_ok(ctx, keys, b, e):
    """the designated element keys are exactly begin..end (any order) on this path"""
    n = len(keys)
    if n == 0 or not eq_on_path(ctx, lsum(b, n - 1), e):
        return False
    left = list(keys)
    for i in range(n):
        hit = None
        for k in left:
            if k is not None and (k == vkey(lsum(b, i)) or _key_eq(ctx, k, lsum(b, i))):
                hit = k; break
        if hit is None:
            return False
        left.remove(hit)
    return True


def r058(P, u, E, rep):
    _need(u, 'array_initializer1', 'count_array_init_elements', 'designation', 'struct_initializer1', 'array_designator', 'struct_designator')
    rep.rule('R05.8', 'after a designator the positional cursor resumes behind the designated sub-object (index `end`+1 after [begin ... end], the next member after .m) in every function that walks the cursor: array_initializer1, count_array_init_elements, designation, struct_initializer1', floor=10)
    RES = 'resume-after-range-designator'
    what = ('after `[begin ... end] = v` the next initializer without designator must go to element end+1 (C11 6.7.9p17 with the GNU range extension); '
            '%s continues at %s, so `{[1 ... 3] = 7, 9}` stores the 9 into the wrong element')
    # --- array_initializer1 -------------------------------------------------------------------
    fn = 'array_initializer1'
    it = _cursor_interp(P, u)
    n_after = n_first = 0
    for ctx, out in it.explore(fn, _mk_init(E['TY_ARRAY'])):
        if out[0] != 'ret':
            continue
        last = None       # ('desig', end) | ('pos', indexkey value)
        expect = 0
        for e in ctx.events:
            if e[0] == 'adesig':
                last = e; expect = lsum(e[2], 1)
                ctx.des_keys = []
                if not hasattr(ctx, 'des_groups'):
                    ctx.des_groups = []
                ctx.des_groups.append((e, ctx.des_keys))
            elif e[0] == 'sub' and e[1] == 'initializer2':
                k = _child_key(ctx, e[2][2], it)
                good = k is not None and (k == vkey(expect) or _key_eq(ctx, k, expect))
                if last is not None:
                    n_after += 1
                    rep.ob('R05.8', '%s:%s:%s' % (U, fn, RES), good, what % (fn, 'element ' + show_key(k)), where='%s:%d' % (U, e[3]), facts={'path': ctx.trail, 'begin..end': (show(last[1]), show(last[2]))})
                else:
                    n_first += 1
                    rep.ob('R05.8', '%s:%s:positional-elements-consecutive-from-0' % (U, fn), good,
                           'positional initializer #%s of a braced array initializer goes to element %s' % (show(expect), show_key(k)), where='%s:%d' % (U, e[3]), facts={'path': ctx.trail})
                last = None if last is None else last
                expect = lsum(expect, 1)
            elif e[0] == 'sub' and e[1] == 'designation' and last is not None:
                ctx.des_keys.append(_child_key(ctx, e[2][2], it))
        for d, ks in getattr(ctx, 'des_groups', []):
            rep.ob('R05.8', '%s:%s:range-designates-begin..end' % (U, fn), _range_ok(ctx, ks, d[1], d[2]),
                   'a range designator [begin ... end] initialises elements {%s}, expected exactly begin, begin+1, ... end' % ', '.join(show_key(k) for k in ks),
                   where='%s:%d' % (U, d[3]), facts={'path': ctx.trail})
    if n_after == 0 or n_first == 0:
        rep.undecided('R05.8', '%s:%s' % (U, fn), 'cursor walk not recognised (no positional element after a designator / at the start on any path)')
    # the designated elements themselves: begin..end
    # --- count_array_init_elements ---------------------------------------------------------------
    fn = 'count_array_init_elements'
    it = _cursor_interp(P, u)

    def mk_count(ctx):
        ty = Obj('Type', lazy=True, label='ty')
        ctx.root_init = None
        return [Obj('Token', lazy=True, label='tok'), ty]
    n_rng = n_one = 0
    for ctx, out in it.explore(fn, mk_count):
        if out[0] != 'ret':
            continue
        # per iteration: const_expr results since the last cursor update
        ces = []
        rng = False
        for e in ctx.events:
            if e[0] == 'cexpr':
                ces.append(e[1])
            elif e[0] == 'equal' and e[1] == '...':
                rng = settle(it, e[2]) == 1
            elif e[0] == 'upd' and e[1] is not None and ces:
                # the increment that follows a designator
                if lin_eq(e[3], lsum(e[2], 1)):
                    want = ces[-1] if rng else ces[0]
                    good = (len(ces) == (2 if rng else 1)) and strip_cast(e[2])[0] is want
                    if rng:
                        n_rng += 1
                        rep.ob('R05.8', '%s:%s:%s' % (U, fn, RES), good,
                               'when counting the elements of `T x[] = {...}`, after [begin ... end] the cursor becomes %s instead of end+1: the array gets the wrong length' % show(e[3]),
                               where='%s:%d' % (U, e[4]), facts={'path': ctx.trail})
                    else:
                        n_one += 1
                        rep.ob('R05.8', '%s:%s:resume-after-index-designator' % (U, fn), good,
                               'when counting the elements of `T x[] = {...}`, after [i] the cursor becomes %s instead of i+1' % show(e[3]), where='%s:%d' % (U, e[4]), facts={'path': ctx.trail})
                    ces = []; rng = False
    if n_rng == 0 or n_one == 0:
        rep.undecided('R05.8', '%s:%s' % (U, fn), 'cursor walk not recognised (range paths %d, single-index paths %d)' % (n_rng, n_one))
    # --- designation, "[" branch -----------------------------------------------------------------
    fn = 'designation'
    models_drop = ('designation',)
    it = _cursor_interp(P, u, equal_is='[', drop=models_drop)

    def h_rec(it_, ctx, n, a):
        _set_rest(it_, ctx, a[0], 'tok-after-designation')
        ctx.emit('sub', 'designation', a, n.line)
        return None
    it.cut['designation'] = h_rec
    n_a = 0
    for ctx, out in it.explore(fn, _mk_init(E['TY_ARRAY'])):
        if out[0] != 'ret':
            continue
        des = [e for e in ctx.events if e[0] == 'adesig']
        cont = [e for e in ctx.events if e[0] == 'sub' and e[1] == 'array_initializer2']
        subs = [e for e in ctx.events if e[0] == 'sub' and e[1] == 'designation']
        if not des or not subs:
            continue        # begin <= end is guaranteed by array_designator: the empty range is not judged
        n_a += 1
        ok = len(cont) == 1 and len(cont[0][2]) >= 4 and lin_eq(cont[0][2][3], lsum(des[0][2], 1)) and settle(it, cont[0][2][2]) is ctx.root_init
        at = show(cont[0][2][3]) if cont and len(cont[0][2]) >= 4 else 'nothing'
        rep.ob('R05.8', '%s:%s:%s' % (U, fn, RES), ok, what % ('designation (nested designator such as `.a[1 ... 3] = 7, 9` or `[0][1 ... 3] = 7, 9`)', 'element ' + at),
               where='%s:%d' % (U, cont[0][3] if cont else u.fn(fn).line), facts={'path': ctx.trail})
        # the designated elements are begin..end
        subs = [e for e in ctx.events if e[0] == 'sub' and e[1] == 'designation']
        ks = [_child_key(ctx, e[2][2], it) for e in subs]
        rep.ob('R05.8', '%s:%s:range-designates-begin..end' % (U, fn), _range_ok(ctx, ks, des[0][1], des[0][2]),
               'a range designator [begin ... end] initialises elements {%s}, expected exactly begin, begin+1, ... end' % ', '.join(show_key(k) for k in ks), where=_w(u, fn), facts={'path': ctx.trail})
    if n_a == 0:
        rep.undecided('R05.8', '%s:%s' % (U, fn), 'array-designator branch of designation not recognised')
    # --- designation, "." struct branch; struct_initializer1 -------------------------------------------
    it = _cursor_interp(P, u, equal_is='.', drop=models_drop)
    it.cut['designation'] = h_rec
    n_s = 0
    for ctx, out in it.explore(fn, _mk_init(E['TY_STRUCT'])):
        if out[0] != 'ret':
            continue
        des = [e for e in ctx.events if e[0] == 'sdesig']
        cont = [e for e in ctx.events if e[0] == 'sub' and e[1] == 'struct_initializer2']
        if not des:
            continue
        n_s += 1
        m = des[0][1]
        ok = len(cont) == 1 and len(cont[0][2]) >= 4 and 'next' in m.fields and same(it, cont[0][2][3], m.fields['next'])
        rep.ob('R05.8', '%s:%s:resume-after-member-designator' % (U, fn), ok,
               'after a nested `.m = v` designator the following initializers do not continue with the member after m', where=_w(u, fn), facts={'path': ctx.trail})
        subs = [e for e in ctx.events if e[0] == 'sub' and e[1] == 'designation']
        good = len(subs) == 1 and 'idx' in m.fields and _child_key(ctx, subs[0][2][2], it) == vkey(m.fields['idx'])
        rep.ob('R05.8', '%s:%s:member-designator-selects-children[idx]' % (U, fn), good, '`.m = v` does not initialise init->children[m->idx]', where=_w(u, fn), facts={'path': ctx.trail})
        ex = field(ctx.root_init, 'expr')
        rep.ob('R05.8', '%s:%s:member-designator-cancels-struct-copy' % (U, fn), is_null(ex) and 'expr' in ctx.root_init.fields,
               'a member designator does not cancel an earlier whole-struct initializer expression (init->expr stays set, the member value would be ignored)', where=_w(u, fn))
    if n_s == 0:
        rep.undecided('R05.8', '%s:%s' % (U, fn), 'struct-designator branch of designation not recognised')
    fn = 'struct_initializer1'
    it = _cursor_interp(P, u, short_lists=True)
    n_after = n_first = n_part = 0
    for ctx, out in it.explore(fn, _mk_init(E['TY_STRUCT'])):
        if out[0] != 'ret':
            continue
        cur = ('first',)
        m0 = field(field(ctx.root_init, 'ty'), 'members')
        starts = [m0] + [e[1] for e in ctx.events if e[0] == 'sdesig']
        for e in ctx.events:
            if e[0] == 'sdesig':
                cur = ('after', e[1])
            elif e[0] == 'sub' and e[1] == 'initializer2':
                k = _child_key(ctx, e[2][2], it)
                # members that do not take part in initialization (unnamed bit-fields, C11 6.7.9p9) are passed over: R05.13
                if cur[0] == 'first':
                    fm = first_part(m0)
                    good = isinstance(fm, Obj) and 'idx' in fm.fields and k == vkey(fm.fields['idx'])
                    n_first += 1
                    rep.ob('R05.8', '%s:%s:first-positional-is-first-member' % (U, fn), good, 'the first initializer of a braced struct initializer does not go to the first (named) member', where='%s:%d' % (U, e[3]),
                           facts={'path': ctx.trail})
                elif cur[0] == 'after':
                    nx = first_part(field(cur[1], 'next'))
                    good = isinstance(nx, Obj) and 'idx' in nx.fields and k == vkey(nx.fields['idx'])
                    n_after += 1
                    rep.ob('R05.8', '%s:%s:resume-after-member-designator' % (U, fn), good,
                           'after `.m = v` the next initializer without designator does not go to the (named) member that follows m', where='%s:%d' % (U, e[3]), facts={'path': ctx.trail})
                elif cur[0] == 'pos':
                    nx = first_part(field(cur[1], 'next'))
                    good = isinstance(nx, Obj) and 'idx' in nx.fields and k == vkey(nx.fields['idx'])
                    rep.ob('R05.8', '%s:%s:positional-members-consecutive' % (U, fn), good,
                           'two consecutive initializers without designator do not go to consecutive (named) members', where='%s:%d' % (U, e[3]), facts={'path': ctx.trail})
                mm = member_of_child(k, starts)
                cur = ('pos', mm) if mm is not None else ('other',)
                if mm is not None:
                    n_part += 1
                    _r0513_ob(rep, fn, 'positional-initializer', mm, ctx, e[3])
    if n_after == 0 or n_first == 0 or n_part == 0:
        rep.undecided('R05.8', '%s:%s' % (U, fn), 'cursor walk not recognised')
    _r0513_rest(P, u, E, rep)


# ------------------------------------------------------------------------------------------------
# R05.13 members that do not take part in initialization (unnamed bit-fields, C11 6.7.9p9) never receive a positional initializer
# ------------------------------------------------------------------------------------------------
def _r0513_ob(rep, fn, what, m, ctx, line):
    st = unnamed_bf(m)
    rep.ob('R05.13', '%s:%s:%s/unnamed-bit-field-%s' % (U, fn, what, 'passed-over' if st is False else ('receives-it' if st else 'not-passed-over')), st is False,
           '%s hands a %s to a member without establishing that the member takes part in initialization (it is named, or not a bit-field): an unnamed bit-field consumes the '
           'value and every later value lands one member too early. %s' % (fn, what.replace('-', ' '), P9), where='%s:%d' % (U, line), facts={'path': ctx.trail})


def _r0513_rest(P, u, E, rep):
    """struct_initializer2 (brace-elided / continued member walk) and the default member of a union"""
    fn = 'struct_initializer2'
    it = _cursor_interp(P, u, short_lists=True)

    def mk_s2(ctx):
        a = _mk_init(E['TY_STRUCT'])(ctx)
        ctx.start_mem = Obj('Member', lazy=True, label='mem')
        return a + [ctx.start_mem]
    n = 0
    for ctx, out in it.explore(fn, mk_s2):
        if out[0] != 'ret':
            continue
        prev = None
        for e in ctx.events:
            if not (e[0] == 'sub' and e[1] == 'initializer2'):
                continue
            k = _child_key(ctx, e[2][2], it)
            want = first_part(ctx.start_mem if prev is None else field(prev, 'next'))
            good = isinstance(want, Obj) and 'idx' in want.fields and k == vkey(want.fields['idx'])
            rep.ob('R05.8', '%s:%s:%s' % (U, fn, 'starts-at-the-given-member' if prev is None else 'positional-members-consecutive'), good,
                   'the member walk without braces (`struct S a[2] = {1, 2, 3, 4}`, or the continuation behind `.m = v`) %s' %
                   ('does not start with the (first named) member it is given' if prev is None else 'does not hand consecutive initializers to consecutive (named) members'),
                   where='%s:%d' % (U, e[3]), facts={'path': ctx.trail})
            mm = member_of_child(k, [ctx.start_mem])
            if mm is None:
                break
            n += 1
            _r0513_ob(rep, fn, 'positional-initializer', mm, ctx, e[3])
            prev = mm
    if n == 0:
        rep.undecided('R05.13', '%s:%s' % (U, fn), 'member walk not recognised (no path hands an initializer to a member)')
    # ---- union: the member initialised by default is the first one that takes part
    fn = 'union_initializer'
    it = _cursor_interp(P, u, drop=('designation',))
    it.cut['designation'] = lambda it_, ctx, n_, a: (_set_rest(it_, ctx, a[0], 'tok-after-designation'), ctx.emit('sub', 'designation', a, n_.line), None)[2]

    def mk_u(ctx):
        a = _mk_init(E['TY_UNION'])(ctx)
        ctx.m0 = Obj('Member', lazy=True, label='init.ty.members')
        ctx.root_init.fields['ty'].fields['members'] = ctx.m0
        return a
    n = 0
    for ctx, out in it.explore(fn, mk_u):
        if out[0] != 'ret' or any(e[0] == 'sdesig' for e in ctx.events):
            continue
        subs = [e for e in ctx.events if e[0] == 'sub' and e[1] == 'initializer2']
        if len(subs) != 1:
            continue
        k = _child_key(ctx, subs[0][2][2], it)
        sel = settle(it, ctx.root_init.fields.get('mem'))
        fm = first_part(ctx.m0)
        if is_null(fm):
            continue          # no member takes part at all (only unnamed bit-fields): nothing to judge
        n += 1
        good = isinstance(fm, Obj) and sel is fm and ((k == 0 and fm is ctx.m0) or ('idx' in fm.fields and k == vkey(fm.fields['idx'])))
        rep.ob('R05.8', '%s:%s:default-member-is-first-member' % (U, fn), good,
               'a union initializer without designator does not select and initialise the first (named) member of the union', where='%s:%d' % (U, subs[0][3]), facts={'path': ctx.trail})
        if good:
            _r0513_ob(rep, fn, 'default-initializer', fm, ctx, subs[0][3])
    if n == 0:
        rep.undecided('R05.13', '%s:%s' % (U, fn), 'default-member path of union_initializer not recognised')


# ------------------------------------------------------------------------------------------------
# R05.14 separator protocol of the initializer-list walk.  Every token the walk stands on is either the START of an element (a designator,
# `{`, or an expression: state E) or the SEPARATOR behind an element (`,` or the closing `}`: state A).  The element parsers (initializer2,
# designation, assign, skip_excess_element, string_initializer) and the designator parsers are entered at E and leave at A; skip(tok, ",")
# is applied at A and leaves at E.  The functions that continue a walk without braces (array_initializer2, struct_initializer2) are entered
# at E by initializer2 (brace elision) and at A by designation (continuation behind a designated sub-object); they are interpreted INLINED
# in their callers, so the very arguments the caller passes decide which case they see.
# ------------------------------------------------------------------------------------------------
_TK_AFTER = {',': 'E', '{': 'E', '=': 'E', ']': 'E', '}': 'A'}


def tk_state(T):
    if not isinstance(T, Obj):
        return None
    st = T.meta.get('st')
    if st:
        return st
    p = T.meta.get('prev')
    if isinstance(p, Obj):
        return _TK_AFTER.get(p.meta.get('is'))
    return None


def _tk_new(ctx, what, st):
    t = Obj('Token', lazy=True, label=ctx.fresh(what))
    t.meta['st'] = st
    return t


def _tk_hook(base):
    def hook(it, ctx, o, f, t):
        if o.tname == 'Token' and f == 'next':
            nx = Obj('Token', lazy=True, label=(o.label or 'tok') + '.next')
            nx.meta['prev'] = o
            return nx
        if o.tname == 'Member' and f == 'is_bitfield':
            return 0        # the separator protocol does not depend on the members: structs without bit-fields (R05.13 judges the member cursor)
        return base(it, ctx, o, f, t)
    return hook


def _tk_obj(it, v):
    v = settle(it, v)
    if isinstance(v, View):
        objs = [c for c in v.cell.cands if isinstance(v.proj(c), Obj)]
        if len(objs) == 1:
            it.refine(v.cell, objs)
            v = settle(it, v)
    return v if isinstance(v, Obj) else None


def _tk_fn(n):
    f = n.enclosing('FunctionDecl')
    return f.name if f is not None else '?'


def _sep_interp(P, u, E):
    from ..interp import Infeasible, NoReturn

    def m_equal(it, ctx, n, a):
        T = _tk_obj(it, a[0]) if a else None
        s = a[1] if len(a) > 1 else None
        if T is None or not isinstance(s, str):
            return View(Cell([0, 1], ctx.fresh('equal(?,%r)' % (s,))))
        known, nots = T.meta.get('is'), T.meta.setdefault('not', set())
        if known is not None:
            return 1 if known == s else 0
        if s in nots:
            return 0
        st = tk_state(T)
        if st == 'A':
            # behind an element of a valid initializer list stands `,` or `}`
            if s not in (',', '}'):
                return 0
            if ({',', '}'} - {s}) <= nots:
                T.meta['is'] = s
                return 1
        if st == 'E' and s == ',':
            return 0
        i = ctx.choose(2, 'equal(%s, %r)' % (T.label, s))
        if i == 0:
            T.meta['is'] = s
            ctx.note('%s is %r' % (T.label, s))
            return 1
        nots.add(s)
        if st == 'A' and {',', '}'} <= nots:
            raise Infeasible('behind an element stands `,` or `}`')
        ctx.note('%s is not %r' % (T.label, s))
        return 0

    def m_skip(it, ctx, n, a):
        T = _tk_obj(it, a[0]) if a else None
        s = a[1] if len(a) > 1 else None
        if T is None or not isinstance(s, str):
            raise AnalysisBroken('skip() is no longer called with (token, "punctuator")')
        st = tk_state(T)
        known, nots = T.meta.get('is'), T.meta.setdefault('not', set())
        if s == ',':
            ctx.emit('proto', 'skip-comma', st, _tk_fn(n), n.line, known)
            if st == 'E':
                raise NoReturn('error_tok', [T, "expected '%s'" % s], n.line)      # the path is kept: the event above is judged
        if (known is not None and known != s) or s in nots:
            raise NoReturn('error_tok', [T, "expected '%s'" % s], n.line)
        if s == '}' and st == 'A':
            # behind the last element of a braced list stands `}` or `, }` (C11 6.7.9 syntax: { initializer-list , })
            if known is None and ',' not in nots:
                nx = it.read_field(T, 'next')
                if isinstance(nx, Obj) and nx.meta.get('is') in (None, '}') and '}' not in nx.meta.get('not', ()):
                    if ctx.choose(2, 'skip(%s, "}")' % T.label) == 1:
                        T.meta['is'] = ','; nx.meta['is'] = '}'
                        ctx.note('%s is the trailing comma of the list' % T.label)
                        ctx.emit('proto', 'close', st, _tk_fn(n), n.line, 'trailing-comma:' + str(T.label or '').split('#')[0].replace('tok-after-', ''))
                        raise NoReturn('error_tok', [T, "expected '%s'" % s], n.line)      # the path is kept: the event above is judged
            ctx.emit('proto', 'close', st, _tk_fn(n), n.line, 'ok')
        T.meta['is'] = s
        return it.read_field(T, 'next')

    def elem_parser(name, rest_at=0, tok_at=1, ret=None):
        def f(it, ctx, n, a):
            T = _tk_obj(it, a[tok_at]) if len(a) > tok_at else None
            ctx.emit('proto', 'element', tk_state(T), _tk_fn(n), n.line, name)
            R = _tk_new(ctx, 'tok-after-' + name, 'A')
            if rest_at is not None and len(a) > rest_at and isinstance(a[rest_at], _Ref):
                a[rest_at].place.set(it, R)
            ctx.emit('sub', name, a, n.line)
            return ret(it, ctx, R) if ret else None
        return f

    def m_assign_ret(it, ctx, R):
        node = Obj('Node', lazy=True, label=ctx.fresh('assign-expr'))
        ty0 = field(getattr(ctx, 'root_init', None), 'ty')
        if isinstance(ty0, Obj):
            node.fields['ty'] = View(Cell([ty0, Obj('Type', lazy=True, label=ctx.fresh('type-of-assign-expr'))], ctx.fresh('assign-expr.ty')))
        return node

    def m_array_designator(it, ctx, n, a):
        if len(a) < 5 or not isinstance(a[3], _Ref) or not isinstance(a[4], _Ref):
            raise AnalysisBroken('array_designator is no longer called with (&rest, tok, ty, &begin, &end)')
        b, e = Sym(ctx.fresh('begin'), 'int'), Sym(ctx.fresh('end'), 'int')
        a[3].place.set(it, b); a[4].place.set(it, e)
        # post-condition of array_designator for a valid program: 0 <= begin <= end < array_len
        ctx.facts[vkey(Term('<=', b, e))] = True
        ctx.bounds[b.key()] = [0, 1 << 40]; ctx.bounds[e.key()] = [0, 1 << 40]
        T = _tk_obj(it, a[1])
        ctx.emit('proto', 'designator', tk_state(T), _tk_fn(n), n.line, 'array_designator')
        a[0].place.set(it, _tk_new(ctx, 'tok-after-designator', 'E'))
        ctx.emit('adesig', b, e, n.line)
        return None

    def m_struct_designator(it, ctx, n, a):
        m = Obj('Member', lazy=True, label=ctx.fresh('designated-member'))
        T = _tk_obj(it, a[1])
        ctx.emit('proto', 'designator', tk_state(T), _tk_fn(n), n.line, 'struct_designator')
        a[0].place.set(it, _tk_new(ctx, 'tok-after-designator', 'E'))
        ctx.emit('sdesig', m, n.line)
        return m

    def m_skip_excess(it, ctx, n, a):
        T = _tk_obj(it, a[0]) if a else None
        ctx.emit('proto', 'element', tk_state(T), _tk_fn(n), n.line, 'skip_excess_element')
        return _tk_new(ctx, 'tok-after-excess-element', 'A')
    cut = {'initializer2': elem_parser('initializer2'), 'designation': elem_parser('designation')}
    models = {'equal': m_equal, 'skip': m_skip, 'assign': elem_parser('assign', ret=m_assign_ret), 'string_initializer': elem_parser('string_initializer'),
              'array_designator': m_array_designator, 'struct_designator': m_struct_designator, 'skip_excess_element': m_skip_excess}
    return TInterp(P, u, {'models': models, 'cut': cut, 'opaque': ['count_array_init_elements', 'new_initializer', 'array_of', 'add_type', 'error_tok'],
                          'loop_limit': 2, 'lazy_field': _tk_hook(short_lists_hook()), 'track_stores': True})


def r0514(P, u, E, rep):
    rep.rule('R05.14', 'separator protocol of the initializer-list walk: every element parser (initializer2, designation, assign, skip_excess_element) and every designator is '
             'entered at the start of an element, `,` is skipped exactly behind an element, and a walk hands back the token behind its last element -- also when '
             'array_initializer2 / struct_initializer2 continue behind a designated sub-object (`{ [0].a = 1, 2 }`, `{ .in.a = 1, .c = 3 }`) or walk a brace-elided sub-aggregate; '
             'a trailing comma before the closing brace is accepted', floor=20)
    _need(u, 'initializer2', 'designation', 'array_initializer2', 'struct_initializer2')
    scal = E.get('TY_INT')
    roots = [('initializer2', 'TY_ARRAY'), ('initializer2', 'TY_STRUCT'), ('initializer2', 'TY_UNION'), ('initializer2', None),
             ('designation', 'TY_ARRAY'), ('designation', 'TY_STRUCT'), ('designation', 'TY_UNION')]
    WHAT = {'element': 'an initializer element', 'designator': 'a designator'}
    for root, kind in roots:
        it = _sep_interp(P, u, E)

        def mk(ctx, kind=kind):
            a = _mk_init(E[kind] if kind else scal)(ctx)
            a[1].meta['st'] = 'E'
            ctx.entry_tok = a[1]
            ctx.root_init.fields['expr'] = 0
            return a
        judged = {}
        try:
            res = it.explore(root, mk, max_paths=6000)
        except AnalysisBroken as e:
            rep.undecided('R05.14', '%s:%s:%s' % (U, root, kind or 'scalar'), 'exploration not possible: %s' % e)
            continue
        via = 'via-%s(%s)' % (root, (kind or 'scalar').replace('TY_', '').lower())
        nret = 0
        for ctx, out in res:
            if out[0] == 'ret':
                nret += 1
            for e in ctx.events:
                if e[0] != 'proto':
                    continue
                _, what, st, fn, line, extra = e
                if st is None:
                    continue
                if what == 'close':
                    ok = extra == 'ok'
                    construct = 'closing-brace-behind-the-last-element' if ok else 'trailing-comma-behind-%s-rejected' % extra.split(':', 1)[-1]
                    msg = ('%s demands the closing `}` directly behind the element although a trailing comma may stand there (C11 6.7.9: `{ initializer-list , }`): '
                           'a valid initializer such as `int x = {3,};` is rejected with "expected \'}\'"' % fn)
                elif what == 'skip-comma':
                    ok = st == 'A' and extra in (None, ',')
                    if st == 'E':
                        construct, msg = 'comma-demanded-where-an-element-starts', ('%s demands a `,` (skip) at a token that is the START of an initializer element: the valid initializer is rejected '
                                                                                   'with "expected \',\'"' % fn)
                    elif not ok:
                        construct, msg = 'comma-demanded-at-the-end-of-the-list', '%s demands a `,` at a token already known to be the closing `}`' % fn
                    else:
                        construct, msg = 'comma-skipped-behind-an-element', ''
                else:
                    ok = st == 'E'
                    construct = '%s-entered-%s' % (extra, 'at-the-start-of-an-element' if ok else 'at-the-separator')
                    msg = ('%s calls %s for %s while the token still stands on the separator (`,`) behind the previous element: the `,` is taken for the start of the '
                           'element and a valid initializer such as `struct P { int a, b; } g[2] = { [0].a = 1, 2, 3 };` or `{ .in.a = 1, .c = 3 }` is rejected '
                           '("expected an expression") -- the walk was entered behind a designated sub-object without skipping the separator' % (fn, extra, WHAT[what]))
                key = '%s:%s:%s/%s' % (U, fn, via, construct)
                judged[fn] = judged.get(fn, 0) + 1
                rep.ob('R05.14', key, ok, msg, where='%s:%d' % (U, line), facts={'path': ctx.trail})
            if out[0] != 'ret':
                continue
            R = _tk_obj(it, ctx.slot.v)
            st = tk_state(R)
            if R is None or st is None:
                continue
            ok = st == 'A' or R is ctx.entry_tok
            rep.ob('R05.14', '%s:%s:%s/%s' % (U, root, via, 'hands-back-the-token-behind-its-last-element' if ok else 'hands-back-a-token-behind-the-separator'), ok,
                   '%s (with the walks it continues inlined) hands back through *rest a token BEHIND the `,` that follows its last element: the caller, which skips that `,` itself, '
                   'rejects the valid initializer' % root, where=_w(u, root), facts={'path': ctx.trail})
        if nret == 0 or not judged:
            rep.undecided('R05.14', '%s:%s:%s' % (U, root, via), 'walk not recognised (%d returning paths, %d judged calls)' % (nret, sum(judged.values())))


# ------------------------------------------------------------------------------------------------
# R05.15 an aggregate without members (empty struct/union, a GNU extension the type parser accepts; its Initializer has no children):
# no function of the initializer parser or of the two back ends touches init->children[...] or dereferences a NULL member
# ------------------------------------------------------------------------------------------------
def r0515(P, u, E, rep):
    rep.rule('R05.15', 'an aggregate without members (`struct E {}`, `union U {}`: init->children has length 0) is initialised without touching init->children[...] and '
             'without dereferencing the NULL member list, by the parser (struct_initializer1/2, union_initializer) and by both back ends', floor=6)

    def judge(fn, word, it, res, child_events, mode):
        key = '%s:%s:empty-%s' % (U, fn, word)
        if it.null_derefs:
            ln, src, trail = it.null_derefs[0]
            rep.ob('R05.15', key + '/null-member-dereferenced', False,
                   '%s dereferences a NULL member pointer (`%s`) for a %s without members: `%s %s {}; %s %s x = {};` crashes the compiler'
                   % (fn, src, word, word, 'T', word, 'T'), where='%s:%d' % (U, ln), facts={'path': trail})
        n = 0
        for ctx, out in res:
            if any(e[0] == 'sdesig' for e in ctx.events):
                continue          # a member designator into an aggregate without members: not a valid program
            if out[0] != 'ret':
                continue
            n += 1
            ch = field(ctx.root_init, 'children')
            touched = [e for e in child_events(ctx) if child_index(ch, settle(it, e[0])) is not None]
            rep.ob('R05.15', key + ('/children-touched' if touched else '/nothing-touched'), not touched,
                   '%s (with the walks it calls) hands init->children[...] of a %s without members to %s: the Initializer of an empty %s has no children (calloc(0)), the pointer read there is garbage and '
                   '`%s T {}; %s T x = {};` (%s) crashes the compiler' % (fn, word, touched[0][1] if touched else '', word, word, word, mode),
                   where='%s:%d' % (U, touched[0][2] if touched else (u.fn(fn).line if u.fn(fn) else 0)), facts={'path': ctx.trail})
        if n == 0 and not it.null_derefs:
            rep.undecided('R05.15', key, 'no returning path for a %s without members' % word)

    def mk_empty(kind, extra=None):
        def mk(ctx):
            a = _mk_init(E[kind])(ctx)
            ty = ctx.root_init.fields['ty']
            ty.fields['members'] = 0
            ctx.root_init.fields['mem'] = 0
            ctx.root_init.fields['expr'] = 0
            return a + (extra(ctx) if extra else [])
        return mk

    def subs_of(it):
        return lambda ctx: [(e[2][2], e[1], e[3]) for e in ctx.events if e[0] == 'sub' and e[1] in ('initializer2', 'designation') and len(e[2]) > 2]
    # ---- parser: from initializer2 (the entry of every sub-object) with the walks it calls inlined, so that a guard may sit in the caller or in the callee
    for kind, word in (('TY_UNION', 'union'), ('TY_STRUCT', 'struct')):
        it = _override_interp(P, u, E, cut_designation=True, cls=NullInterp)
        it.models.pop('struct_initializer2', None)
        res = it.explore('initializer2', mk_empty(kind))
        judge('initializer2', word, it, res, subs_of(it), 'static or automatic')
    # ---- back ends
    for fname in ('create_lvar_init', 'write_gvar_data'):
        be = BackEnd(P, u, E, fname)
        for kind, word in (('TY_UNION', 'union'), ('TY_STRUCT', 'struct')):
            it = be.interp(cls=NullInterp)

            def ty_empty(ctx, kind=kind):
                ty = Obj('Type', lazy=True, label='ty')
                ty.fields['kind'] = E[kind]
                ty.fields['members'] = 0
                return ty

            def mk(ctx, be=be, ty_empty=ty_empty):
                a = be.args(ty_empty, init_expr=0)(ctx)
                ctx.root_init.fields['mem'] = 0
                return a
            res = it.explore(fname, mk)
            judge(fname, word, it, res, lambda ctx, be=be, it=it: [(v['init'], 'itself (recursive visit)', v['line']) for v in visits(be, it, ctx)],
                  'automatic object' if fname == 'create_lvar_init' else 'static object')


# ------------------------------------------------------------------------------------------------
# R05.5 data emission walk (codegen.c emit_data)
# ------------------------------------------------------------------------------------------------
def _emit_interp(P, cu, cg, loop_limit):
    def h_println(it, ctx, n, args):
        ctx.emit('emit', args[0], args[1:], n.line)
        return None
    return TInterp(P, cu, {'cut': {'println': h_println}, 'lazy_field': cg.lazy_field, 'loop_limit': loop_limit,
                           'globals': {'opt_fcommon': lambda ctx: View(Cell([0, 1], 'opt_fcommon'))}})


def _directive(fmt):
    s = fmt.strip()
    return s.split()[0] if s else ''


def _upd_after_label(events):
    """updates of the position counter: counter updates that follow the emission of the object's label"""
    out = []
    started = False
    for e in events:
        if e[0] == 'emit' and isinstance(e[1], str) and e[1].strip() == '%s:':
            started = True
        elif e[0] == 'upd' and started:
            out.append(e)
    return out


def r055(P, rep):
    from ..chibi import CG
    cg = CG(P)
    cu = cg.cu
    CU = 'codegen.c'
    if 'emit_data' not in cu.functions:
        raise AnalysisBroken('anchor emit_data vanished from codegen.c')
    rep.rule('R05.5', 'emit_data walks the byte image consistently: 8 bytes per relocation, consumed exactly when its offset equals the position, 1 byte otherwise, up to the object size; .size/.zero/.comm use the object size and the array-aware alignment', floor=6)
    where = '%s:%d' % (CU, cu.fn('emit_data').line)
    E = cu.enums
    # ---- (a) the walk over image + relocations ----------------------------------------------
    it = _emit_interp(P, cu, cg, 2)

    def mk(ctx):
        v = Obj('Obj', lazy=True, label='var')
        v.fields.update({'next': 0, 'is_function': 0, 'is_definition': 1, 'is_static': 0, 'is_tls': 0, 'is_tentative': 0})
        ty = Obj('Type', lazy=True, label='var.ty')
        ty.fields['kind'] = E['TY_STRUCT']
        ty.fields['size'] = Sym('var.ty.size', 'int')
        v.fields['ty'] = ty
        v.fields['init_data'] = Sym('var.init_data', 'char *')
        ctx.neq[('sym', 'var.init_data')] = {0}
        ctx.var = v
        return [v]
    res = it.explore('emit_data', mk)
    nq = nb = 0
    for ctx, out in res:
        if out[0] != 'ret':
            continue
        v = ctx.var
        size = v.fields['ty'].fields['size']
        items = []
        started = False
        for e in ctx.events:
            if e[0] == 'emit':
                if not started:
                    if isinstance(e[1], str) and e[1].strip() == '%s:':
                        started = True
                    continue
                items.append(e)
        upd = _upd_after_label(ctx.events)
        pos = 0
        relv = ('field', v, 'rel')
        ok, msg, construct = True, '', 'walk'

        def cur_rel():
            o, f = relv[1], relv[2]
            return field(o, f)
        ui = 0
        for e in items:
            d = _directive(e[1])
            R = cur_rel()
            if R is None or isinstance(R, View):
                ok = False; construct = 'relocation-cursor-not-consulted'
                msg = 'at image position %d emit_data does not look at the current relocation (after emitting a relocation the cursor must advance to rel->next; otherwise later address constants are emitted as raw zero bytes)' % pos
                break
            if d == '.quad':
                nq += 1
                if not isinstance(R, Obj):
                    ok = False; construct = 'quad-without-relocation'; msg = 'a .quad is emitted at position %d although the relocation list is exhausted' % pos; break
                b = ctx.bounds.get(vkey(R.fields.get('offset'))) if 'offset' in R.fields else None
                if not b or b[0] != pos or b[1] != pos:
                    ok = False; construct = 'relocation-consumed-at-wrong-position'
                    msg = 'a relocation is emitted at image position %d without its offset being equal to that position' % pos; break
                a = e[2]
                lab_ok = len(a) == 2 and isinstance(a[0], Term) and a[0].op == 'load' and isinstance(a[0].args[0], Term) and a[0].args[0].args[0] is R.fields.get('label')
                if not lab_ok or a[1] is not R.fields.get('addend'):
                    ok = False; construct = 'quad-operands'; msg = '.quad does not print *rel->label and rel->addend of the relocation at this position (%s)' % ', '.join(show(x) for x in a); break
                step = 8
                relv = ('field', R, 'next')
            elif d == '.byte':
                nb += 1
                if isinstance(R, Obj):
                    off = R.fields.get('offset')
                    ne = ctx.neq.get(vkey(off), ()) if off is not None else ()
                    b = ctx.bounds.get(vkey(off)) if off is not None else None
                    differs = pos in ne or (b is not None and (b[1] < pos or b[0] > pos))
                    if off is None or not differs:
                        ok = False; construct = 'relocation-skipped'
                        msg = 'a raw byte is emitted at position %d although a relocation may be due there (its offset is not compared with the position)' % pos; break
                a = e[2]
                good = len(a) == 1 and isinstance(a[0], Term) and a[0].op == 'load' and isinstance(a[0].args[0], Term) and a[0].args[0].op == 'elem' \
                    and a[0].args[0].args[0] is v.fields['init_data'] and a[0].args[0].args[1] == pos and ctype_bits(a[0].args[0].args[2]) == 8
                if not good:
                    ok = False; construct = 'byte-operand'; msg = '.byte at position %d does not print init_data[%d] (%s)' % (pos, pos, show(a[0]) if a else ''); break
                step = 1
            else:
                ok = False; construct = 'unexpected-directive'; msg = 'unexpected output `%s` inside the data image' % e[1]; break
            if ui >= len(upd) or upd[ui][2] != pos or upd[ui][3] != pos + step:
                ok = False; construct = 'position-step'
                msg = 'after `%s` the image position goes from %s to %s, expected %d -> %d (a relocation occupies 8 bytes, a raw byte 1)' % (
                    d, show(upd[ui][2]) if ui < len(upd) else '?', show(upd[ui][3]) if ui < len(upd) else '?', pos, pos + step); break
            ui += 1
            pos += step
            last_step = step
        if ok:
            b = ctx.bounds.get(vkey(size))
            if items:
                good = b is not None and b[1] <= pos and b[0] > pos - last_step
            else:
                good = b is not None and b[1] <= 0
            if not good:
                ok = False; construct = 'image-length'
                msg = 'the walk emits %d bytes for an object whose size is known to be in [%s, %s]: the loop does not run while position < var->ty->size' % (pos, b[0] if b else '?', b[1] if b else '?')
        rep.ob('R05.5', '%s:emit_data:%s' % (CU, construct), ok, msg, where=where, facts={'path': ctx.trail[-10:]})
    if nq == 0 or nb == 0:
        rep.undecided('R05.5', '%s:emit_data:walk' % CU, 'image walk not recognised (.quad items %d, .byte items %d)' % (nq, nb))
    # ---- (b) size / alignment / zero fill of the header ------------------------------------------
    it = _emit_interp(P, cu, cg, 1)

    seen = set()
    for tname in ('int', 'ptr', 'struct', 'array'):
        def mk2(ctx, tname=tname):
            v = Obj('Obj', lazy=True, label='var')
            v.fields.update({'next': 0, 'is_function': 0, 'is_definition': 1, 'rel': 0})
            v.fields['init_data'] = View(Cell([0, Sym('var.init_data', 'char *')], 'var.init_data'))
            v.fields['ty'] = type_cell(cg.cat, 'var.ty', only=(tname,))
            ctx.neq[('sym', 'var.init_data')] = {0}
            ctx.var = v
            return [v]
        _r055_header(it, rep, cu, E, mk2, seen, where)
    for d in ('.size', '.zero', '.comm', '.align'):
        if d not in seen:
            rep.undecided('R05.5', '%s:emit_data:%s' % (CU, d), 'directive %s is never emitted on any path' % d)


def _r055_header(it, rep, cu, E, mk2, seen, where):
    CU = 'codegen.c'
    for ctx, out in it.explore('emit_data', mk2):
        if out[0] != 'ret':
            continue
        v = ctx.var
        ty = settle(it, v.fields.get('ty'))
        if not isinstance(ty, Obj):
            continue
        size = ty.fields.get('size')
        emits = [e for e in ctx.events if e[0] == 'emit']
        # expected alignment
        isarr = ty.fields.get('kind') == E['TY_ARRAY']
        sb = ctx.bounds.get(vkey(size)) if size is not None and not isinstance(size, int) else ([size, size] if isinstance(size, int) else None)
        big = isarr and sb is not None and sb[0] >= 16
        small = (not isarr) or (sb is not None and sb[1] < 16)
        va = v.fields.get('align')
        ab = ctx.bounds.get(vkey(va)) if va is not None else None

        def align_ok(a):
            if big:
                return (a == 16 and ab is not None and ab[1] <= 16) or (a is va and ab is not None and ab[0] > 16)
            if small:
                return a is va and va is not None
            return None
        for e in emits:
            d = _directive(e[1])
            a = e[2]
            if d == '.size':
                seen.add(d)
                rep.ob('R05.5', '%s:emit_data:.size-is-object-size' % CU, len(a) == 2 and same(it, a[1], size) and a[0] is v.fields.get('name'),
                       '.size does not announce var->ty->size for the symbol var->name (%s)' % ', '.join(show(x) for x in a), where='%s:%d' % (CU, e[3]))
            elif d == '.zero':
                seen.add(d)
                good = len(a) == 1 and same(it, a[0], size) and is_null(settle(it, v.fields['init_data']))
                rep.ob('R05.5', '%s:emit_data:.zero-is-object-size' % CU, good,
                       'an object without initializer is not emitted as exactly var->ty->size zero bytes (%s)' % ', '.join(show(x) for x in a), where='%s:%d' % (CU, e[3]))
            elif d == '.comm':
                seen.add(d)
                good = len(a) == 3 and a[0] is v.fields.get('name') and same(it, a[1], size) and align_ok(a[2]) is not False
                rep.ob('R05.5', '%s:emit_data:.comm-size-align' % CU, good,
                       '.comm does not carry (name, var->ty->size, alignment): %s' % ', '.join(show(x) for x in a), where='%s:%d' % (CU, e[3]))
            elif d == '.align':
                seen.add(d)
                r = align_ok(a[0]) if len(a) == 1 else False
                if r is None:
                    continue
                rep.ob('R05.5', '%s:emit_data:.align-%s' % (CU, 'array>=16-bytes' if big else 'plain'), r,
                       'the alignment of %s is emitted as %s, expected %s' % ('an array of 16 bytes or more' if big else 'an object', show(a[0]) if a else '?', 'max(16, var->align)' if big else 'var->align'),
                       where='%s:%d' % (CU, e[3]), facts={'path': ctx.trail[-8:]})
        inited = not is_null(settle(it, v.fields['init_data']))
        comm = any(_directive(e[1]) == '.comm' for e in emits)
        if not inited and not comm:
            rep.ob('R05.5', '%s:emit_data:uninitialised-object-zero-filled' % CU, any(_directive(e[1]) == '.zero' for e in emits),
                   'a defined object without initializer gets neither .zero nor .comm', where=where, facts={'path': ctx.trail[-8:]})


# ------------------------------------------------------------------------------------------------
# R05.3 zero fill first
# ------------------------------------------------------------------------------------------------
def _init_models(store):
    def m_initializer(it, ctx, n, a):
        if len(a) < 4 or not isinstance(a[3], _Ref):
            raise AnalysisBroken('initializer() is no longer called with (&rest, tok, ty, &new_ty)')
        final = Obj('Type', lazy=True, label='final-type')
        a[3].place.set(it, final)
        tree = Obj('Initializer', lazy=True, label='init-tree')
        ctx.emit('initializer', a, tree, final, n.line)
        return tree
    return {'initializer': m_initializer}


def _is_field(it, arg, owner, f):
    """arg is the value of owner->f (owner may still be a cell with several candidates)"""
    o = settle(it, owner)
    if isinstance(o, Obj):
        return f in o.fields and same(it, arg, o.fields[f])
    if isinstance(o, View) and isinstance(arg, View):
        return arg.cell is o.cell and arg.tag == o.tag + '.' + f
    return False


def r053(P, u, E, rep):
    rep.rule('R05.3', 'automatic objects are zero-filled over their whole final size before the assignment chain runs; static images come from calloc of the final size', floor=10)
    # ---- lvar_initializer -----------------------------------------------------------------------
    fn = 'lvar_initializer'

    def h_chain(it, ctx, n, a):
        r = Obj('Node', lazy=True, label='assignment-chain')
        ctx.emit('chain', a, r, n.line)
        return r
    it = TInterp(P, u, {'models': _init_models(None), 'cut': {'create_lvar_init': h_chain}, 'track_stores': True})

    def mk(ctx):
        ctx.var = Obj('Obj', lazy=True, label='var')
        ctx.slot = _Slot()
        return [_Ref(ctx.slot), Obj('Token', lazy=True, label='tok'), ctx.var]
    n = 0
    for ctx, out in it.explore(fn, mk):
        if out[0] != 'ret':
            continue
        n += 1
        r = settle(it, out[1])
        ini = [e for e in ctx.events if e[0] == 'initializer']
        ch = [e for e in ctx.events if e[0] == 'chain']
        where = _w(u, fn)
        ok = isinstance(r, Obj) and field(r, 'kind') == E['ND_COMMA']
        lhs = field(r, 'lhs') if ok else None
        rhs = field(r, 'rhs') if ok else None
        z = isinstance(lhs, Obj) and field(lhs, 'kind') == E['ND_MEMZERO'] and field(lhs, 'var') is ctx.var
        rep.ob('R05.3', '%s:%s:memzero-is-left-operand-of-comma' % (U, fn), bool(ok and z),
               'the initializer expression of an automatic object is not `(zero-fill var, assignments)`: the zero fill of the whole object must be evaluated BEFORE the assignments '
               '(as the left operand of the comma), otherwise unmentioned members keep stack garbage or assigned members are wiped', where=where)
        c = len(ch) == 1 and rhs is ch[0][2]
        rep.ob('R05.3', '%s:%s:assignment-chain-is-right-operand' % (U, fn), bool(ok and c), 'the assignment chain built by create_lvar_init is not the right operand of the comma', where=where)
        good = len(ini) == 1 and len(ch) == 1 and settle(it, ch[0][1][0]) is ini[0][2] and settle(it, ch[0][1][1]) is ini[0][3]
        rep.ob('R05.3', '%s:%s:chain-uses-final-type' % (U, fn), bool(good),
               'create_lvar_init is not run on (the parsed initializer, the FINAL type of the variable as updated by initializer()): arrays of unknown bound / flexible members would be initialised with the incomplete type', where=where)
        if len(ch) == 1:
            d = settle(it, ch[0][1][2]) if len(ch[0][1]) > 2 else None
            dg = isinstance(d, Obj) and settle(it, d.fields.get('var', 0)) is ctx.var and is_null(settle(it, d.fields.get('next', 0))) and is_null(settle(it, d.fields.get('member', 0)))
            rep.ob('R05.3', '%s:%s:root-designator-is-the-variable' % (U, fn), bool(dg), 'the root designator of the assignment chain is not the variable itself', where=where)
        fin = field(ctx.var, 'ty')
        rep.ob('R05.3', '%s:%s:variable-gets-final-type' % (U, fn), len(ini) == 1 and fin is ini[0][3],
               'the variable does not receive the completed type computed by initializer(): the zero fill and the frame slot would use the incomplete size', where=where)
    if n == 0:
        rep.undecided('R05.3', '%s:%s' % (U, fn), 'no returning path')
    # ---- gvar_initializer -----------------------------------------------------------------------------
    fn = 'gvar_initializer'

    def m_calloc(it, ctx, n, a):
        b = Obj(None, lazy=False, label=ctx.fresh('calloc'))
        ctx.emit('calloc', a, b, n.line)
        return b

    def h_write(it, ctx, n, a):
        first = Obj('Relocation', lazy=True, label='first-relocation')
        if isinstance(a[0], Obj):
            a[0].fields['next'] = first
        ctx.emit('write', a, first, n.line)
        return first
    models = _init_models(None)
    models['calloc'] = m_calloc
    it = TInterp(P, u, {'models': models, 'cut': {'write_gvar_data': h_write}, 'track_stores': True})
    n = 0
    for ctx, out in it.explore(fn, mk):
        if out[0] != 'ret':
            continue
        n += 1
        where = _w(u, fn)
        ini = [e for e in ctx.events if e[0] == 'initializer']
        cal = [e for e in ctx.events if e[0] == 'calloc']
        wr = [e for e in ctx.events if e[0] == 'write']
        final = ini[0][3] if len(ini) == 1 else None
        fsz = field(final, 'size') if final is not None else None
        good = False
        if len(cal) == 1 and fsz is not None and len(cal[0][1]) == 2:
            x, y = cal[0][1]
            good = (x == 1 and y is fsz) or (y == 1 and x is fsz)
        rep.ob('R05.3', '%s:%s:image-is-calloc-of-final-size' % (U, fn), good,
               'the byte image of a static object is not calloc(1, size of the FINAL type): unmentioned members would not be zero, or the image of `T x[] = {...}` would be too short', where=where)
        g2 = len(wr) == 1 and len(cal) == 1 and len(wr[0][1]) >= 5 and settle(it, wr[0][1][1]) is ini[0][2] and settle(it, wr[0][1][2]) is final \
            and wr[0][1][3] is cal[0][2] and wr[0][1][4] == 0
        rep.ob('R05.3', '%s:%s:image-filled-from-offset-0' % (U, fn), bool(g2),
               'write_gvar_data is not run on (the parsed initializer, the final type, the fresh image, offset 0)', where=where)
        head = wr[0][1][0] if wr else None
        g3 = len(wr) == 1 and isinstance(head, Obj) and not head.lazy and field(ctx.var, 'rel') is wr[0][2] and field(ctx.var, 'init_data') is (cal[0][2] if cal else None)
        rep.ob('R05.3', '%s:%s:object-gets-image-and-relocations' % (U, fn), bool(g3),
               'the variable does not receive the image (init_data) and the relocation list that starts behind the dummy head (head.next)', where=where)
    if n == 0:
        rep.undecided('R05.3', '%s:%s' % (U, fn), 'no returning path')
    # ---- code generator: ND_MEMZERO fills var->ty->size bytes from var->offset(%rbp); comma evaluates left first ----
    from ..chibi import CG, Trace, parse_ins
    cg = CG(P)
    for kind in ('ND_MEMZERO', 'ND_COMMA'):
        if kind not in cg.E:
            raise AnalysisBroken('enumerator %s vanished' % kind)

    def mkz(ctx):
        nd = cg.node('node', 'ND_MEMZERO')
        v = Obj('Obj', lazy=True, label='var')
        nd.fields['var'] = v
        ctx.root = nd
        return nd
    itz, res = cg.explore('gen_expr', mkz)
    n = 0
    for ctx, out in res:
        if out[0] != 'ret':
            continue
        n += 1
        v = ctx.root.fields['var']
        vt = settle(itz, v.fields.get('ty'))
        vsize = field(vt, 'size') if isinstance(vt, Obj) else None
        ems = [e for e in ctx.events if e[0] == 'emit']
        facts = {'count': None, 'dest': None, 'value': None, 'rep': None}
        other = []
        for i, e in enumerate(ems):
            fmt = e[1] if isinstance(e[1], str) else ''
            ins = parse_ins(fmt.replace('%%', '%'))
            if ins is None:
                continue
            mn, ops = ins
            a = e[2]
            if mn.startswith('mov') and len(ops) == 2 and ops[1] in ('%rcx', '%ecx') and ops[0] == '$%d' and len(a) == 1:
                facts['count'] = (i, a[0])
            elif mn.startswith('lea') and len(ops) == 2 and ops[1] == '%rdi' and ops[0] == '%d(%rbp)' and len(a) == 1:
                facts['dest'] = (i, a[0])
            elif (mn.startswith('mov') and len(ops) == 2 and ops[0] == '$0' and ops[1] in ('%al', '%eax', '%rax')) or (mn.startswith('xor') and len(ops) == 2 and ops[0] == ops[1] and ops[0] in ('%eax', '%rax', '%al')):
                facts['value'] = (i, 0)
            elif mn == 'rep' and ops and ops[0].startswith('stosb'):
                facts['rep'] = (i, None)
            elif mn == 'rep':
                facts['rep'] = (i, ' '.join(ops))
            else:
                other.append(fmt.strip())
        where = '%s:%d' % ('codegen.c', ems[0][3] if ems else cg.cu.fn('gen_expr').line)
        if other or facts['rep'] is None:
            rep.undecided('R05.3', 'codegen.c:gen_expr:ND_MEMZERO', 'zero-fill sequence not recognised (%s)' % '; '.join(other or ['no rep stos']), where=where)
            continue
        last = facts['rep'][0]
        okc = facts['count'] is not None and facts['count'][0] < last and _is_field(itz, facts['count'][1], v.fields.get('ty'), 'size') and facts['rep'][1] is None
        rep.ob('R05.3', 'codegen.c:gen_expr:ND_MEMZERO/byte-count-is-object-size', bool(okc),
               'the zero fill of an automatic object does not cover exactly var->ty->size bytes (count operand %s, unit %s)' % (show(facts['count'][1]) if facts['count'] else 'missing', facts['rep'][1] or 'byte'), where=where)
        okd = facts['dest'] is not None and facts['dest'][0] < last and same(itz, facts['dest'][1], v.fields.get('offset')) and 'offset' in v.fields
        rep.ob('R05.3', 'codegen.c:gen_expr:ND_MEMZERO/starts-at-object', bool(okd), 'the zero fill does not start at var->offset(%rbp)', where=where)
        okv = facts['value'] is not None and facts['value'][0] < last
        rep.ob('R05.3', 'codegen.c:gen_expr:ND_MEMZERO/fills-with-zero', bool(okv), 'the fill byte in %al is not set to zero before rep stosb', where=where)
    if n == 0:
        rep.undecided('R05.3', 'codegen.c:gen_expr:ND_MEMZERO', 'no returning path')

    def mkc(ctx):
        nd = cg.node('node', 'ND_COMMA')
        nd.fields['lhs'] = cg.node('lhs'); nd.fields['rhs'] = cg.node('rhs')
        ctx.root = nd
        return nd
    itc, res = cg.explore('gen_expr', mkc)
    n = 0
    for ctx, out in res:
        if out[0] != 'ret':
            continue
        n += 1
        seq = [settle(itc, e[1]) for e in ctx.events if e[0] == 'gen_expr']
        good = seq == [ctx.root.fields['lhs'], ctx.root.fields['rhs']]
        rep.ob('R05.3', 'codegen.c:gen_expr:ND_COMMA/left-then-right', good, 'the comma operator does not evaluate its left operand (the zero fill) and then its right operand (the assignments), each once',
               where='codegen.c:%d' % cg.cu.fn('gen_expr').line)
    if n == 0:
        rep.undecided('R05.3', 'codegen.c:gen_expr:ND_COMMA', 'no returning path')


# ------------------------------------------------------------------------------------------------
# R05.6 string initializer element width
# ------------------------------------------------------------------------------------------------
def _exact(ctx, X, n):
    b = ctx.bounds.get(vkey(X))
    return bool(b) and ((b[0] == b[1] == n) or (n == 0 and b[1] <= 0))


def _le_fact(ctx, X, Y):
    """does the path know X <= Y from a comparison of the two symbols?"""
    kx, ky = vkey(X), vkey(Y)
    for k, v in ctx.facts.items():
        if not (isinstance(k, tuple) and len(k) == 4 and k[0] == 'term'):
            continue
        op, a, b = k[1].split(':')[0], k[2], k[3]
        if (a, b) == (kx, ky):
            if (op in ('<', '<=') and v) or (op == '>' and not v):
                return True
        if (a, b) == (ky, kx):
            if (op in ('>', '>=') and v) or (op == '<' and not v):
                return True
    return False


def _is_min_len(ctx, n, A, B):
    for X, Y in ((A, B), (B, A)):
        if _exact(ctx, X, n) and (_le_fact(ctx, X, Y) or _exact(ctx, Y, n)):
            return True
        b = ctx.bounds.get(vkey(Y))
        if _exact(ctx, X, n) and b and b[0] >= n:
            return True
    return False


def r056(P, u, E, cat, rep):
    fn = 'string_initializer'
    rep.rule('R05.6', 'string_initializer reads the literal with the element width of the array for every element size that can reach it, stores min(array length, literal length) elements, or diagnoses; initializer2 hands a string literal to it for arrays of character type and, by brace elision, to the first element of any other array', floor=7)
    it = TInterp(P, u, {'opaque': ['new_initializer', 'array_of'], 'loop_limit': 2, 'lazy_field': children_hook(), 'track_stores': True})
    sizes = {}
    for name, f in cat.entries():
        if name in SCALARS:
            sizes.setdefault(f['size'], []).append(name)

    def mk(ctx):
        init = Obj('Initializer', lazy=True, label='init')
        ty = Obj('Type', lazy=True, label='init.ty')
        ty.fields['kind'] = E['TY_ARRAY']
        ty.fields['base'] = type_cell(cat, 'init.ty.base', only=SCALARS)
        ty.fields['array_len'] = Sym('init.ty.array_len', 'int')
        init.fields['ty'] = ty
        init.fields['is_flexible'] = 0
        tok = Obj('Token', lazy=True, label='tok')
        tt = Obj('Type', lazy=True, label='tok.ty')
        tt.fields['array_len'] = Sym('tok.ty.array_len', 'int')
        tok.fields['ty'] = tt
        ctx.root_init, ctx.tok = init, tok
        ctx.slot = _Slot()
        return [_Ref(ctx.slot), tok, init]
    done = set()
    for ctx, out in it.explore(fn, mk):
        init, tok = ctx.root_init, ctx.tok
        names = [n for n in cat_of(init.fields['ty'].fields['base']) if n]
        szs = sorted(set(dict(cat.entries())[n]['size'] for n in names))
        if out[0] != 'ret':
            for sz in szs:
                done.add(sz)
                key = '%s:%s:element-size=%d' % (U, fn, sz)
                nm = [n for n in names if dict(cat.entries())[n]['size'] == sz]
                if out[1] in ('error_tok', 'error_at'):
                    rep.ob('R05.6', key + '/diagnosed', True, '', where='%s:%d' % (U, out[3]))
                else:
                    rep.ob('R05.6', key + '/internal-error', False,
                           'an array whose element size is %d (%s) initialised by a string literal reaches %s(%s): no width arm and no located diagnostic (`long x[] = "abc";` dies with "internal error")'
                           % (sz, '/'.join(nm), out[1], show(out[2][0]) if out[2] else ''), where='%s:%d' % (U, out[3]), facts={'path': ctx.trail[-6:]})
            continue
        if len(szs) != 1:
            if out[0] == 'ret' and not [e for e in ctx.events if e[0] == 'fstore' and e[2] == 'expr']:
                for s in szs:
                    done.add(s)       # zero-length path: the element size is never consulted
                continue
            rep.undecided('R05.6', '%s:%s:element-size-not-decided' % (U, fn), 'a path handles element sizes %s alike' % szs)
            continue
        sz = szs[0]
        done.add(sz)
        key = '%s:%s:element-size=%d' % (U, fn, sz)
        sts = [e for e in ctx.events if e[0] == 'fstore' and e[2] == 'expr']
        ch = field(init, 'children')
        ok, msg, construct = True, '', 'elements'
        for i, e in enumerate(sts):
            k = child_index(ch, e[1])
            node = settle(it, e[4])
            val = field(node, 'val') if isinstance(node, Obj) else None
            val, _ = strip_cast(val)
            if k != i:
                ok = False; construct = 'element-order'; msg = 'store #%d of a string initializer goes to element %s' % (i, show_key(k)); break
            if not isinstance(node, Obj) or field(node, 'kind') != E['ND_NUM']:
                ok = False; construct = 'element-value'; msg = 'an element initialised from a string literal is not a number node'; break
            good = isinstance(val, Term) and val.op == 'load' and isinstance(val.args[0], Term) and val.args[0].op == 'elem'
            if not good:
                ok = False; construct = 'element-value'; msg = 'element %d is initialised with %s, not with a code unit of the literal' % (i, show(val)); break
            base, idx, ct = val.args[0].args
            if base is not tok.fields.get('str'):
                ok = False; construct = 'element-value'; msg = 'code units are not read from tok->str'; break
            if idx != i:
                ok = False; construct = 'element-index'; msg = 'element %d is initialised with code unit %s of the literal' % (i, show(idx)); break
            if ctype_bits(ct) != 8 * sz:
                ok = False; construct = 'read-width'
                msg = 'for element size %d the literal is read as `%s` (%s bits per code unit): characters are taken from the wrong bytes' % (sz, ct, ctype_bits(ct)); break
        # number of elements: min(array_len, literal length)
        if ok:
            A, B = init.fields['ty'].fields['array_len'], tok.fields['ty'].fields['array_len']
            n = len(sts)
            if not _is_min_len(ctx, n, A, B):
                ok = False; construct = 'element-count'
                msg = ('%d elements are stored on a path that does not establish %d == min(array length, literal length): a longer literal would overflow the '
                       'Initializer children / a shorter one would read past the literal' % (n, n))
        rep.ob('R05.6', key + '/' + construct, ok, msg, where=_w(u, fn), facts={'path': ctx.trail[-8:]})
        if ctx.slot.v is not field(tok, 'next') or 'next' not in tok.fields:
            rep.ob('R05.6', '%s:%s:consumes-the-literal' % (U, fn), False, 'string_initializer does not advance past the string literal token', where=_w(u, fn))
        else:
            rep.ob('R05.6', '%s:%s:consumes-the-literal' % (U, fn), True, '', where=_w(u, fn))
    missing = [s for s in sizes if s not in done]
    if missing:
        rep.undecided('R05.6', '%s:%s' % (U, fn), 'no path for element sizes %s' % missing)
    f2 = u.fn('initializer2')
    if f2 is None or not f2.calls('string_initializer'):
        rep.undecided('R05.6', '%s:initializer2:string-dispatch' % U, 'initializer2 no longer calls string_initializer')
        return
    _r056_dispatch(P, u, E, cat, rep)
    _r056_braced(P, u, E, cat, rep)


CHAR_CATS = ('char', 'uchar', 'short', 'ushort', 'int', 'uint')      # char, char16_t, char32_t / wchar_t and their signed/unsigned twins
ELIDE_CATS = ('ptr', 'struct', 'union', 'array')                     # element types a string literal can only reach through brace elision


def _r056_dispatch(P, u, E, cat, rep):
    """which arrays take a string literal as the initializer of the WHOLE array (C11 6.7.9p14/15: arrays of character type) and which
    hand it, by brace elision (p20), to their first element (`char *names[2]`, `char lines[2][4]` as a member: `{ "ab", "cd", 1 }`)"""
    fn = 'initializer2'
    if 'TK_STR' not in E:
        raise AnalysisBroken('enumerator TK_STR vanished')

    def m_equal(it, ctx, n, a):
        return 0          # a string literal token is neither `{` nor a designator

    def m_assign(it, ctx, n, a):
        node = Obj('Node', lazy=True, label='string-literal-expr')
        _set_rest(it, ctx, a[0], 'tok-after-expr')
        ctx.emit('assign', node, n.line)
        return node

    def h_sub(name):
        def f(it, ctx, n, a):
            _set_rest(it, ctx, a[0], 'tok-after-' + name)
            ctx.emit('sub', name, a, n.line)
            return None
        return f
    subs_of = ('string_initializer', 'array_initializer1', 'array_initializer2', 'struct_initializer1', 'struct_initializer2', 'union_initializer')
    models = {'equal': m_equal, 'assign': m_assign}
    models.update({nm: h_sub(nm) for nm in subs_of})
    it = TInterp(P, u, {'models': models, 'cut': {'initializer2': h_sub('initializer2')}, 'opaque': ['add_type', 'consume', 'skip'],
                        'lazy_field': children_hook(), 'track_stores': True})

    def mk(ctx):
        init = Obj('Initializer', lazy=True, label='init')
        ty = Obj('Type', lazy=True, label='init.ty')
        ty.fields['kind'] = E['TY_ARRAY']
        ty.fields['base'] = type_cell(cat, 'init.ty.base', only=INT_CATS + ELIDE_CATS)
        ty.fields['array_len'] = Sym('init.ty.array_len', 'int')
        init.fields['ty'] = ty
        tok = Obj('Token', lazy=True, label='tok')
        tok.fields['kind'] = E['TK_STR']
        ctx.root_init, ctx.root_tok = init, tok
        ctx.slot = _Slot()
        return [_Ref(ctx.slot), tok, init]
    where = _w(u, fn)
    n_el = n_ch = 0
    for ctx, out in it.explore(fn, mk):
        init, tok = ctx.root_init, ctx.root_tok
        names = [n for n in cat_of(init.fields['ty'].fields['base']) if n]
        el = [n for n in ELIDE_CATS if n in names]
        chs = [n for n in CHAR_CATS if n in names]
        subs = [e for e in ctx.events if e[0] == 'sub']
        whole = [e for e in subs if e[1] == 'string_initializer']
        if el:
            n_el += 1
            key = '%s:%s:string-literal/array-of-non-character-elements' % (U, fn)
            what = '/'.join({'ptr': 'pointers', 'struct': 'structs', 'union': 'unions', 'array': 'arrays'}[n] for n in el)
            if whole or out[0] != 'ret':
                rep.ob('R05.6', key + ('/taken-as-initializer-of-the-whole-array' if whole else '/rejected'), False,
                       ('a string literal given without braces for a sub-object that is an array of %s %s: only an array of character type is initialised as a whole by a string literal '
                        '(C11 6.7.9p14/15); for any other array the literal initialises, by brace elision (p20), the FIRST ELEMENT. `struct { char n[2][4]; int k; } a = { "abc", "def", 1 };` '
                        'stores garbage (the literal is read as 4-byte code units), `struct { char *names[2]; int k; } v = { "x", "y", 3 };` is rejected'
                        % (what, 'is handed to string_initializer as the initializer of the whole array' if whole else 'ends in %s()' % out[1])),
                       where='%s:%d' % (U, whole[0][3] if whole else out[3]), facts={'path': ctx.trail, 'element type classes': names})
            else:
                ok, msg, construct = True, '', 'initialises-first-element'
                if len(subs) != 1 or subs[0][1] != 'array_initializer2':
                    ok = False; construct = 'no-brace-elided-element-walk'
                    msg = 'a string literal for an array of %s leads to %s, expected one brace-elided element walk (array_initializer2)' % (what, [e[1] for e in subs] or 'no nested parse')
                else:
                    a = subs[0][2]
                    if len(a) < 4 or settle(it, a[1]) is not tok or settle(it, a[2]) is not init or not (isinstance(a[3], int) and a[3] == 0):
                        ok = False; construct = 'element-walk-not-from-element-0-at-the-literal'
                        msg = 'the brace-elided element walk for an array of %s does not start with element 0 at the string literal token' % what
                rep.ob('R05.6', key + '/' + construct, ok, msg, where=where, facts={'path': ctx.trail})
        if chs:
            n_ch += 1
            key = '%s:%s:string-literal/array-of-character-elements' % (U, fn)
            good = out[0] == 'ret' and len(subs) == 1 and len(whole) == 1 and len(whole[0][2]) >= 3 and settle(it, whole[0][2][1]) is tok and settle(it, whole[0][2][2]) is init
            rep.ob('R05.6', key + ('/string-initializer' if good else '/not-initialised-from-the-literal'), good,
                   'an array of %s initialised by a string literal is not handed to string_initializer(rest, tok, init) (outcome %s, nested parses %s): `char s[] = "abc";` / `wchar_t w[] = L"abc";` '
                   'do not store the code units of the literal' % ('/'.join(chs), out[0], [e[1] for e in subs]), where=where, facts={'path': ctx.trail})
    if n_el == 0 or n_ch == 0:
        rep.undecided('R05.6', '%s:%s:string-literal' % (U, fn), 'string dispatch of initializer2 not recognised (paths for non-character element types %d, for character types %d)' % (n_el, n_ch))


def _r056_braced(P, u, E, cat, rep):
    """C11 6.7.9p14: "an array of character type may be initialized by a character string literal, OPTIONALLY ENCLOSED IN BRACES". initializer2 is
    run on the concrete token sequence `{ "literal" }` (and `{ "literal" , }`) for an array of every character class; array_initializer1 and the token
    helpers are interpreted, the element parsers are cut: the literal must reach string_initializer together with the array's initializer; reaching
    initializer2 of element 0 means the ADDRESS of the literal initialises the first character"""
    fn = 'initializer2'
    subs_of = ('string_initializer', 'array_initializer2', 'struct_initializer1', 'struct_initializer2', 'union_initializer', 'designation', 'skip_excess_element')

    def sp_of(it, t):
        t = settle(it, t)
        return t.meta.get('sp') if isinstance(t, Obj) else None

    def m_equal(it, ctx, n, a):
        sp = sp_of(it, a[0])
        if sp is None or not isinstance(a[1], str):
            raise AnalysisBroken('equal(%s, %s) at line %d on a token outside the modelled sequence' % (show(a[0]), show(a[1]), n.line))
        return 1 if sp == a[1] else 0

    def m_skip(it, ctx, n, a):
        t = settle(it, a[0])
        if sp_of(it, t) != a[1]:
            ctx.emit('sub', 'skip-mismatch', a, n.line)
        return it.read_field(t, 'next', None)

    def m_consume(it, ctx, n, a):
        t = settle(it, a[1])
        hit = sp_of(it, t) == a[2]
        if isinstance(a[0], _Ref):
            a[0].place.set(it, it.read_field(t, 'next', None) if hit else t)
        return 1 if hit else 0

    def h_sub(name):
        def f(it, ctx, n, a):
            # an element parser consumes the literal: the walk continues behind it
            t = settle(it, a[1]) if len(a) > 1 else None
            if isinstance(a[0], _Ref) and isinstance(t, Obj):
                a[0].place.set(it, it.read_field(t, 'next', None))
            ctx.emit('sub', name, a, n.line)
            return None
        return f
    def m_excess(it, ctx, n, a):
        ctx.emit('sub', 'skip_excess_element', a, n.line)
        t = settle(it, a[0])
        return it.read_field(t, 'next', None) if isinstance(t, Obj) else 0
    models = {'equal': m_equal, 'skip': m_skip, 'consume': m_consume}
    models.update({nm: h_sub(nm) for nm in subs_of})
    models['skip_excess_element'] = m_excess
    n_ok = 0
    for trailing in (False, True):
        it = TInterp(P, u, {'models': models, 'cut': {'initializer2': h_sub('initializer2')}, 'opaque': ['add_type', 'count_array_init_elements', 'new_initializer', 'array_of'],
                            'lazy_field': children_hook(), 'track_stores': True, 'loop_limit': 3})

        def mk(ctx, trailing=trailing):
            init = Obj('Initializer', lazy=True, label='init')
            ty = Obj('Type', lazy=True, label='init.ty')
            ty.fields['kind'] = E['TY_ARRAY']
            ty.fields['base'] = type_cell(cat, 'init.ty.base', only=CHAR_CATS)
            ty.fields['array_len'] = 4          # `char s[4] = {"abc"};` (an array of unknown bound is completed by string_initializer itself)
            init.fields['ty'] = ty
            init.fields['is_flexible'] = 0
            sps = ['{', None] + ([','] if trailing else []) + ['}', ';']
            toks = []
            for i, sp in enumerate(sps):
                t = Obj('Token', lazy=True, label='tok%d' % i)
                t.meta['sp'] = sp if sp is not None else '"literal"'
                t.fields['kind'] = E['TK_STR'] if sp is None else E['TK_PUNCT']
                toks.append(t)
            for a, b in zip(toks, toks[1:]):
                a.fields['next'] = b
            ctx.root_init, ctx.toks = init, toks
            ctx.slot = _Slot()
            return [_Ref(ctx.slot), toks[0], init]
        form = 'braced-string-literal' + ('-with-trailing-comma' if trailing else '')
        key = '%s:%s:%s/array-of-character-elements' % (U, fn, form)
        where = _w(u, fn)
        try:
            res = list(it.explore(fn, mk))
        except AnalysisBroken as ex:
            rep.undecided('R05.6', key, 'the parse of `{ "literal" }` is not interpretable: %s' % ex, where=where)
            continue
        for ctx, out in res:
            init, lit = ctx.root_init, ctx.toks[1]
            subs = [e for e in ctx.events if e[0] == 'sub']
            whole = [e for e in subs if e[1] == 'string_initializer' and len(e[2]) >= 3 and settle(it, e[2][1]) is lit and settle(it, e[2][2]) is init]
            elem = [e for e in subs if e[1] in ('initializer2', 'skip_excess_element') and len(e[2]) >= 2 and lit in [settle(it, x) for x in e[2][:2]]]
            if whole and not elem and out[0] == 'ret':
                n_ok += 1
                good = settle(it, ctx.slot.v) is ctx.toks[-1] and not [e for e in subs if e[1] == 'skip-mismatch']
                rep.ob('R05.6', key + ('/string-initializer' if good else '/closing-brace-not-consumed'), good,
                       'after the braced string literal the parse does not resume behind the closing brace', where=where, facts={'path': ctx.trail})
            elif elem:
                n_ok += 1
                rep.ob('R05.6', key + '/literal-initialises-the-first-element', False,
                       'a string literal enclosed in braces for an array of character type (C11 6.7.9p14 allows the braces: `char s[] = {"abc"};`, `char l[5] = {"ab"};`) is parsed as a list of '
                       'elements: the literal becomes the initializer of the FIRST CHARACTER, which receives the low byte of the literal\'s address, and an array of unknown bound gets length 1 '
                       '(gcc: sizeof s == 4, s[0] == \'a\')', where='%s:%d' % (U, elem[0][3]), facts={'path': ctx.trail})
            else:
                rep.undecided('R05.6', key, 'the literal of `{ "literal" }` reaches neither string_initializer nor an element parser (outcome %s, nested parses %s)' % (out[0], [e[1] for e in subs]), where=where)
    if n_ok == 0:
        rep.undecided('R05.6', '%s:%s:braced-string-literal' % (U, fn), 'no path recognised')


# ------------------------------------------------------------------------------------------------
# R05.1 (parser side): an aggregate initialised by an expression of its own type is copied as a whole
# ------------------------------------------------------------------------------------------------
def _copy_interp(P, u, mk_expr_type):
    """initializer2 on an initializer that starts neither with `{` nor with a designator: `assign` yields an expression whose type is
    made by mk_expr_type(ctx); the nested parser calls are cut and recorded"""
    def m_equal(it, ctx, n, a):
        return 0          # the initializer starts neither with `{` nor with a designator

    def m_assign(it, ctx, n, a):
        node = Obj('Node', lazy=True, label='initializer-expr')
        node.fields['ty'] = mk_expr_type(ctx)
        _set_rest(it, ctx, a[0], 'tok-after-expr')
        ctx.emit('assign', node, n.line)
        return node

    def h_sub(name):
        def f(it, ctx, n, a):
            _set_rest(it, ctx, a[0], 'tok-after-' + name)
            ctx.emit('sub', name, a, n.line)
            return None
        return f
    base_hook = children_hook()

    def hook(it, ctx, o, f, t):
        src = o.meta.get('copy_of')
        if src is not None and f != 'origin':
            return it.read_field(src, f, t)       # copy_type(): `*ret = *ty`, every field but origin is the field of the original
        return base_hook(it, ctx, o, f, t)
    return TInterp(P, u, {'models': {'equal': m_equal, 'assign': m_assign, 'struct_initializer2': h_sub('struct_initializer2')},
                          'cut': {'initializer2': h_sub('initializer2')}, 'opaque': ['add_type', 'consume', 'skip'],
                          'lazy_field': hook, 'track_stores': True})


def _mk_copy_args(E, kind, concrete_type):
    def mk(ctx):
        init = Obj('Initializer', lazy=True, label='init')
        ty = Obj('Type', lazy=True, label='init.ty')
        ty.fields['kind'] = E[kind]
        if concrete_type:
            # a complete, non-empty, unqualified aggregate type (the declared type itself, not a copy of it)
            ty.fields['members'] = Obj('Member', lazy=True, label='init.ty.members')
            ty.fields['origin'] = 0
            ty.fields['size'] = Sym('init.ty.size', 'int')
            ty.fields['align'] = Sym('init.ty.align', 'int')
        init.fields['ty'] = ty
        init.fields['expr'] = 0
        tok = Obj('Token', lazy=True, label='tok')
        tok.fields['kind'] = E['TK_IDENT'] if 'TK_IDENT' in E else 0
        ctx.root_init = init
        ctx.root_tok = tok
        ctx.slot = _Slot()
        return [_Ref(ctx.slot), tok, init]
    return mk


def r051_copy(P, u, E, rep):
    fn = 'initializer2'
    _need(u, fn, 'union_initializer')
    result = {}
    kind_name = {}
    for nm in u.enum_types.get('TypeKind', []):
        kind_name.setdefault(E[nm], nm)
    for kind, word in (('TY_STRUCT', 'struct'), ('TY_UNION', 'union')):
        where = _w(u, 'union_initializer' if kind == 'TY_UNION' else fn)
        # ---- (a) an expression of the object's own type (the very same Type) ---------------------------------------------
        it = _copy_interp(P, u, lambda ctx: ctx.root_init.fields['ty'])
        n = 0
        for ctx, out in it.explore(fn, _mk_copy_args(E, kind, False)):
            if out[0] != 'ret':
                continue
            n += 1
            init = ctx.root_init
            asg = [e for e in ctx.events if e[0] == 'assign']
            ex = field(init, 'expr')
            copied = bool(asg) and ex is asg[-1][1]
            subs = [e for e in ctx.events if e[0] == 'sub']
            how = 'copied' if copied else ('initialises-first-member' if subs else 'dropped')
            result[word] = result.get(word, True) and copied
            rep.ob('R05.1', '%s:%s:%s-valued-initializer/%s' % (U, fn, word, how), copied,
                   'an object of %s type initialised by an expression of the same %s type (`%s T x = y;`) is not copied as a whole: the expression is %s '
                   '(for a union: the ADDRESS bits of y end up in the first member), while the struct case assigns the whole object'
                   % (word, word, word, 'handed to the first member as if it were that member\'s initializer' if subs else 'dropped'),
                   where=where, facts={'path': ctx.trail})
        if n == 0:
            rep.undecided('R05.1', '%s:%s:%s-valued-initializer' % (U, fn, word), 'no returning path')
        if not result.get(word):
            continue        # no whole-object copy at all for this kind: nothing to delimit
        # ---- (b) an expression whose type is a copy_type() copy of the object's type (a parameter, an _Atomic-qualified object):
        #          another Type node with the same members whose origin is the object's type -- still the same C type ------------
        def mk_alias(ctx):
            ty = ctx.root_init.fields['ty']
            t2 = Obj('Type', lazy=True, label='copy-of-init.ty')
            t2.meta['copy_of'] = ty
            t2.fields['origin'] = ty
            return t2
        it = _copy_interp(P, u, mk_alias)
        n = 0
        for ctx, out in it.explore(fn, _mk_copy_args(E, kind, True)):
            if out[0] != 'ret':
                continue
            n += 1
            init = ctx.root_init
            asg = [e for e in ctx.events if e[0] == 'assign']
            copied = bool(asg) and field(init, 'expr') is asg[-1][1]
            rep.ob('R05.1', '%s:%s:%s-valued-initializer/type-copy/%s' % (U, fn, word, 'copied' if copied else 'not-recognised-as-the-same-type'), copied,
                   'an object of %s type initialised by an expression whose Type node is a copy_type() copy of the object\'s type (same members, origin = the object\'s type: '
                   'a %s parameter, `void f(%s T p) { %s T x = p; }`) is not copied as a whole: the expression is handed to the first member'
                   % (word, word, word, word), where=where, facts={'path': ctx.trail})
        if n == 0:
            rep.undecided('R05.1', '%s:%s:%s-valued-initializer/type-copy' % (U, fn, word), 'no returning path')
        # ---- (c) an expression of ANY OTHER type (another struct/union type, a scalar, ...) is not the value of the whole object
        #          (C11 6.7.9p13); by brace elision (p20) it initialises the first member / the members in order ------------------
        def mk_other(ctx):
            t2 = Obj('Type', lazy=True, label='type-of-expr')
            t2.fields['members'] = Obj('Member', lazy=True, label='type-of-expr.members')
            t2.fields['origin'] = 0
            t2.fields['size'] = Sym('type-of-expr.size', 'int')
            t2.fields['align'] = Sym('type-of-expr.align', 'int')
            ctx.other_ty = t2
            return t2
        it = _copy_interp(P, u, mk_other)
        n = nsame = 0
        for ctx, out in it.explore(fn, _mk_copy_args(E, kind, True)):
            init = ctx.root_init
            asg = [e for e in ctx.events if e[0] == 'assign']
            if not asg:
                continue
            k = settle(it, ctx.other_ty.fields['kind']) if 'kind' in ctx.other_ty.fields else None
            if isinstance(k, View):
                cands = [k.proj(c) for c in k.cell.cands]
                if len(cands) == 1:
                    k = cands[0]
            if isinstance(k, int) and k == E[kind]:
                cls = 'another-%s-type' % word
                nsame += 1
            elif isinstance(k, int) and k in kind_name:
                cls = 'type-kind-' + kind_name[k]
            elif isinstance(k, View) and E[kind] not in cands:
                cls = 'non-%s-type' % word
            else:
                cls = 'another-type'        # the kind of the expression's type was not (or not decisively) consulted: includes another type of the same kind
                nsame += 1
            key = '%s:%s:%s-object/expr-of-%s' % (U, fn, word, cls)
            n += 1
            if out[0] != 'ret':
                if out[1] in ('error_tok', 'error_at', 'error'):
                    rep.ob('R05.1', key + '/rejected', False,
                           'initializer2 stops with %s() when a %s sub-object is initialised without braces by an expression of %s: by brace elision (C11 6.7.9p20) the expression '
                           'initialises the first member' % (out[1], word, cls.replace('-', ' ')), where='%s:%d' % (U, out[3]), facts={'path': ctx.trail})
                continue
            ex = settle(it, init.fields.get('expr'))
            subs = [e for e in ctx.events if e[0] == 'sub']
            if ex is asg[-1][1] or any(ex is e[1] for e in asg):
                rep.ob('R05.1', key + '/copied-as-whole-object', False,
                       ('a %s sub-object initialised without braces by an expression of %s is recorded as a whole-object copy from that expression (init->expr): only an expression '
                        'of the object\'s own type is the value of the whole object (C11 6.7.9p13); by brace elision (p20) this one initialises the FIRST MEMBER. With '
                        '`%s T2 { %s T1 m; long rest[4]; }` and y of type T1, `struct W { %s T2 t; int k; } w = { y, 7 };` copies sizeof(T2) bytes out of y (bytes behind y land in '
                        'the members that must be zero) and the 7 goes to the wrong member' % (word, cls.replace('-', ' '), word, word, word)),
                       where=where, facts={'path': ctx.trail})
                continue
            ok, msg, construct = True, '', 'initialises-first-member'
            if not is_null(ex) or 'expr' not in init.fields:
                ok = False; construct = 'expr-left-set'; msg = 'init->expr of the %s object is %s after an expression of another type was parsed' % (word, show(ex))
            elif len(subs) != 1:
                ok = False; construct = 'dropped' if not subs else 'parsed-twice'
                msg = 'an expression of %s given for a %s sub-object without braces leads to %d nested initializer parses (expected one: the first member)' % (cls.replace('-', ' '), word, len(subs))
            else:
                a = subs[0][2]
                if len(a) < 3 or settle(it, a[1]) is not ctx.root_tok:
                    ok = False; construct = 'not-reparsed-from-its-first-token'
                    msg = 'after looking at the type of the expression, the nested initializer parse does not start again at the first token of that expression: the expression is skipped'
                elif subs[0][1] == 'struct_initializer2':
                    first = field(init.fields['ty'], 'members')
                    # (members that do not take part in initialization -- unnamed bit-fields -- may already be passed over here: R05.13)
                    if settle(it, a[2]) is not init or len(a) < 4 or settle(it, a[3]) not in (first, first_part(first)):
                        ok = False; construct = 'not-from-first-member'; msg = 'the brace-elided member walk of the struct does not start at its first member'
                else:
                    kk = _child_key(ctx, a[2], it)
                    first = field(init.fields['ty'], 'members')
                    fm = first_part(first)         # the first member that takes part in initialization (R05.13); 0: there is none
                    fidx = fm.fields.get('idx') if isinstance(fm, Obj) else None
                    if fm is None or not ((kk == 0 and (fm is first or is_null(fm))) or (fidx is not None and kk == vkey(fidx))):
                        ok = False; construct = 'not-the-first-member'; msg = 'the expression is parsed into child %s of the union, not into the child of its first (named) member' % show_key(kk)
                    elif not same(it, init.fields.get('mem', 0), fm):
                        ok = False; construct = 'first-member-not-selected'; msg = 'the expression is parsed for the first member but init->mem does not select that member'
            rep.ob('R05.1', key + '/' + construct, ok, msg, where=where, facts={'path': ctx.trail})
        if n == 0 or nsame == 0:
            rep.undecided('R05.1', '%s:%s:%s-object/expr-of-other-type' % (U, fn, word),
                          'no path on which the %s arm of initializer2 is given an expression of another %s type (%d paths)' % (word, word, n))
    return result


# ------------------------------------------------------------------------------------------------
# automatic back end: scalar arm and designator -> lvalue
# ------------------------------------------------------------------------------------------------
def r052_lvar(P, u, E, cat, rep):
    fn = 'create_lvar_init'
    be = BackEnd(P, u, E, fn)
    for want_expr in (True, False):
        it = be.interp()
        it.opaque_fns.add('init_desg_expr')
        ie = (lambda ctx: Obj('Node', lazy=True, label='init.expr')) if want_expr else 0
        n = 0
        for ctx, out in it.explore(fn, be.args(lambda ctx: type_cell(cat, 'ty', only=SCALARS), init_expr=ie)):
            if out[0] != 'ret':
                continue
            n += 1
            r = settle(it, out[1])
            k = field(r, 'kind') if isinstance(r, Obj) else None
            if want_expr:
                e = ctx.root_init.fields['expr']
                lv = [ev for ev in ctx.events if ev[0] == 'call' and ev[1] == 'init_desg_expr']
                good = k == E['ND_ASSIGN'] and field(r, 'rhs') is e and len(lv) == 1 and settle(it, field(r, 'lhs')) is settle(it, lv[0][4]) \
                    and settle(it, lv[0][2][0]) is ctx.p_desg
                rep.ob('R05.2', '%s:%s:scalar-is-assigned' % (U, fn), bool(good),
                       'a scalar sub-object of an automatic variable with an initializer expression is not turned into `designated lvalue = expression` (the value is never stored)',
                       where=_w(u, fn), facts={'path': ctx.trail})
            else:
                good = k == E.get('ND_NULL_EXPR') and not [ev for ev in ctx.events if ev[0] == 'call' and ev[1] == 'init_desg_expr']
                rep.ob('R05.2', '%s:%s:scalar-without-initializer-keeps-zero' % (U, fn), bool(good),
                       'a scalar sub-object without initializer does not keep the zero fill (an assignment is generated for it)', where=_w(u, fn), facts={'path': ctx.trail})
        if n == 0:
            rep.undecided('R05.2', '%s:%s:scalar' % (U, fn), 'no returning path for scalars')
    # designator chain -> lvalue expression
    fn = 'init_desg_expr'
    _need(u, fn)

    def h_rec(it, ctx, n, a):
        r = Obj('Node', lazy=True, label=ctx.fresh('outer-lvalue'))
        ctx.emit('rec', a, r, n.line)
        return r

    def h_add(it, ctx, n, a):
        r = Obj('Node', lazy=True, label=ctx.fresh('new_add'))
        ctx.emit('add', a, r, n.line)
        return r
    it = TInterp(P, u, {'cut': {fn: h_rec}, 'models': {'new_add': h_add}, 'track_stores': True})

    def mk(ctx):
        d = Obj('InitDesg', lazy=True, label='desg')
        ctx.desg = d
        return [d, Obj('Token', lazy=True, label='tok')]
    seen = set()
    for ctx, out in it.explore(fn, mk):
        if out[0] != 'ret':
            continue
        d = ctx.desg
        r = settle(it, out[1])
        var, mem = field(d, 'var'), field(d, 'member')
        recs = [e for e in ctx.events if e[0] == 'rec']
        where = _w(u, fn)
        if isinstance(var, Obj):
            seen.add('var')
            good = isinstance(r, Obj) and field(r, 'kind') == E['ND_VAR'] and field(r, 'var') is var and not recs
            rep.ob('R05.1', '%s:%s:root-is-the-variable' % (U, fn), bool(good), 'the root designator does not become a reference to the variable being initialised', where=where)
        elif isinstance(mem, Obj):
            seen.add('member')
            good = isinstance(r, Obj) and field(r, 'kind') == E['ND_MEMBER'] and field(r, 'member') is mem and len(recs) == 1 and field(r, 'lhs') is recs[0][2] \
                and settle(it, recs[0][1][0]) is settle(it, d.fields.get('next'))
            rep.ob('R05.1', '%s:%s:member-designator-is-member-access' % (U, fn), bool(good),
                   'a member designator does not become `outer.member` with the designated member (the assignment would go to another member)', where=where)
        elif is_null(var) and is_null(mem):
            seen.add('index')
            adds = [e for e in ctx.events if e[0] == 'add']
            good = isinstance(r, Obj) and field(r, 'kind') == E['ND_DEREF'] and len(adds) == 1 and field(r, 'lhs') is adds[0][2] and len(recs) == 1
            if good:
                a = adds[0][1]
                num = settle(it, a[1])
                good = settle(it, a[0]) is recs[0][2] and isinstance(num, Obj) and field(num, 'kind') == E['ND_NUM'] and same(it, field(num, 'val'), d.fields.get('idx')) and 'idx' in d.fields
            rep.ob('R05.1', '%s:%s:index-designator-is-element-access' % (U, fn), bool(good),
                   'an index designator does not become `*(outer + idx)` with the designated index (the assignment would go to another element)', where=where)
    if seen != {'var', 'member', 'index'}:
        rep.undecided('R05.1', '%s:%s' % (U, fn), 'designator forms recognised: %s' % sorted(seen))


# ------------------------------------------------------------------------------------------------
# R05.9 completion of an array of unknown bound / flexible array member (C11 6.7.9p22): the completed type keeps the
# DECLARED element type and gets the length the initializer determines; the completed type reaches the variable
# ------------------------------------------------------------------------------------------------
def _completion_models(E):
    def m_array_of(it, ctx, n, a):
        t = Obj('Type', lazy=True, label=ctx.fresh('array_of'))
        t.fields['kind'] = E['TY_ARRAY']
        t.fields['base'] = a[0] if a else None
        t.fields['array_len'] = a[1] if len(a) > 1 else None
        ctx.emit('array_of', a, t, n.line)
        return t

    def m_new_initializer(it, ctx, n, a):
        i = Obj('Initializer', lazy=True, label=ctx.fresh('new-initializer'))
        i.fields['ty'] = a[0] if a else None
        flex = a[1] if len(a) > 1 else 0
        # new_initializer(ty, false) never yields a flexible initializer; (ty, true) does when ty is incomplete
        i.fields['is_flexible'] = 0 if is_null(flex) or flex is False else View(Cell([0, 1], ctx.fresh('new-initializer.is_flexible')))
        i.fields['expr'] = 0
        i.fields['mem'] = 0
        ctx.emit('new_init', a, i, n.line)
        return i
    return {'array_of': m_array_of, 'new_initializer': m_new_initializer}


def _flex_sites(u):
    """functions that test Initializer.is_flexible (the sites that complete an array of unknown bound)"""
    out = []
    for name, f in u.functions.items():
        for m in f.find('MemberExpr'):
            if m.name == 'is_flexible' and 'Initializer' in ((m.inner[0].dtype or m.inner[0].type or '') if m.inner else ''):
                par = m.parent
                is_store = par is not None and par.kind == 'BinaryOperator' and par.opcode == '=' and par.inner and par.inner[0] is m
                if not is_store:
                    out.append(name)
                    break
    return sorted(out)


def r059(P, u, E, cat, rep):
    rep.rule('R05.9', 'an array of unknown bound / flexible array member is completed to an array of its DECLARED element type whose length is determined by the '
             'initializer (literal length incl. terminator, or the counted elements), at every site that completes it; the completed type is handed on to the object', floor=7)
    SITES = {'string_initializer': 'string', 'array_initializer1': 'list', 'array_initializer2': 'list'}
    found = _flex_sites(u)
    for f in found:
        if f not in SITES and not any(u.fn(s_).calls(f) for s_ in SITES if u.fn(s_) is not None):
            rep.undecided('R05.9', '%s:%s:unknown-bound' % (U, f), 'function %s tests Initializer.is_flexible but is not one of the completion sites this rule interprets' % f)
    models = _cursor_models()
    models.update(_completion_models(E))

    def m_skip(it_, ctx, n_, a):
        # skip(tok, "x") is tok->next (or a diagnostic)
        t = settle(it_, a[0]) if a else None
        r = it_.read_field(t, 'next') if isinstance(t, Obj) else Obj('Token', lazy=True, label=ctx.fresh('skip'))
        ctx.emit('call', 'skip', a, n_.line, r)
        return r
    models['skip'] = m_skip
    for fn, how in SITES.items():
        if fn not in u.functions:
            raise AnalysisBroken('anchor function %s vanished from %s' % (fn, U))
        it = TInterp(P, u, {'models': models, 'opaque': ['consume_end', 'consume', 'is_end', 'count_array_init_elements', 'skip_excess_element'],
                            'loop_limit': 2 if how == 'string' else 1, 'lazy_field': children_hook(), 'track_stores': True})

        def mk(ctx, fn=fn):
            init = Obj('Initializer', lazy=True, label='init')
            ty = Obj('Type', lazy=True, label='init.ty')
            ty.fields['kind'] = E['TY_ARRAY']
            ty.fields['base'] = Obj('Type', lazy=True, label='declared-element-type')
            ty.fields['base'].fields['size'] = View(Cell([1, 2, 4], 'declared-element-type.size'))
            init.fields['ty'] = ty
            init.fields['is_flexible'] = 1
            tok = Obj('Token', lazy=True, label='tok')
            tt = Obj('Type', lazy=True, label='tok.ty')
            tt.fields['array_len'] = Sym('tok.ty.array_len', 'int')
            tt.fields['base'] = Obj('Type', lazy=True, label='literal-element-type')
            tok.fields['ty'] = tt
            ctx.root_init, ctx.tok, ctx.ty0 = init, tok, ty
            ctx.slot = _Slot()
            a = [_Ref(ctx.slot), tok, init]
            if fn == 'array_initializer2':
                a.append(0)
            return a
        n = 0
        for ctx, out in it.explore(fn, mk):
            if out[0] != 'ret':
                continue
            n += 1
            init, ty0, tok = ctx.root_init, ctx.ty0, ctx.tok
            where = _w(u, fn)
            nt = settle(it, init.fields.get('ty'))
            fl = settle(it, init.fields.get('is_flexible'))
            ok, msg, construct = True, '', 'completed'
            kind = field(nt, 'kind') if isinstance(nt, Obj) else None
            if nt is ty0 or not is_null(fl):
                ok = False; construct = 'not-completed'
                msg = '%s returns with the initializer of an array of unknown bound still incomplete (type unchanged or is_flexible still set): no elements exist to receive the values' % fn
            elif not isinstance(nt, Obj):
                ok = False; construct = 'completed-type-unknown'; msg = 'the completed type of an array of unknown bound is %s' % show(nt)
            elif not same(it, nt.fields.get('base'), ty0.fields['base']):
                ok = False; construct = 'element-type-not-declared-base'
                msg = ('%s completes an array of unknown bound to a type whose element type is %s instead of the declared element type init->ty->base%s: the elements of the object '
                       'silently change type (signedness/size) behind the declaration, e.g. `unsigned char x[] = "\\xff"` reads back -1 instead of 255'
                       % (fn, show(nt.fields.get('base')), ' (the type of the string literal is used as the type of the object)' if nt is field(tok, 'ty') else ''))
            elif isinstance(kind, int) and kind != E['TY_ARRAY']:
                ok = False; construct = 'completed-type-not-an-array'; msg = 'the completed type of an array of unknown bound is not an array type'
            elif not isinstance(kind, int):
                rep.undecided('R05.9', '%s:%s:unknown-bound/completed-type-kind' % (U, fn), 'the completed type is not built by array_of(): its kind is not known', where=where)
                continue
            else:
                ln, _ = strip_cast(nt.fields.get('array_len'))
                if how == 'string':
                    want = tok.fields['ty'].fields['array_len']
                    if not lin_eq(ln, want):
                        ok = False; construct = 'length-not-literal-length'
                        msg = 'the completed array has length %s, expected the length of the literal including its terminator (tok->ty->array_len)' % show(ln)
                    else:
                        sts = [e for e in ctx.events if e[0] == 'fstore' and e[2] == 'expr']
                        if not _exact(ctx, want, len(sts)):
                            ok = False; construct = 'element-count'
                            msg = '%d code units are stored into an array completed from the literal on a path that does not establish that the literal has %d code units' % (len(sts), len(sts))
                else:
                    cnt = [e for e in ctx.events if e[0] == 'call' and e[1] == 'count_array_init_elements']
                    mine = [e for e in cnt if e[4] is ln]
                    walk = [e for e in ctx.events if e[0] == 'call' and e[1] in ('consume_end', 'is_end')]
                    if not mine:
                        ok = False; construct = 'length-not-counted-elements'
                        msg = 'the completed array has length %s, which is not the number of elements counted by count_array_init_elements' % show(ln)
                    else:
                        a = mine[0][2]
                        if len(a) < 2 or settle(it, a[1]) is not ty0:
                            ok = False; construct = 'count-uses-other-type'
                            msg = 'the elements of `T x[] = {...}` are counted against another type than the declared (incomplete) array type'
                        elif walk:
                            w0 = walk[0][2][-1] if walk[0][1] == 'consume_end' else walk[0][2][0]
                            if not same(it, a[0], w0):
                                ok = False; construct = 'count-starts-at-other-token'
                                msg = 'the elements are counted from another token than the one at which the element walk then starts: the length does not belong to this list'
            rep.ob('R05.9', '%s:%s:unknown-bound/%s' % (U, fn, construct), ok, msg, where=where, facts={'path': ctx.trail[-8:]})
        if n == 0:
            rep.undecided('R05.9', '%s:%s:unknown-bound' % (U, fn), 'no returning path completes an array of unknown bound')
    _r059_initializer(P, u, E, rep)
    _r059_gvar(P, u, E, rep)


def _r059_initializer(P, u, E, rep):
    """initializer(): the type handed back through *new_ty is the completed one"""
    fn = 'initializer'
    _need(u, fn)

    def m_initializer2(it, ctx, n, a):
        init = settle(it, a[2]) if len(a) > 2 else None
        if not isinstance(init, Obj):
            raise AnalysisBroken('initializer() no longer calls initializer2(rest, tok, init)')
        # the parse may complete the (array) type of the initializer node, and that of the last child (flexible member)
        done = Obj('Type', lazy=True, label='type-completed-by-parse')
        ctx.before = init.fields.get('ty')
        init.fields['ty'] = done
        ctx.completed = done
        _set_rest(it, ctx, a[0], 'tok-after-initializer')
        ctx.emit('parse', a, init, n.line)
        return None

    def m_copy(it, ctx, n, a):
        src = settle(it, a[0])
        c = Obj('Type', lazy=True, label='copied-struct-type')
        if isinstance(src, Obj):
            for k in ('kind', 'size', 'is_flexible', 'align'):
                if k in src.fields:
                    c.fields[k] = src.fields[k]
        ctx.emit('copy', a, c, n.line)
        return c
    models = dict(_completion_models(E))
    models.update({'initializer2': m_initializer2, 'copy_struct_type': m_copy})
    it = TInterp(P, u, {'models': models, 'loop_limit': 2, 'lazy_field': children_hook(), 'track_stores': True})

    def mk(ctx):
        ty = Obj('Type', lazy=True, label='declared-type')
        ty.fields['size'] = Sym('declared-type.size', 'int')
        ctx.ty0 = ty
        ctx.slot = _Slot()
        ctx.nslot = _Slot()
        return [_Ref(ctx.slot), Obj('Token', lazy=True, label='tok'), ty, _Ref(ctx.nslot)]
    seen = set()
    for ctx, out in it.explore(fn, mk):
        if out[0] != 'ret':
            continue
        where = _w(u, fn)
        ty0 = ctx.ty0
        r = settle(it, out[1])
        parses = [e for e in ctx.events if e[0] == 'parse']
        news = [e for e in ctx.events if e[0] == 'new_init']
        good = len(parses) == 1 and len(news) >= 1 and r is parses[0][2] and r is news[0][2] and settle(it, news[0][1][0]) is ty0 and not is_null(news[0][1][1])
        rep.ob('R05.9', '%s:%s:tree-is-flexible-initializer-of-declared-type' % (U, fn), bool(good),
               'initializer() does not parse into, and return, new_initializer(declared type, /*is_flexible*/ true): an array of unknown bound could not be completed', where=where)
        if not good:
            continue
        nt = settle(it, ctx.nslot.v)
        copies = [e for e in ctx.events if e[0] == 'copy']
        kind = field(ty0, 'kind')
        flex = field(ty0, 'is_flexible')
        aggregate = kind in (E['TY_STRUCT'], E['TY_UNION'])
        if aggregate and flex == 1:
            seen.add('flexible-member')
            ok, msg, construct = True, '', 'flexible-member-type-and-size'
            if not copies or nt is not copies[-1][2] or settle(it, copies[-1][1][0]) is not ty0:
                ok = False; construct = 'flexible-struct-not-copied'
                msg = 'a struct with a flexible array member is not given a private copy of its type as the final type (the shared struct type would be resized, or the size not updated)'
            else:
                mems, complete = members_walk(it, nt)
                if not complete or not mems:
                    ok = False; construct = 'last-member-not-found'; msg = 'the member list of the copied type is not walked to its last member'
                else:
                    last = mems[-1]
                    ch = field(r, 'children')
                    mt = settle(it, last.fields.get('ty'))
                    src = [e for e in ctx.events if e[0] == 'fstore' and e[1] is last and e[2] == 'ty']
                    child = None
                    if isinstance(ch, Obj) and 'idx' in last.fields:
                        k = vkey(last.fields['idx'])
                        child = ch if k == 0 else ch.meta.get(('elem', k))
                    if not src or not isinstance(child, Obj) or mt is None or not same(it, mt, child.fields.get('ty')):
                        ok = False; construct = 'flexible-member-type'
                        msg = 'the flexible array member (the last member) does not receive the completed type of its own initializer init->children[mem->idx]->ty'
                    else:
                        sz = field(mt, 'size') if isinstance(mt, Obj) else None
                        want = lsum(ty0.fields['size'], sz) if sz is not None else None
                        if want is None or not lin_eq(field(nt, 'size'), want):
                            ok = False; construct = 'flexible-struct-size'
                            msg = 'the final struct size is %s, expected declared size + size of the completed flexible member' % show(field(nt, 'size'))
                stores0 = [e for e in ctx.events if e[0] == 'fstore' and e[1] is ty0]
                if ok and stores0:
                    ok = False; construct = 'shared-type-modified'; msg = 'the declared (shared) struct type itself is modified (field %s)' % stores0[0][2]
            rep.ob('R05.9', '%s:%s:%s' % (U, fn, construct), ok, msg, where=where, facts={'path': ctx.trail[-8:]})
        else:
            seen.add('plain')
            ok = nt is ctx.completed
            rep.ob('R05.9', '%s:%s:final-type-is-the-completed-initializer-type' % (U, fn), ok,
                   'initializer() hands back %s as the final type instead of init->ty as completed by the parse: `T x[] = {...}` keeps its incomplete type / gets another type'
                   % ('the declared type' if nt is ty0 else show(nt)), where=where, facts={'path': ctx.trail[-8:]})
    if seen != {'plain', 'flexible-member'}:
        rep.undecided('R05.9', '%s:%s' % (U, fn), 'paths recognised: %s' % sorted(seen))


def _r059_gvar(P, u, E, rep):
    """the static object receives the completed type (the automatic one is checked by R05.3 variable-gets-final-type)"""
    fn = 'gvar_initializer'

    def h_write(it, ctx, n, a):
        return Obj('Relocation', lazy=True, label='first-relocation')
    it = TInterp(P, u, {'models': _init_models(None), 'cut': {'write_gvar_data': h_write}, 'track_stores': True})

    def mk(ctx):
        ctx.var = Obj('Obj', lazy=True, label='var')
        ctx.slot = _Slot()
        return [_Ref(ctx.slot), Obj('Token', lazy=True, label='tok'), ctx.var]
    n = 0
    for ctx, out in it.explore(fn, mk):
        if out[0] != 'ret':
            continue
        n += 1
        ini = [e for e in ctx.events if e[0] == 'initializer']
        rep.ob('R05.9', '%s:%s:variable-gets-final-type' % (U, fn), len(ini) == 1 and field(ctx.var, 'ty') is ini[0][3],
               'the static variable does not receive the completed type computed by initializer(): sizeof / .size / the image length would use the incomplete type', where=_w(u, fn))
    if n == 0:
        rep.undecided('R05.9', '%s:%s' % (U, fn), 'no returning path')


# ------------------------------------------------------------------------------------------------
# R05.10 a later initializer of the same sub-object overrides the earlier one (C11 6.7.9p19): what the parser functions leave
# in the Initializer node (selected union member, scalar expression, whole-struct copy expression) is determined by the
# initializer parsed NOW, whatever an earlier initializer of the same sub-object left there
# ------------------------------------------------------------------------------------------------
def _override_interp(P, u, E, equal_is=None, cut_designation=False, cls=None):
    models = _cursor_models(equal_is)
    models.pop('initializer2', None)

    def h_sub(name):
        def f(it, ctx, n, a):
            _set_rest(it, ctx, a[0], 'tok-after-' + name)
            ctx.emit('sub', name, a, n.line)
            return None
        return f

    def m_assign(it, ctx, n, a):
        node = Obj('Node', lazy=True, label=ctx.fresh('assign-expr'))
        ty0 = field(getattr(ctx, 'root_init', None), 'ty')
        if isinstance(ty0, Obj):
            # the expression may have the very type of the object (whatever test the parser uses to recognise that) or any other type
            other = Obj('Type', lazy=True, label=ctx.fresh('type-of-assign-expr'))
            node.fields['ty'] = View(Cell([ty0, other], ctx.fresh('assign-expr.ty')))
        _set_rest(it, ctx, a[0], 'tok-after-expr')
        ctx.emit('assign', node, n.line)
        return node
    models['assign'] = m_assign
    cut = {'initializer2': h_sub('initializer2')}
    if cut_designation:
        models.pop('designation', None)
        cut['designation'] = h_sub('designation')
    return (cls or TInterp)(P, u, {'models': models, 'cut': cut,
                          'opaque': ['skip', 'consume_end', 'consume', 'is_end', 'count_array_init_elements', 'new_initializer', 'array_of', 'skip_excess_element', 'add_type'],
                          'loop_limit': 1, 'lazy_field': children_hook(), 'track_stores': True})


def _mk_stale(E, kind_val):
    """an Initializer node that an earlier initializer of the same sub-object may already have filled in"""
    def mk(ctx):
        init = Obj('Initializer', lazy=True, label='init')
        ty = Obj('Type', lazy=True, label='init.ty')
        ty.fields['kind'] = kind_val
        init.fields['ty'] = ty
        init.fields['is_flexible'] = 0
        ctx.stale_expr = Obj('Node', lazy=True, label='expr-of-the-earlier-initializer')
        ctx.stale_mem = Obj('Member', lazy=True, label='member-selected-by-the-earlier-initializer')
        init.fields['expr'] = View(Cell([0, ctx.stale_expr], 'init.expr', names={0: 'NULL'}))
        init.fields['mem'] = View(Cell([0, ctx.stale_mem], 'init.mem', names={0: 'NULL'}))
        tok = Obj('Token', lazy=True, label='tok')
        ctx.root_init = init
        ctx.slot = _Slot()
        return [_Ref(ctx.slot), tok, init]
    return mk


def _may_be(it, v, o):
    """may the abstract value v be the object o on this path?"""
    if isinstance(v, View):
        return any(v.proj(c) is o for c in v.cell.cands)
    return v is o


def r0510(P, u, E, rep, copies=None):
    union_copies = bool(copies and copies.get('union'))     # the parser produces whole-union copy expressions (init->expr on a union)
    rep.rule('R05.10', 'a later initializer of the same sub-object overrides the earlier one: after an initializer has been parsed for a node, its selected union member / '
             'scalar expression / whole-struct copy expression are those of THIS initializer, whatever an earlier one left in the node', floor=7)
    fn = 'initializer2'
    _need(u, fn, 'union_initializer', 'designation', 'struct_initializer1', 'struct_initializer2')
    # ---- union: the selected member is the member whose child was parsed ---------------------------------
    it = _override_interp(P, u, E)
    seen = set()
    for ctx, out in it.explore(fn, _mk_stale(E, E['TY_UNION'])):
        if out[0] != 'ret':
            continue
        init = ctx.root_init
        des = [e for e in ctx.events if e[0] == 'sdesig']
        subs = [e for e in ctx.events if e[0] == 'sub' and e[1] in ('initializer2', 'designation')]
        mem = init.fields.get('mem')
        first = field(field(init, 'ty'), 'members') if isinstance(field(init, 'ty'), Obj) else None
        where = _w(u, 'union_initializer')
        form = 'designated' if des else 'plain'
        asg = [e for e in ctx.events if e[0] == 'assign']
        ex = init.fields.get('expr')

        if asg and not subs and not des and settle(it, ex) is asg[-1][1]:
            # `= y` with y of the union type: the whole object is copied from the expression parsed now; both back ends test init->expr
            # before init->mem (R05.1 union-valued-initializer/used), so the member selection is irrelevant on this path
            rep.ob('R05.10', '%s:%s:union/union-valued-expression-parsed-now-is-kept' % (U, fn), True, '', where=where)
            continue
        if first is not None and is_null(settle(it, first)) and not des:
            continue        # a union without members (GNU extension): nothing to select; R05.15 judges that nothing is touched
        seen.add(form)
        key = '%s:%s:union/%s-initializer' % (U, fn, form)
        if union_copies and not is_null(settle(it, ex)):
            rep.ob('R05.10', key + '/earlier-copy-survives', False,
                   'a %s union initializer does not cancel the whole-union copy expression left by an EARLIER initializer of the same sub-object (init->expr stays set): both back ends '
                   'then emit the earlier union value and ignore the later initializer, e.g. `union U a[1] = {[0] = y, [0] = {7}};`' % form, where=where, facts={'path': ctx.trail})
            continue
        if _may_be(it, mem, ctx.stale_mem):
            rep.ob('R05.10', key + '/earlier-member-selection-survives', False,
                   ('a %s union initializer leaves init->mem on the member selected by an EARLIER initializer of the same union sub-object: in `{[0 ... 3] = {.b = 1}, [1] = {7}}` '
                    '(or `.u.b = 1, .u = {7}`) the later initializer must select %s and override, but the stale member (and its stale value) is emitted instead'
                    % (form, 'its designated member' if des else 'the FIRST member')), where=where, facts={'path': ctx.trail})
            continue
        ok, msg, construct = True, '', 'selects-the-parsed-member'
        if des and len(subs) == len(des) > 1:
            # `{.a = 1, .b = 2}`: every designator names a member of the union anew (C11 6.7.9p17); each value goes to the child of ITS member, the last
            # designated member is the selected one (p19); R05.22 judges that such lists are accepted at all
            m = des[-1][1]
            if settle(it, mem) is not m:
                ok = False; construct = 'designated-member-not-selected'; msg = 'after several `.m = v` in a union list the member designated LAST is not the selected member (init->mem)'
            else:
                for d_, s_ in zip(des, subs):
                    if 'idx' not in d_[1].fields or _child_key(ctx, s_[2][2], it) != vkey(d_[1].fields['idx']):
                        ok = False; construct = 'designated-member-child-mismatch'; msg = '`.m = v` in a union does not parse v into init->children[m->idx]'
        elif len(subs) != 1:
            ok = False; construct = 'parse-count'; msg = 'a union initializer parses %d member initializers for %d designator(s) (expected one per designator, exactly one without designator)' % (len(subs), len(des))
        else:
            k = _child_key(ctx, subs[0][2][2], it)
            if des:
                m = des[-1][1]
                if settle(it, mem) is not m:
                    ok = False; construct = 'designated-member-not-selected'; msg = '`.m = v` in a union does not make m the selected member (init->mem)'
                elif 'idx' not in m.fields or k != vkey(m.fields['idx']):
                    ok = False; construct = 'designated-member-child-mismatch'; msg = '`.m = v` in a union does not parse v into init->children[m->idx]'
            else:
                f0 = settle(it, first) if first is not None else None
                if isinstance(f0, View):
                    # the member list was never tested for emptiness on this path: judge the non-empty case
                    objs = [f0.proj(c) for c in f0.cell.cands if isinstance(f0.proj(c), Obj)]
                    f0 = objs[0] if len(objs) == 1 else None
                fobj = first_part(f0) if isinstance(f0, Obj) else None      # the first member that takes part in initialization (R05.13)
                if fobj is None or not (same(it, mem, fobj) or (fobj is f0 and same(it, mem, first))):
                    ok = False; construct = 'first-member-not-selected'
                    msg = 'a union initializer without designator does not select the first (named) member of init->ty->members (init->mem is %s)' % show(mem)
                elif not ((k == 0 and (fobj is f0 or is_null(fobj))) or (isinstance(fobj, Obj) and 'idx' in fobj.fields and k == vkey(fobj.fields['idx']))):
                    ok = False; construct = 'first-member-child-mismatch'; msg = 'a union initializer without designator parses its value into child %s, not into the child of the first member' % show_key(k)
        rep.ob('R05.10', key + '/' + construct, ok, msg, where=where, facts={'path': ctx.trail})
    if seen != {'designated', 'plain'}:
        rep.undecided('R05.10', '%s:%s:union' % (U, fn), 'union initializer forms recognised: %s' % sorted(seen))
    # ---- union member designator inside a designation chain (`.u.m = v`, `[i].m = v`) ---------------------------
    it = _override_interp(P, u, E, equal_is='.', cut_designation=True)
    n = 0
    for ctx, out in it.explore('designation', _mk_stale(E, E['TY_UNION'])):
        if out[0] != 'ret':
            continue
        init = ctx.root_init
        des = [e for e in ctx.events if e[0] == 'sdesig']
        subs = [e for e in ctx.events if e[0] == 'sub' and e[1] in ('initializer2', 'designation')]
        if not des:
            continue
        n += 1
        m = des[-1][1]
        mem = init.fields.get('mem')
        where = _w(u, 'designation')
        key = '%s:designation:union/member-designator' % U
        if union_copies and not is_null(settle(it, init.fields.get('expr'))):
            rep.ob('R05.10', key + '/earlier-copy-survives', False,
                   'a nested `.m = v` designator into a union does not cancel the whole-union copy expression left by an earlier initializer (`.u = y, .u.m = 1`): the member value is ignored',
                   where=where, facts={'path': ctx.trail})
            continue
        if _may_be(it, mem, ctx.stale_mem):
            rep.ob('R05.10', key + '/earlier-member-selection-survives', False,
                   'a nested `.m = v` designator into a union leaves init->mem on the member selected by an earlier initializer: the later designator does not override', where=where, facts={'path': ctx.trail})
            continue
        ok, msg, construct = True, '', 'selects-the-designated-member'
        if settle(it, mem) is not m:
            ok = False; construct = 'designated-member-not-selected'; msg = 'a nested `.m = v` designator into a union does not make m the selected member (init->mem)'
        elif len(subs) != 1 or 'idx' not in m.fields or _child_key(ctx, subs[0][2][2], it) != vkey(m.fields['idx']):
            ok = False; construct = 'designated-member-child-mismatch'; msg = 'a nested `.m = v` designator into a union does not continue in init->children[m->idx]'
        rep.ob('R05.10', key + '/' + construct, ok, msg, where=where, facts={'path': ctx.trail})
    if n == 0:
        rep.undecided('R05.10', '%s:designation:union' % U, 'union-designator branch of designation not recognised')
    # ---- scalar: the expression parsed now is the one kept ------------------------------------------------------
    scal = [E[k] for k in ('TY_INT', 'TY_PTR', 'TY_DOUBLE') if k in E]
    if not scal:
        raise AnalysisBroken('scalar type kinds vanished')
    it = _override_interp(P, u, E)
    n = 0
    for ctx, out in it.explore(fn, _mk_stale(E, View(Cell(scal, 'init.ty.kind')))):
        if out[0] != 'ret':
            continue
        init = ctx.root_init
        asg = [e for e in ctx.events if e[0] == 'assign']
        subs = [e for e in ctx.events if e[0] == 'sub' and e[1] == 'initializer2']
        if subs and not asg:
            continue            # `{ v }`: the inner call on the same node does the work (structural induction)
        n += 1
        ex = init.fields.get('expr')
        good = len(asg) == 1 and settle(it, ex) is asg[0][1]
        construct = 'expression-parsed-now-is-kept' if good else ('earlier-expression-survives' if _may_be(it, ex, ctx.stale_expr) else 'expression-not-recorded')
        rep.ob('R05.10', '%s:%s:scalar/%s' % (U, fn, construct), good,
               'after parsing a scalar initializer init->expr is %s instead of the expression just parsed: with `{[0 ... 3] = 1, [2] = 5}` (or any repeated designator) the '
               'earlier value is emitted, the later initializer does not override' % show(ex), where=_w(u, fn), facts={'path': ctx.trail})
    if n == 0:
        rep.undecided('R05.10', '%s:%s:scalar' % (U, fn), 'scalar arm of initializer2 not recognised')
    # ---- struct: a whole-struct copy expression of an earlier initializer is cancelled by any later initializer of the node
    it = _override_interp(P, u, E)
    it.models.pop('struct_initializer2', None)
    it.cut['struct_initializer2'] = None

    def h_s2(it_, ctx, n_, a):
        _set_rest(it_, ctx, a[0], 'tok-after-struct_initializer2')
        ctx.emit('sub', 'struct_initializer2', a, n_.line)
        return None
    it.cut['struct_initializer2'] = h_s2
    forms = set()
    for ctx, out in it.explore(fn, _mk_stale(E, E['TY_STRUCT'])):
        if out[0] != 'ret':
            continue
        init = ctx.root_init
        asg = [e for e in ctx.events if e[0] == 'assign']
        s2 = [e for e in ctx.events if e[0] == 'sub' and e[1] == 'struct_initializer2']
        ex = init.fields.get('expr')
        if asg and not s2:
            form = 'struct-valued-expression'
            good = settle(it, ex) is asg[-1][1]
            msg = 'after `= y` (y of the struct type) init->expr is %s, not the expression just parsed' % show(ex)
        else:
            form = 'brace-elided-list' if s2 else 'braced-list'
            good = is_null(settle(it, ex))
            msg = ('a %s parsed for a struct sub-object does not cancel the whole-struct copy expression left by an EARLIER initializer of the same sub-object (init->expr stays set): '
                   'both back ends then emit the earlier struct value and ignore the later list, e.g. `struct S a[1] = {[0] = y, [0] = %s};`'
                   % (form.replace('-', ' '), '{1, 2}' if form == 'braced-list' else '1, 2'))
        forms.add(form)
        rep.ob('R05.10', '%s:%s:struct/%s-%s' % (U, fn, form, 'overrides-earlier-copy' if good else 'keeps-earlier-copy'), good, msg,
               where=_w(u, 'struct_initializer1' if form == 'braced-list' else fn), facts={'path': ctx.trail[-8:]})
    if forms != {'struct-valued-expression', 'brace-elided-list', 'braced-list'}:
        rep.undecided('R05.10', '%s:%s:struct' % (U, fn), 'struct initializer forms recognised: %s' % sorted(forms))


# ------------------------------------------------------------------------------------------------
# R05.11 label discipline of the constant-expression evaluator over EVERY node kind: the label slot (the symbol of an address
# constant) reaches at most one operand evaluation per path and the value of that operand is returned unscaled; a conditional
# evaluates its condition label-free and then exactly the arm the condition selects
# ------------------------------------------------------------------------------------------------
def _subkeys(k, out):
    if isinstance(k, tuple):
        if k and k[0] == 'term':
            out.add(k)
        for x in k:
            _subkeys(x, out)


def _truth(ctx, v, _key=None, _depth=0):
    """truth value the path established for the opaque value v (True / False / None); sees through the tests `x != 0`, `x == 0`, `!x`
    that a helper returning bool (and the caller testing that bool again) puts around the value"""
    k = vkey(v) if _key is None else _key
    t = ctx.facts.get(k)
    if t is not None:
        return bool(t)
    b = ctx.bounds.get(k)
    if b and b[0] == b[1] == 0:
        return False
    if b and (b[0] > 0 or b[1] < 0):
        return True
    if 0 in ctx.neq.get(k, ()):
        return True
    if _depth > 4:
        return None
    terms = set()
    for d in (ctx.facts, ctx.bounds, ctx.neq):
        for fk in d:
            _subkeys(fk, terms)
    for fk in terms:
        op = str(fk[1]).split(':')[0]
        inner = None
        if op in ('==', '!=') and len(fk) == 4:
            zero = lambda z: isinstance(z, (int, float)) and not isinstance(z, bool) and z == 0
            if (fk[2] == k and zero(fk[3])) or (fk[3] == k and zero(fk[2])):
                inner = op == '!='
        elif op == '!' and len(fk) == 3 and fk[2] == k:
            inner = False
        if inner is None or fk == k:
            continue
        tv = _truth(ctx, None, fk, _depth + 1)
        if tv is not None:
            return tv if inner else not tv
    return None


def _coef_of(v, leaf):
    """(coefficient of `leaf` in the linear value v, does `leaf` also occur inside a non-linear sub-term?)"""
    if v is leaf:
        return 1, False
    L = Lin.of(v)
    if not isinstance(L, Lin):
        return 0, _contains(v, leaf)
    coef, hidden = 0, False
    for c, l in L.terms.values():
        if l is leaf:
            coef += c
        elif _contains(l, leaf):
            hidden = True
    return coef, hidden


EVAL_CHILDREN = ('lhs', 'rhs', 'cond', 'then', 'els')


def _und_once(rep, rule, key, why, where=None):
    """rep.undecided, once per key (the same undecidable construct is reached on many paths)"""
    seen = getattr(rep, '_c05_undecided_once', None)
    if seen is None:
        seen = rep._c05_undecided_once = set()
    if (rule, key) in seen:
        return
    seen.add((rule, key))
    rep.undecided(rule, key, why, where=where)


def r0511(P, u, E, cat, rep):
    rep.rule('R05.11', 'constant-expression evaluator, every node kind: the label slot of an address constant is handed to at most one operand evaluation per path, '
             'that operand\'s value is returned with coefficient 1, no arm outside the address arms writes the slot; a conditional evaluates its condition '
             'label-free and then exactly the selected arm (eval2 and eval_double)', floor=24)
    kinds = u.enum_types.get('NodeKind')
    if not kinds or 'ND_COND' not in kinds:
        raise AnalysisBroken('enum NodeKind / ND_COND vanished')
    _need(u, 'eval2', 'eval_rval', 'eval_double', 'eval')

    def h(name, ctype='long'):
        def f(it, ctx, n, args):
            r = Sym(ctx.fresh(name), ctype)
            ctx.emit('rec', name, args, r, n.line, _offer_slot(it, ctx, name, args) if getattr(ctx, 'lref', None) is not None else None)
            return r
        return f

    def mk_for(kind, tys, with_label):
        def mk(ctx):
            node = Obj('Node', lazy=True, label='node')
            node.fields['kind'] = E[kind]
            node.fields['ty'] = type_cell(cat, 'node.ty', only=tys)
            for ch in EVAL_CHILDREN:
                node.fields[ch] = Obj('Node', lazy=True, label='node.' + ch)
            ctx.node = node
            ctx.slot = _Slot()
            ctx.lref = _Ref(ctx.slot)
            return [node, ctx.lref] if with_label else [node]
        return mk

    def child_name(node, v):
        for ch in EVAL_CHILDREN:
            if v is node.fields.get(ch):
                return ch
        return None
    n_cond = {}
    for fn in ('eval2', 'eval_rval'):
        where = _w(u, fn)
        for kind in kinds:
            # eval_double takes no label slot: an evaluation through it is label-free by construction; helpers of the unit (eval, or a
            # truth-value helper around eval / eval_double) are interpreted inline, so what they evaluate shows up as these records
            it = TInterp(P, u, {'cut': {'eval2': h('eval2'), 'eval_rval': h('eval_rval'), 'eval_double': h('eval_double', 'double')}, 'opaque': ['add_type'], 'track_stores': True})
            res = it.explore(fn, mk_for(kind, ('ptr', 'int', 'uint', 'long', 'ulong'), True))
            key = '%s:%s:%s' % (U, fn, kind)
            for ctx, out in res:
                if out[0] != 'ret':
                    continue
                node = ctx.node
                recs = [e for e in ctx.events if e[0] == 'rec']
                lab = [e for e in recs if len(e[2]) > 1 and e[2][1] is ctx.lref]
                other = [e for e in recs if len(e[2]) > 1 and not is_null(e[2][1]) and e[2][1] is not ctx.lref]
                ok, msg, construct = True, '', 'label-discipline'
                if other:
                    ok = False; construct = 'foreign-label-slot'; msg = '%s of %s evaluates an operand with a label slot that is not the caller\'s' % (fn, kind)
                elif len(lab) > 1 and any(len(e) <= 5 or e[5] is not True for e in lab[1:]):
                    # (a later operand may be offered the slot while it is known to be still empty: then at most one of them records a symbol)
                    ok = False; construct = 'label-slot-handed-to-several-operands'
                    msg = ('%s of %s hands the label slot to %d operand evaluations on one path (%s): each address operand overwrites the symbol recorded by the previous one, so the '
                           'relocation combines the symbol of one operand with the addend of another (or a symbol appears although an integer/null operand was selected)'
                           % (fn, kind, len(lab), ', '.join('node->%s' % (child_name(node, settle(it, e[2][0])) or '?') for e in lab)))
                elif kind not in ADDR_SPEC.get(fn, {}):
                    if lab:
                        c, hidden = _coef_of(out[1], lab[0][3])
                        if c != 1 or hidden:
                            ok = False; construct = 'address-operand-not-returned-unscaled'
                            msg = ('%s of %s hands the label slot to node->%s but returns %s: symbol+addend is only representable when the value of the address operand enters the result '
                                   'with coefficient 1' % (fn, kind, child_name(node, settle(it, lab[0][2][0])) or '?', show(out[1])))
                    if ok and not _slot_untouched(it, ctx):
                        ok = False; construct = 'label-written'; msg = '%s of %s writes the label slot itself although %s is not an address' % (fn, kind, kind)
                if kind == 'ND_COND':
                    n_cond[fn] = n_cond.get(fn, 0) + 1
                    r_ = _cond_path(it, ctx, out, fn, recs, node, lab, True)
                    if r_[1] is None and ok:
                        _und_once(rep, 'R05.11', key + '/selected-arm', r_[2], where=where)
                        continue
                    if ok or r_[1] == 'unselected-arm-evaluated':
                        ok, construct, msg = r_
                rep.ob('R05.11', key + '/' + construct, ok, msg, where=where, facts={'path': ctx.trail})
    # eval_double: the conditional of floating constant expressions
    fn = 'eval_double'
    it = TInterp(P, u, {'cut': {'eval2': h('eval2'), 'eval_double': h('eval_double', 'double')}, 'opaque': ['add_type'], 'track_stores': True})
    for ctx, out in it.explore(fn, mk_for('ND_COND', ('float', 'double', 'ldouble'), False)):
        if out[0] != 'ret':
            continue
        recs = [e for e in ctx.events if e[0] == 'rec']
        ok, construct, msg = _cond_path(it, ctx, out, fn, recs, ctx.node, [], False)
        n_cond[fn] = n_cond.get(fn, 0) + 1
        if construct is None:
            _und_once(rep, 'R05.11', '%s:%s:ND_COND/selected-arm' % (U, fn), msg, where=_w(u, fn))
            continue
        rep.ob('R05.11', '%s:%s:ND_COND/%s' % (U, fn, construct), ok, msg, where=_w(u, fn), facts={'path': ctx.trail})
    for fn in ('eval2', 'eval_double'):
        if n_cond.get(fn, 0) < 2:
            _und_once(rep, 'R05.11', '%s:%s:ND_COND' % (U, fn), 'conditional arm of %s not recognised (%d returning paths, expected one per truth value of the condition)' % (fn, n_cond.get(fn, 0)))


def _cond_path(it, ctx, out, fn, recs, node, lab, labelled):
    """one returning path of the ND_COND arm -> (ok, construct, msg); construct None = not interpretable"""
    who = [(e, settle(it, e[2][0])) for e in recs]
    conds = [e for e, n in who if n is node.fields['cond']]
    arms = [(e, 'then' if n is node.fields['then'] else 'els') for e, n in who if n is node.fields['then'] or n is node.fields['els']]
    rest = [e for e, n in who if n is not node.fields['cond'] and n is not node.fields['then'] and n is not node.fields['els']]
    if rest:
        return False, 'operands', '%s of ND_COND evaluates something that is neither node->cond, node->then nor node->els' % fn
    if len(conds) != 1:
        return False, 'condition-evaluations', '%s of ND_COND evaluates the condition %d times on one path (expected once)' % (fn, len(conds))
    if labelled and conds[0] in lab:
        return False, 'condition-gets-label-slot', '%s of ND_COND evaluates the condition with the label slot: an address inside the condition would become the symbol of the result' % fn
    t = _truth(ctx, conds[0][3])
    if t is None:
        return False, None, 'the path does not decide the truth of the evaluated condition (%s)' % ' / '.join(ctx.trail[-3:])
    want = 'then' if t else 'els'
    sel = [e for e, a in arms if a == want]
    uns = [e for e, a in arms if a != want]
    if uns:
        return False, 'unselected-arm-evaluated', (
            '%s of ND_COND evaluates node->%s although the condition selects node->%s: %s' % (
                fn, 'els' if want == 'then' else 'then', want,
                'the label slot receives the symbol of the arm that was NOT selected, so `static T *p = 1 ? &a : &b;` points to b and `1 ? 0 : &a` is no longer a null pointer (the automatic '
                'object with the same initializer gets the selected arm)' if any(e in lab for e in uns) else
                'a constant expression whose unselected arm is not evaluable (`1 ? 0 : 1/0`, `1 ? 0 : &a` without label) is rejected or mis-evaluated (C11 6.6p3: unevaluated operands are exempt)'))
    if len(sel) != 1:
        return False, 'selected-arm-evaluations', '%s of ND_COND evaluates the selected arm node->%s %d times (expected once)' % (fn, want, len(sel))
    if labelled and sel[0] not in lab:
        return False, 'label-not-passed', '%s of ND_COND evaluates the selected arm node->%s without handing down the label slot: `c ? &a : &b` loses its symbol' % (fn, want)
    c, hidden = _coef_of(out[1], sel[0][3])
    if out[1] is not sel[0][3] and not (c == 1 and not hidden and lin_eq(out[1], sel[0][3])):
        return False, 'value-not-selected-arm', '%s of ND_COND returns %s, not the value of the selected arm node->%s' % (fn, show(out[1]), want)
    return True, 'selected-arm-only', ''


# ------------------------------------------------------------------------------------------------
# R05.12 `.name` designator lookup: a member is selected exactly when its name IS the designated identifier (same length, same
# bytes); every member passed over differs; anonymous struct/union members are probed with the same identifier
# ------------------------------------------------------------------------------------------------
def _known_ne(ctx, a, b):
    """the path established a != b by a comparison of the two values"""
    ka, kb = vkey(a), vkey(b)
    for fk, tv in ctx.facts.items():
        if not (isinstance(fk, tuple) and len(fk) == 4 and fk[0] == 'term'):
            continue
        op = str(fk[1]).split(':')[0]
        if {fk[2], fk[3]} != {ka, kb} or ka == kb:
            continue
        if (op == '==' and not tv) or (op == '!=' and tv):
            return True
        if op in ('<', '>') and tv:
            return True
        if op in ('<=', '>=') and not tv:
            return True
    return False


def r0512(P, u, E, rep):
    rep.rule('R05.12', 'member lookup of a `.name` designator (struct_designator, and get_struct_member for members of anonymous structs/unions): a named member is selected only '
             'when its name has the length of the designated identifier and the same bytes over that length, every member passed over is known to differ, anonymous '
             'aggregates are probed with the same identifier, and the token cursor resumes behind the identifier (at the designator again for an anonymous aggregate)', floor=8)
    _need(u, 'struct_designator', 'get_struct_member')
    for k in ('TY_STRUCT', 'TY_UNION'):
        if k not in E:
            raise AnalysisBroken('enumerator %s vanished' % k)
    AGG = (E['TY_STRUCT'], E['TY_UNION'])

    def m_cmp(name):
        def f(it, ctx, n, a):
            r = View(Cell([0, 1], ctx.fresh(name), names={0: 'equal', 1: 'different'}))
            ctx.emit('cmp', name, a, r, n.line)
            return r
        return f

    def m_skip(it_, ctx, n_, a):
        t = settle(it_, a[0]) if a else None
        r = it_.read_field(t, 'next') if isinstance(t, Obj) else Obj('Token', lazy=True, label=ctx.fresh('skip'))
        ctx.emit('skip', a, r, n_.line)
        return r

    def m_probe(it, ctx, n, a):
        m = Obj('Member', lazy=True, label=ctx.fresh('inner-member'))
        r = View(Cell([0, m], ctx.fresh('get_struct_member'), names={0: 'NULL'}))
        ctx.emit('probe', a, r, n.line)
        return r
    for fn in ('struct_designator', 'get_struct_member'):
        desg = fn == 'struct_designator'
        cfg = {'models': {'strncmp': m_cmp('strncmp'), 'memcmp': m_cmp('memcmp'), 'skip': m_skip}, 'loop_limit': 2, 'track_stores': True}
        if desg:
            cfg['models']['get_struct_member'] = m_probe
        else:
            cfg['cut'] = {'get_struct_member': m_probe}
        it = TInterp(P, u, cfg)

        def mk(ctx, desg=desg):
            ctx.ty = Obj('Type', lazy=True, label='ty')
            ctx.tok = Obj('Token', lazy=True, label='tok')
            ctx.slot = _Slot()
            return [_Ref(ctx.slot), ctx.tok, ctx.ty] if desg else [ctx.ty, ctx.tok]
        res = it.explore(fn, mk)
        where = _w(u, fn)
        any_cmp = any(e[0] == 'cmp' for ctx, out in res for e in ctx.events)
        if not any_cmp:
            _und_once(rep, 'R05.12', '%s:%s:name-comparison' % (U, fn), 'no strncmp/memcmp of member name and identifier on any path: the name comparison is not recognised', where=where)
            continue
        seen = set()
        for ctx, out in res:
            if desg:
                sk = [e for e in ctx.events if e[0] == 'skip']
                if not sk:
                    continue
                if len(sk) != 1 or settle(it, sk[0][1][0]) is not ctx.tok or len(sk[0][1]) < 2 or sk[0][1][1] != '.':
                    _und_once(rep, 'R05.12', '%s:%s:identifier' % (U, fn), 'the designated identifier is not found as skip(tok, ".")', where=where)
                    continue
                ident = settle(it, sk[0][2])
            else:
                ident = ctx.tok
            if not isinstance(ident, Obj):
                continue
            sel = None
            if out[0] == 'ret':
                sel = settle(it, out[1])
                if not (isinstance(sel, Obj) or is_null(sel)):
                    _und_once(rep, 'R05.12', '%s:%s:result' % (U, fn), 'returned value %s is not a member' % show(sel), where=where)
                    continue
            elif out[1] not in ('error_tok', 'error_at') or not desg:
                continue
            elif len(out[2]) > 1 and out[2][1] != 'struct has no such member' and not [e for e in ctx.events if e[0] == 'loop_done']:
                continue          # diagnostics before the member walk (not an identifier)
            mems, complete = members_walk(it, ctx.ty)
            unknown = [e for e in ctx.events if e[0] == 'call']
            cmps = [e for e in ctx.events if e[0] == 'cmp']
            probes = [e for e in ctx.events if e[0] == 'probe']

            def name_eq(m):
                """None = equal on this path, else (construct, message)"""
                nm = field(m, 'name')
                mine = [e for e in cmps if len(e[2]) >= 3 and {vkey(e[2][0]), vkey(e[2][1])} == {vkey(field(nm, 'loc')), vkey(field(ident, 'loc'))}
                        and 'loc' in nm.fields and 'loc' in ident.fields]
                zero = [e for e in mine if is_null(settle(it, e[3]))]
                if not zero:
                    return 'name-bytes-not-compared', 'without comparing the bytes of its name with the identifier'
                ln, li = nm.fields.get('len'), ident.fields.get('len')
                if ln is None or li is None or not eq_on_path(ctx, ln, li):
                    return 'name-length-not-compared', ('although only the first %s bytes of its name were compared and its length was not: the FIRST member whose name merely starts with '
                                                        'the identifier is taken (`.length = 5` initialises an earlier member `length_max`, `.tag` an earlier `tag2`), the designated '
                                                        'member keeps the zero fill' % show(zero[0][2][2]))
                n_ = zero[0][2][2]
                if not (eq_on_path(ctx, n_, ln) or eq_on_path(ctx, n_, li)):
                    return 'name-compared-over-other-length', 'although its name was compared over %s bytes, not over the length of the name' % show(n_)
                return None

            def name_ne(m):
                nm = field(m, 'name')
                ln, li = nm.fields.get('len'), ident.fields.get('len')
                if ln is not None and li is not None and _known_ne(ctx, ln, li):
                    return True
                for e in cmps:
                    if len(e[2]) >= 3 and 'loc' in nm.fields and 'loc' in ident.fields and {vkey(e[2][0]), vkey(e[2][1])} == {vkey(nm.fields['loc']), vkey(ident.fields['loc'])}:
                        r = settle(it, e[3])
                        n_ = e[2][2]
                        # differing bytes within the length of either name: the names differ whatever their lengths
                        if isinstance(r, int) and r != 0 and ((ln is not None and eq_on_path(ctx, n_, ln)) or (li is not None and eq_on_path(ctx, n_, li))):
                            return True
                return False

            def probe_of(m):
                mt = field(m, 'ty')
                for e in probes:
                    if len(e[1]) >= 2 and settle(it, e[1][0]) is mt and settle(it, e[1][1]) is ident:
                        return settle(it, e[2])
                return None
            # --- the selected member ---------------------------------------------------------------
            skipped = list(mems)
            if isinstance(sel, Obj):
                if sel not in mems:
                    rep.ob('R05.12', '%s:%s:result-not-a-member-of-the-type' % (U, fn), False, '%s returns a member that does not come from ty->members' % fn, where=where, facts={'path': ctx.trail})
                    continue
                skipped = mems[:mems.index(sel)]
                nm = field(sel, 'name')
                if isinstance(nm, Obj):
                    seen.add('named')
                    bad = name_eq(sel)
                    if bad and unknown:
                        _und_once(rep, 'R05.12', '%s:%s:named-member' % (U, fn), 'the name test goes through %s(): not interpretable' % '/'.join(sorted(set(e[1] for e in unknown))), where=where)
                    else:
                        rep.ob('R05.12', '%s:%s:named-member/%s' % (U, fn, bad[0] if bad else 'selected-iff-name-is-identifier'), not bad,
                               '%s selects a named member %s' % (fn, bad[1] if bad else ''), where=where, facts={'path': ctx.trail})
                    if desg and not bad:
                        good = 'next' in ident.fields and same(it, ctx.slot.v, ident.fields['next'])
                        rep.ob('R05.12', '%s:%s:named-member/cursor-behind-identifier' % (U, fn), good,
                               'after `.name` the token cursor is %s, not the token behind the identifier' % show(ctx.slot.v), where=where, facts={'path': ctx.trail})
                elif is_null(nm):
                    seen.add('anonymous')
                    k = field(field(sel, 'ty'), 'kind') if isinstance(field(sel, 'ty'), Obj) else None
                    kk = settle(it, k) if k is not None else None
                    pr = probe_of(sel)
                    good = isinstance(pr, Obj) and ((isinstance(kk, int) and kk in AGG) or (isinstance(k, View) and set(k.cell.cands) <= set(AGG)))
                    rep.ob('R05.12', '%s:%s:anonymous-member/%s' % (U, fn, 'selected-iff-it-contains-the-identifier' if good else 'selected-without-probe'), bool(good),
                           '%s selects an unnamed member without having found the identifier inside it (get_struct_member(member type, identifier) != NULL on a struct/union member)' % fn,
                           where=where, facts={'path': ctx.trail})
                    if desg and good:
                        rep.ob('R05.12', '%s:%s:anonymous-member/cursor-stays-at-designator' % (U, fn), settle(it, ctx.slot.v) is ctx.tok,
                               'for a member of an anonymous struct/union the token cursor must stay at the `.` so that the same designator is resolved again inside it; it is %s' % show(ctx.slot.v),
                               where=where, facts={'path': ctx.trail})
                else:
                    # the name of the selected member is unconstrained on this path: the path stands for the named AND the anonymous case
                    seen.update(('named', 'anonymous'))
                    if isinstance(probe_of(sel), Obj):
                        rep.ob('R05.12', '%s:%s:member-selected-by-probe-without-anonymity-test' % (U, fn), False,
                               '%s selects a struct/union member because the identifier is found INSIDE it without having established that the member is anonymous (name == NULL): a NAMED '
                               'aggregate member that precedes the designated member and contains a member of the same name captures the designator (`.len` on `struct { struct Hdr hdr; int len; }` '
                               'initialises hdr.len), C11 6.7.9p7' % fn, where=where, facts={'path': ctx.trail})
                    else:
                        rep.ob('R05.12', '%s:%s:member-selected-without-name-test' % (U, fn), False, '%s selects a member without looking at its name' % fn, where=where, facts={'path': ctx.trail})
            elif not complete:
                rep.ob('R05.12', '%s:%s:gives-up-before-the-last-member' % (U, fn), False,
                       '%s %s after %d member(s) although more members may follow' % (fn, 'reports "no such member"' if out[0] != 'ret' else 'returns NULL', len(mems)), where=where, facts={'path': ctx.trail})
                continue
            # --- the members passed over ------------------------------------------------------------------
            for m in skipped:
                nm = field(m, 'name')
                ok = True
                if isinstance(nm, Obj):
                    seen.add('passed-named')
                    ok = name_ne(m)
                    if not ok and unknown:
                        continue
                    if not ok and name_eq(m) is not None and ('loc' in nm.fields or 'len' in nm.fields):
                        # the name was looked at, but neither "equal" nor "different" follows from the recognised comparisons
                        _und_once(rep, 'R05.12', '%s:%s:named-member/passed-over' % (U, fn), 'a member is passed over after a name test that is not interpretable '
                                      '(neither a length comparison nor strncmp/memcmp over the length of a name)', where=where)
                        continue
                    rep.ob('R05.12', '%s:%s:named-member/%s' % (U, fn, 'passed-over-only-when-different' if ok else 'passed-over-although-possibly-equal'), ok,
                           '%s passes over a named member without having established that its name differs from the identifier (length or bytes over the full length): '
                           'a designator for that member is rejected or lands on a later member' % fn, where=where, facts={'path': ctx.trail})
                elif is_null(nm):
                    k = field(field(m, 'ty'), 'kind') if isinstance(field(m, 'ty'), Obj) else None
                    may_agg = k is None or (isinstance(k, View) and set(k.cell.cands) & set(AGG)) or (isinstance(k, int) and k in AGG)
                    if may_agg:
                        seen.add('passed-anonymous')
                        pr = probe_of(m)
                        ok = is_null(pr)
                        rep.ob('R05.12', '%s:%s:anonymous-member/%s' % (U, fn, 'passed-over-only-when-it-lacks-the-identifier' if ok else 'passed-over-without-probe'), ok,
                               '%s passes over an anonymous struct/union member without having looked for the identifier inside it' % fn, where=where, facts={'path': ctx.trail})
                else:
                    seen.update(('passed-named', 'passed-anonymous'))
                    rep.ob('R05.12', '%s:%s:member-passed-over-without-name-test' % (U, fn), False, '%s passes over a member without looking at its name' % fn, where=where, facts={'path': ctx.trail})
        need = {'named', 'anonymous', 'passed-named', 'passed-anonymous'}
        if not seen >= need:
            _und_once(rep, 'R05.12', '%s:%s' % (U, fn), 'member walk not recognised: cases seen %s, expected %s' % (sorted(seen), sorted(need)), where=where)
