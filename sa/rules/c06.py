"""C06 Calls obey the System V x86-64 calling convention (DESIGN.md §3 C06)."""
import re
from ..build import AnalysisBroken
from ..interp import Obj, View, Interp, Sym, Unsupported, Cell as _Cell
from ..chibi import CG, Trace, linearise
from ..lib_abi import Builder, SCALARS, STRUCTS, GP_REGS, N_SSE, classify, assign_args, size_of, bytes_of, shift_addr, eightbyte_classes, CLASS_ONLY, NESTED, describe
from ..x86 import Machine, Unknown, lo, ext, C
from .c01 import wrap

U = 'codegen.c'
TEST_TYPES = ['int', 'char', 'long', 'ptr', 'float', 'double', 'ldouble'] + sorted(STRUCTS)


class Aborts(Unknown):
    """the code generator, interpreted on a concrete (fully determined) call / function / return statement of a valid program, ends in
    error() / a failed assertion on every path: compiling such a program kills the compiler. A verdict, not an analysis failure"""


def _one_return(res, what):
    rets = [(c, o) for c, o in res if o[0] == 'ret']
    if not rets and res and all(o[0] == 'noreturn' for c, o in res):
        o = res[0][1]
        raise Aborts('%s ends in %s(%s) on every path' % (what, o[1], ', '.join(repr(a) for a in (o[2] if len(o) > 2 and isinstance(o[2], (list, tuple)) else [])[:3] if isinstance(a, (str, int)))))
    if len(rets) != 1:
        raise Unknown('%s has %d returning paths (%r)' % (what, len(rets), [o[:2] for c, o in res][:3]))
    return rets


def aborts(rep, rule, key, e, what, where):
    rep.ob(rule, key + ':code-generator-aborts', False, 'the code generator does not survive %s: %s - a valid program with such a type cannot be compiled' % (what, e), where=where)


def child_term(name, t):
    """what gen_expr(arg) leaves, per the register convention"""
    if t in ('float', 'double'):
        return 'xmm0', ('r', name, 'f%d' % (32 if t == 'float' else 64))
    if t == 'ldouble':
        return 'x87', ('r', name, 'f80')
    return 'rax', ('r', name, 64)        # integers (extension checked by C01) and aggregate addresses


def explore_with(cg, it, fname, mk):
    def mk2(ctx):
        n = mk(ctx)
        return [n]
    return it.explore(fname, mk2)


def run_caller(cg, B, types, ret='int', depth0=0, entry='gen_expr'):
    it = cg.interp()
    it.opaque_fns.discard('has_flonum'); it.opaque_fns.discard('has_ldouble'); it.opaque_fns.discard('is_ldouble_only')
    it.global_init['depth'] = depth0
    it.rec_limit = 64          # push_args2 / has_flonum recurse over concrete lists

    def mk(ctx):
        it.ctx = ctx
        n = Obj('Node', lazy=False, label='call')
        head, nodes = B.arg_nodes(it, types)
        fty = Obj('Type', lazy=False, label='fty'); fty.fields['kind'] = B.E['TY_FUNC']
        fn = Obj('Node', lazy=False, label='fn'); fn.fields.update({'kind': B.E['ND_VAR'], 'ty': fty, 'var': Obj('Obj', lazy=False, label='fvar', fields={'name': 'callee', 'ty': fty})})
        n.fields.update({'kind': B.E['ND_FUNCALL'], 'args': head or 0, 'lhs': fn, 'func_ty': fty, 'ty': B.ty(it, ret),
                         'tok': Obj('Token', lazy=True, label='tok')})
        if ret in STRUCTS:
            rb = Obj('Obj', lazy=False, label='retbuf'); rb.fields['offset'] = -64; rb.fields['ty'] = n.fields['ty']
            n.fields['ret_buffer'] = rb
        n.meta['root'] = True
        ctx.root = n
        return [n]
    res = it.explore(entry, mk)
    rets = _one_return(res, entry + '(ND_FUNCALL) on a concrete call')
    ctx = rets[0][0]
    tr = Trace(ctx)
    nodes = linearise(tr)
    tmap = {'a%d' % i: t for i, t in enumerate(types)}

    def pseudo(s, n):
        kind, child = n[1], n[2]
        name = getattr(child, 'label', '?')
        s.events.append(('eval', kind, name))
        for r in ('rcx', 'rdx', 'rsi', 'rdi', 'r8', 'r9', 'r10', 'r11'):
            s.reg[r] = ('clobber', r, name)
        for x in list(s.xmm):
            s.xmm[x] = ('clobber', 'xmm%d' % x, name)
        s.flags = None
        if name == 'fn':
            s.reg['rax'] = ('r', 'fn', 64); return
        where, term = child_term(name, tmap.get(name, 'int'))
        if where == 'rax':
            s.reg['rax'] = term
        elif where == 'xmm0':
            s.reg['rax'] = ('clobber', 'rax', name); s.xmm[0] = term
        else:
            s.reg['rax'] = ('clobber', 'rax', name); s.st.append(term)
    finals = Machine(ret_x87=(ret == 'ldouble' or ret_locs(ret) == 'X87')).run(nodes, lambda s: None, pseudo)
    if len(finals) != 1:
        raise Unknown('%d paths through the emitted call sequence' % len(finals))
    return ctx, tr, finals[0]


def expect_bytes(name, t, k, nbytes):
    """byte terms of eightbyte k of argument `name` of type t as the callee must see them"""
    if t in STRUCTS:
        base = ('addr', ('r', name, 64), 0)
        return [('mem', 8, shift_addr(base, 8 * k + j)) for j in range(nbytes)]
    where, term = child_term(name, t)
    return bytes_of(term, nbytes)


def check_call(rep, types, ret, depth0, ctx, tr, s, key, where):
    cs = [e for e in s.events if e[0] == 'callsite']
    facts = {'trace': tr.text()}
    if len(cs) != 1:
        rep.ob('R06.2', key + ':one-call', False, '%d call instructions emitted for one call expression' % len(cs), where=where, facts=facts)
        return
    _, target, reg, xmm, stack, st = cs[0]
    hidden = ret in STRUCTS and ret_locs(ret) == 'MEMORY'
    locs, ngp, nsse, membytes = assign_args(types, hidden_ret=hidden)
    # callee address
    rep.ob('R06.2', key + ':calls-the-callee', target == ('ind', ('reg', 'r10')) and reg['r10'] == ('r', 'fn', 64), 'the call does not go to the value of the function designator (%r via %r)' % (target, reg.get('r10')), where=where, facts=facts)
    # %al = number of vector registers
    rep.ob('R06.6', key + ':al-is-vector-register-count', lo(8, reg['rax']) == C(nsse), '%%al is %r at the call, the psABI requires the number of vector registers used (%d) for variadic callees' % (lo(8, reg['rax']), nsse), where=where, facts=facts)
    # stack alignment and total
    nslots = len(stack)
    pad = nslots * 8 - membytes
    al_ok = (depth0 + nslots) % 2 == 0
    rep.ob('R06.3', key + ':stack-16-byte-aligned', al_ok, 'with %d 8-byte temporaries already on the stack the call is made with %d more slots: %%rsp is not 16-byte aligned at the call' % (depth0, nslots), where=where, facts=facts)
    if hidden:
        ok = reg['rdi'] == ('addrof', 64, ('addr', ('init', 'rbp'), -64))
        rep.ob('R06.5', key + ':hidden-return-pointer-in-rdi', ok, 'for a MEMORY-class return the address of the return buffer must be the hidden first argument in %%rdi; found %r' % (reg['rdi'],), where=where, facts=facts)
    for i, t in enumerate(types):
        name = 'a%d' % i
        loc = locs[i]
        c = classify(t)
        sz = size_of(t)
        if loc[0] == 'regs':
            for k, (bank, idx) in enumerate(loc[1]):
                nb = min(8, sz - 8 * k)
                want = expect_bytes(name, t, k, nb)
                got = bytes_of(reg[GP_REGS[idx]] if bank == 'gp' else xmm.get(idx, ('xinit', idx)), nb)
                ok = got == want
                rep.ob('R06.2', key + ':arg%d/%s/eightbyte%d-in-%s' % (i, t, k, (GP_REGS[idx] if bank == 'gp' else 'xmm%d' % idx)), ok,
                       'argument %d (%s), eightbyte %d must be passed in %s per psABI 3.2.3 (%d INTEGER / %d SSE registers used before it); the register holds %r' % (
                           i, t, k, ('%' + GP_REGS[idx]) if bank == 'gp' else '%%xmm%d' % idx, idx if bank == 'gp' else 0, idx if bank != 'gp' else 0,
                           (reg[GP_REGS[idx]] if bank == 'gp' else xmm.get(idx))), where=where, facts=facts)
        else:
            off = loc[1]
            nslot = (sz + 7) // 8
            ok = True
            detail = ''
            for k in range(nslot):
                pos = len(stack) - 1 - (off // 8 + k)
                if pos < 0:
                    ok = False; detail = 'the argument area at the call is only %d bytes' % (len(stack) * 8); break
                slot = stack[pos]
                nb = min(8, sz - 8 * k)
                if t == 'ldouble':
                    want_slot = ('f80lo' if k == 0 else 'f80hi', ('fval', 80, ('r', name, 'f80')))
                    if slot != want_slot:
                        ok = False; detail = 'slot %d(%%rsp) holds %r' % (off + 8 * k, slot); break
                    continue
                want = expect_bytes(name, t, k, nb)
                got = bytes_of(slot, nb)
                if got != want:
                    ok = False; detail = 'slot %d(%%rsp) holds %r' % (off + 8 * k, slot); break
            rep.ob('R06.2', key + ':arg%d/%s/in-memory-at-%d' % (i, t, off), ok,
                   'argument %d (%s, class %s) must be passed in memory at %d(%%rsp) at the call (psABI 3.2.3: registers exhausted or MEMORY class; long double is 16-byte aligned): %s' % (i, t, '/'.join(c), off, detail), where=where, facts=facts)
    rep.ob('R06.3', key + ':argument-area-size', nslots * 8 >= membytes and nslots * 8 - membytes <= 8 + (8 if any(t == 'ldouble' for t in types) else 0),
           'the argument area is %d bytes, the psABI layout of these arguments needs %d (+ alignment padding)' % (nslots * 8, membytes), where=where, facts=facts)
    # psABI 3.2.3: the x87 register stack is empty at the call (long double arguments travel in memory; the callee may use all eight registers)
    live = [x for x in st if not (isinstance(x, tuple) and x and x[0] == 'clobber')]
    if 'R06.14' in rep.floors:
        rep.ob('R06.14', key + ':x87-stack-empty-at-call', not live,
               '%d value(s) are on the x87 register stack at the call instruction (%r): psABI 3.2.3 requires it empty on function entry - long double arguments are passed in memory - '
               'the callee has fewer than eight registers and every pending value of a recursive activation costs one more' % (len(live), live[:2]), where=where, facts=facts)
    # after the call: everything pushed is released
    rep.ob('R06.3', key + ':argument-area-released', len(s.stack) == 0 and not [x for x in s.st if x[0] != 'clobber'] or len(s.stack) == 0,
           '%d stack slots pushed for the call are still allocated after it: every evaluation of this call moves %%rsp' % len(s.stack), where=where, facts=facts)


def grid(tier):
    ks = (0, 5, 6, 7) if tier == 'quick' else (0, 1, 2, 3, 4, 5, 6, 7)
    ls = (0, 7, 8, 9) if tier == 'quick' else (0, 1, 2, 3, 4, 5, 6, 7, 8, 9)
    return ks, ls


def r_caller(cg, B, rep, tier):
    rep.rule('R06.2', 'caller side: every argument class at every register-exhaustion position is passed where psABI 3.2.3 puts it (register per eightbyte, or memory at the prescribed offset), byte for byte', floor=200)
    rep.rule('R06.3', 'the stack is 16-byte aligned at the call, the argument area has the psABI size, and it is released after the call', floor=30)
    rep.rule('R06.6', '%al carries the number of vector registers used; callee-saved registers are never written; the epilogue restores %rsp and %rbp', floor=30)
    where = '%s:%d' % (U, cg.cu.fn('push_args').line if cg.cu.fn('push_args') else 0)
    ks, ls = grid(tier)
    n = 0
    for t in TEST_TYPES:
        for k in ks:
            for l in ls:
                for depth0 in (0, 1):
                    if depth0 == 1 and not (k == ks[-1] or l == ls[-1]):
                        continue
                    if (t.startswith('u_') or t in CLASS_ONLY) and (k, l) != (0, 0):
                        continue        # the union / nested / padding shapes decide the classification of one aggregate; register exhaustion is covered by the flat struct shapes
                    types = ['long'] * k + ['double'] * l + [t, 'int', 'double']
                    key = '%s:ND_FUNCALL:%s-after-%dgp-%dsse/depth%d' % (U, t, k, l, depth0)
                    try:
                        ctx, tr, s = run_caller(cg, B, types, 'int', depth0)
                    except Aborts as e:
                        aborts(rep, 'R06.2', key, e, 'a call with an argument of type %s' % describe(t), where); continue
                    except Unknown as e:
                        rep.undecided('R06.2', key, str(e), where=where); continue
                    check_call(rep, types, 'int', depth0, ctx, tr, s, key, where)
                    n += 1
    return n


# ------------------------------------------------------------------------ callee ---
def run_callee(cg, B, types, variadic=False, ret='int', extra_locals=()):
    """assign_lvar_offsets + emit_text on a concrete function object"""
    it = cg.interp()
    it.opaque_fns.discard('has_flonum'); it.opaque_fns.discard('has_ldouble'); it.opaque_fns.discard('is_ldouble_only')
    it.rec_limit = 64
    it.global_init['depth'] = 0
    it.global_init['current_fn'] = 0
    box = {}

    def build(ctx):
        it.ctx = ctx
        fn = Obj('Obj', lazy=False, label='fn')
        fty = Obj('Type', lazy=False, label='fty')
        fty.fields.update({'kind': B.E['TY_FUNC'], 'return_ty': B.ty(it, ret), 'is_variadic': 1 if variadic else 0})
        ab = Obj('Obj', lazy=False, label='alloca_bottom'); ab.fields.update({'ty': B.ty(it, 'ptr'), 'align': 8, 'is_local': 1, 'name': '__alloca_size__'})
        chain = [ab]
        va = None
        if variadic:
            va = Obj('Obj', lazy=False, label='va_area')
            t = Obj('Type', lazy=False, label='vaty'); t.fields.update({'kind': B.E['TY_ARRAY'], 'size': 136, 'align': 1, 'base': B.ty(it, 'char'), 'array_len': 136})
            va.fields.update({'ty': t, 'align': 1, 'is_local': 1, 'name': '__va_area__'})
            chain.append(va)
        extras = []
        for j, loc in enumerate(extra_locals):
            sz, al, is_arr = loc[:3]
            tal = loc[3] if len(loc) > 3 else (1 if is_arr else min(al, 16))
            v = Obj('Obj', lazy=False, label='v%d' % j)
            t = Obj('Type', lazy=False, label='vt%d' % j)
            t.fields.update({'kind': B.E['TY_ARRAY'] if is_arr else B.E['TY_STRUCT'], 'size': sz, 'align': tal, 'base': B.ty(it, 'char') if is_arr else 0, 'array_len': sz})
            v.fields.update({'ty': t, 'align': al, 'is_local': 1, 'name': 'v%d' % j})
            extras.append(v); chain.append(v)
        box['extras'] = extras
        params = []
        for i, tn in enumerate(types):
            p = Obj('Obj', lazy=False, label='p%d' % i)
            ty = B.ty(it, tn)
            p.fields.update({'ty': ty, 'align': ty.fields.get('align', 1), 'is_local': 1, 'name': 'p%d' % i})
            params.append(p); chain.append(p)
        for a, b in zip(chain, chain[1:]):
            a.fields['next'] = b
        body = Obj('Node', lazy=False, label='body'); body.fields.update({'kind': B.E['ND_BLOCK'], 'tok': Obj('Token', lazy=True, label='tok')})
        fn.fields.update({'is_function': 1, 'is_definition': 1, 'is_live': 1, 'name': 'f', 'ty': fty, 'params': params[0] if params else 0,
                          'locals': chain[0], 'alloca_bottom': ab, 'va_area': va or 0, 'body': body})
        box.update(fn=fn, params=params, va=va, ab=ab)
        return fn
    res = it.explore('assign_lvar_offsets', lambda ctx: [build(ctx)])
    rets = _one_return(res, 'assign_lvar_offsets on a concrete function')
    fn = box['fn']; params = box['params']
    offsets = [p.fields.get('offset') for p in params]
    stack_size = fn.fields.get('stack_size')
    # now the prologue: reuse the same objects (offsets are set)
    it2 = cg.interp()
    it2.opaque_fns.discard('has_flonum')
    it2.rec_limit = 64
    it2.global_init['depth'] = 0
    it2.global_init['current_fn'] = 0
    res2 = it2.explore('emit_text', lambda ctx: [fn])
    rets2 = _one_return(res2, 'emit_text on a concrete function')
    tr = Trace(rets2[0][0])
    nodes = linearise(tr)

    def pseudo(s, n):
        s.events.append(('eval', n[1], getattr(n[2], 'label', '?')))
        s.events.append(('body-starts', list(s.stores)))
    finals = Machine().run(nodes, lambda s: None, pseudo)
    if len(finals) != 1:
        raise Unknown('%d paths through the emitted function' % len(finals))
    return box, offsets, stack_size, tr, finals[0]


def check_callee(rep, types, box, offsets, stack_size, tr, s, key, where, variadic=False):
    facts = {'trace': tr.text()[:60], 'offsets': offsets, 'stack_size': stack_size}
    locs, ngp, nsse, membytes = assign_args(types)
    pro = [e for e in s.events if e[0] == 'body-starts']
    if len(pro) != 1:
        rep.undecided('R06.7', key, 'function body marker not found'); return
    stores = pro[0][1]
    mem = {}
    for addr, w, val, kind in stores:
        if addr[0] == 'addr' and addr[1] == ('init', 'rsp') and isinstance(addr[2], int):
            bs = bytes_of(val, max(1, min(16, w // 8)))
            for j, b in enumerate(bs):
                mem[addr[2] + j] = b
    rep.ob('R06.7', key + ':frame-16-aligned', isinstance(stack_size, int) and stack_size % 16 == 0, 'frame size %r is not a multiple of 16' % (stack_size,), where=where, facts=facts)
    homes = []
    for i, t in enumerate(types):
        off = offsets[i]
        sz = size_of(t)
        loc = locs[i]
        if not isinstance(off, int):
            rep.undecided('R06.7', key + ':p%d' % i, 'parameter offset %r is not concrete' % (off,)); continue
        if loc[0] == 'mem':
            ok = off == 16 + loc[1]
            rep.ob('R06.7', key + ':param%d/%s/in-memory-at-%d' % (i, t, 16 + loc[1]), ok,
                   'parameter %d (%s) is passed in memory by a psABI caller at %d(%%rbp); the function reads it at %d(%%rbp)' % (i, t, 16 + loc[1], off), where=where, facts=facts)
            continue
        homes.append((off, off + sz, i))
        ok = off < 0 and isinstance(stack_size, int) and -off <= stack_size
        rep.ob('R06.7', key + ':param%d/%s/home-in-frame' % (i, t), ok, 'parameter %d (%s) arrives in registers (psABI) but the function reads it at %d(%%rbp), outside its frame of %r bytes' % (i, t, off, stack_size), where=where, facts=facts)
        if not ok:
            continue
        for k, (bank, idx) in enumerate(loc[1]):
            nb = min(8, sz - 8 * k)
            src = ('init', GP_REGS[idx]) if bank == 'gp' else ('xinit', idx)
            want = [('byte', src, j) for j in range(nb)]
            got = [mem.get(off + 8 * k + j) for j in range(nb)]
            rep.ob('R06.7', key + ':param%d/%s/eightbyte%d-from-%s' % (i, t, k, GP_REGS[idx] if bank == 'gp' else 'xmm%d' % idx), got == want,
                   'parameter %d (%s), eightbyte %d arrives in %s (psABI 3.2.3) but its home %d(%%rbp) is filled from %r' % (i, t, k, ('%' + GP_REGS[idx]) if bank == 'gp' else '%%xmm%d' % idx, off + 8 * k, got[:2]), where=where, facts=facts)
    homes.sort()
    ov = [(a, b) for a, b in zip(homes, homes[1:]) if a[1] > b[0]]
    rep.ob('R06.7', key + ':homes-disjoint', not ov, 'parameter homes overlap: %r' % ov[:2], where=where, facts=facts)
    # epilogue
    asm = [l.strip() for l in tr.asm()]
    tail = [l for l in asm if l and not l.startswith('.')][-3:]
    rep.ob('R06.6', key + ':epilogue', tail == ['mov %rbp, %rsp', 'pop %rbp', 'ret'], 'the epilogue is %r, expected mov %%rbp,%%rsp; pop %%rbp; ret' % tail, where=where)
    head = [l for l in asm if l and not l.startswith('.') and not l.endswith(':')][:2]
    rep.ob('R06.6', key + ':prologue', head == ['push %rbp', 'mov %rsp, %rbp'], 'the prologue starts with %r' % head, where=where)


def r_callee(cg, B, rep, tier):
    rep.rule('R06.7', 'callee side: every parameter is read from where a psABI caller puts it: register eightbytes are spilled byte for byte to a home inside the frame, memory parameters are read at 16(%rbp)+offset; frame 16-aligned', floor=200)
    where = '%s:%d' % (U, cg.cu.fn('emit_text').line if cg.cu.fn('emit_text') else 0)
    ks, ls = grid(tier)
    for t in TEST_TYPES:
        for k in ks:
            for l in ls:
                if (t.startswith('u_') or t in CLASS_ONLY) and (k, l) != (0, 0):
                    continue
                types = ['long'] * k + ['double'] * l + [t, 'int', 'double']
                key = '%s:emit_text:%s-after-%dgp-%dsse' % (U, t, k, l)
                try:
                    box, offsets, stack_size, tr, s = run_callee(cg, B, types)
                except Aborts as e:
                    aborts(rep, 'R06.7', key, e, 'a function with a parameter of type %s' % describe(t), where); continue
                except Unknown as e:
                    rep.undecided('R06.7', key, str(e), where=where); continue
                check_callee(rep, types, box, offsets, stack_size, tr, s, key, where)


# ------------------------------------------------------------------------ returns ---
RET_GP = ['rax', 'rdx']


def ret_locs(t):
    """psABI return location of each eightbyte of type t: [('gp', i)|('sse', i)] or 'MEMORY'"""
    if t in STRUCTS and eightbyte_classes(t) == ['X87', 'X87UP']:
        return 'X87'            # one long double (directly, or behind member structs / arrays of length 1): classes X87, X87UP -> returned in %st(0) (psABI 3.2.3 return rule 6)
    c = classify(t)
    if c == ['MEMORY']:
        return 'MEMORY'
    gp = sse = 0
    out = []
    for x in c:
        if x == 'INTEGER':
            out.append(('gp', gp)); gp += 1
        elif x == 'SSE':
            out.append(('sse', sse)); sse += 1
    return out


def run_return(cg, B, t):
    """gen_stmt on `return v;` (v an object of aggregate type t) in a function returning t: (trace, final machine state at the epilogue jump)"""
    it = cg.interp()
    it.opaque_fns.discard('has_flonum'); it.opaque_fns.discard('has_ldouble'); it.opaque_fns.discard('is_ldouble_only')
    it.rec_limit = 64

    def mk(ctx):
        it.ctx = ctx
        fty = Obj('Type', lazy=False, label='fty'); fty.fields.update({'kind': B.E['TY_FUNC'], 'return_ty': B.ty(it, t)})
        hp = Obj('Obj', lazy=False, label='hidden'); hp.fields.update({'offset': -8, 'ty': B.ty(it, 'ptr')})
        fn = Obj('Obj', lazy=False, label='fn'); fn.fields.update({'name': 'f', 'ty': fty, 'params': hp})
        ctx.globals['current_fn'] = fn
        n = Obj('Node', lazy=False, label='ret'); n.fields.update({'kind': B.E['ND_RETURN'], 'tok': Obj('Token', lazy=True, label='tok')})
        v = Obj('Node', lazy=False, label='val'); v.fields.update({'kind': B.E['ND_VAR'], 'ty': fty.fields['return_ty'], 'tok': n.fields['tok']})
        n.fields['lhs'] = v
        n.meta['root'] = True
        ctx.root = n
        return [n]
    res = _one_return(it.explore('gen_stmt', mk), 'gen_stmt(ND_RETURN) of a concrete aggregate')
    tr = Trace(res[0][0])
    nodes = linearise(tr)

    def pseudo(s_, n):
        s_.events.append(('eval', n[1], 'val'))
        s_.reg['rax'] = ('r', 'val', 64)
    finals = Machine().run(nodes, lambda s_: None, pseudo)
    return tr, finals[0]


def _returns_callee(cg, B, rep, t, sz, locs, where):
    # ---- callee side: return statement
    keyc = '%s:ND_RETURN:returns-%s' % (U, t)
    try:
        tr, s2 = run_return(cg, B, t)
    except Aborts as e:
        aborts(rep, 'R06.5', keyc, e, '`return v;` in a function returning %s' % describe(t), where); return
    except Unknown as e:
        rep.undecided('R06.5', keyc, str(e), where=where); return
    facts = {'trace': tr.text()}
    src = ('addr', ('r', 'val', 64), 0)
    if locs == 'X87':
        ok = s2.st == [('fmem', 80, src)] and not s2.stores
        rep.ob('R06.5', keyc + ':callee-value-in-st0', ok, 'returning an aggregate that is one long double, the x87 stack holds %r at the epilogue; psABI: the value in %%st(0)' % (s2.st,), where=where, facts=facts)
    elif locs == 'MEMORY':
        dst = ('mem', 64, ('addr', ('init', 'rbp'), -8))
        want = sorted(((('addr', dst, i), 8, ('mem', 8, shift_addr(src, i))) for i in range(sz)), key=repr)
        got = sorted(((a, w, v) for a, w, v, k in s2.stores), key=repr)
        rep.ob('R06.5', keyc + ':callee-copies-into-hidden-buffer', got == want, 'returning a %d-byte aggregate the callee stores %d bytes (%r...), expected a byte-for-byte copy into the buffer the hidden first parameter points to' % (sz, len(got), got[:1]), where=where, facts=facts)
        rep.ob('R06.5', keyc + ':callee-returns-hidden-pointer-in-rax', s2.reg['rax'] == dst,
               'after copying a MEMORY-class return value %%rax holds %r; psABI 3.2.3: %%rax must hold the address passed in by the caller (chibicc callers and others read the result through it)' % (s2.reg['rax'],), where=where, facts=facts)
    else:
        for k, (bank, idx) in enumerate(locs):
            nb = min(8, sz - 8 * k)
            want = [('mem', 8, shift_addr(src, 8 * k + j)) for j in range(nb)]
            reg = s2.reg[RET_GP[idx]] if bank == 'gp' else s2.xmm.get(idx)
            got = bytes_of(reg, nb) if reg is not None else None
            rep.ob('R06.5', keyc + ':callee-eightbyte%d-in-%s' % (k, RET_GP[idx] if bank == 'gp' else 'xmm%d' % idx), got == want,
                   'eightbyte %d of a returned %s must be in %s; it holds %r' % (k, t, ('%' + RET_GP[idx]) if bank == 'gp' else '%%xmm%d' % idx, reg), where=where, facts=facts)
            # no read beyond the object
            if bank == 'sse' and reg is not None:
                wide = bytes_of(reg, 8)
                over = [b for b in wide[nb:] if b is not None and b[0] == 'mem']
                rep.ob('R06.5', keyc + ':callee-eightbyte%d-reads-within-object' % k, not over, 'loading eightbyte %d of a %d-byte aggregate reads %d byte(s) beyond the object' % (k, sz, len(over)), where=where, facts=facts)
    rep.ob('R06.5', keyc + ':jumps-to-epilogue', any(e[0] == 'jump_out' and e[1].startswith('.L.return.') for e in s2.events), 'a return statement does not jump to the function epilogue', where=where, facts=facts)


def r_returns(cg, B, rep):
    rep.rule('R06.5', 'aggregate return values: each eightbyte travels in rax/rdx or xmm0/xmm1 in classification order on both sides, byte for byte and without touching memory outside the object; MEMORY class: the hidden pointer is the first argument, the callee copies into it and returns it in %rax', floor=40)
    rep.rule('R01.7', 'narrow return values (_Bool, char, short) are re-extended by the caller per their signedness', floor=4)
    where = '%s:%d' % (U, cg.cu.fn('copy_struct_reg').line if cg.cu.fn('copy_struct_reg') else 0)
    for t in sorted(STRUCTS):
        sz = size_of(t)
        locs = ret_locs(t)
        # ---- caller side: after the call the registers are copied into the return buffer at -64(%rbp)
        key = '%s:ND_FUNCALL:returns-%s' % (U, t)
        try:
            ctx, tr, s = run_caller(cg, B, ['int'], t, 0)
        except Aborts as e:
            aborts(rep, 'R06.5', key, e, 'a call of a function returning %s' % describe(t), where); ctx = None
        except Unknown as e:
            rep.undecided('R06.5', key, str(e), where=where); continue
        if ctx is None:
            _returns_callee(cg, B, rep, t, sz, locs, where); continue
        facts = {'trace': tr.text()}
        ncall = 1
        st_after = [x for x in s.stores if x[0][0] == 'addr' and x[0][1] == ('init', 'rbp')]
        mem = {}
        for addr, w, val, kind in st_after:
            bs = bytes_of(val, max(1, w // 8))
            for j, b in enumerate(bs):
                mem[addr[2] + j] = b
        if locs == 'X87':
            got = [mem.get(-64 + j) for j in range(10)]
            want = [('byte', ('retst', 1), j) for j in range(10)]
            rep.ob('R06.5', key + ':caller-value-from-st0', got == want and not s.st, 'an aggregate that is one long double comes back in %%st(0) (class X87); the caller fills the result object from %r and leaves %d value(s) on the x87 stack' % (got[:2], len(s.st)), where=where, facts=facts)
            out = sorted(o for o in mem if not (-64 <= o < -64 + sz))
            rep.ob('R06.5', key + ':caller-writes-only-the-result-object', not out, 'receiving a returned %s the caller also writes bytes at offsets %r of its frame' % (t, out[:6]), where=where, facts=facts)
            rep.ob('R06.5', key + ':caller-result-address', s.reg['rax'] == ('addrof', 64, ('addr', ('init', 'rbp'), -64)), 'the value of the call expression is %r, expected the address of the result object' % (s.reg['rax'],), where=where, facts=facts)
        elif locs == 'MEMORY':
            ok = s.reg['rax'] == ('ret', 'rax', 1) and not mem
            rep.ob('R06.5', key + ':caller-uses-returned-address', ok, 'for a MEMORY-class return the caller must use the address the callee returns in %%rax and not copy anything itself; result %r, %d bytes stored' % (s.reg['rax'], len(mem)), where=where, facts=facts)
        else:
            for k, (bank, idx) in enumerate(locs):
                nb = min(8, sz - 8 * k)
                src = ('ret', RET_GP[idx], 1) if bank == 'gp' else ('retx', idx, 1)
                want = [('byte', src, j) for j in range(nb)]
                got = [mem.get(-64 + 8 * k + j) for j in range(nb)]
                rep.ob('R06.5', key + ':caller-eightbyte%d-from-%s' % (k, RET_GP[idx] if bank == 'gp' else 'xmm%d' % idx), got == want,
                       'eightbyte %d of a returned %s comes back in %s (psABI 3.2.3) but the caller fills the result object from %r' % (k, t, ('%' + RET_GP[idx]) if bank == 'gp' else '%%xmm%d' % idx, got[:2]), where=where, facts=facts)
            out = sorted(o for o in mem if not (-64 <= o < -64 + sz))
            rep.ob('R06.5', key + ':caller-writes-only-the-result-object', not out, 'receiving a returned %s (%d bytes) the caller also writes bytes at offsets %r of its frame: a neighbouring object or the saved frame pointer is overwritten' % (t, sz, out[:6]), where=where, facts=facts)
            rep.ob('R06.5', key + ':caller-result-address', s.reg['rax'] == ('addrof', 64, ('addr', ('init', 'rbp'), -64)), 'the value of the call expression is %r, expected the address of the result object' % (s.reg['rax'],), where=where, facts=facts)
        _returns_callee(cg, B, rep, t, sz, locs, where)
    # narrow scalar returns
    for t, w, kind in (('bool', 8, 'zx'), ('char', 8, 'sx'), ('uchar', 8, 'zx'), ('short', 16, 'sx')):
        key = '%s:ND_FUNCALL:returns-%s' % (U, t)
        try:
            ctx, tr, s = run_caller(cg, B, ['int'], t, 0)
        except Unknown as e:
            rep.undecided('R01.7', key, str(e), where=where); continue
        got = lo(32, s.reg['rax'])
        want = ext(kind, w, 32, lo(w, ('ret', 'rax', 1)))
        rep.ob('R01.7', key, got == want, 'a %s returned by a call is used as %r; the upper bits of %%eax are undefined on return, the caller must re-extend: %r' % (t, got, want), where=where, facts={'trace': tr.text()})


def const_off(v):
    """c for a value rbp + c"""
    if isinstance(v, tuple) and v[0] == 'bin' and v[1] == 'add':
        a, b = v[3], v[4]
        if b == ('init', 'rsp') and a[0] == 'c':
            return a[1]
        if a == ('init', 'rsp') and b[0] == 'c':
            return b[1]
    if isinstance(v, tuple) and v[0] == 'addrof' and isinstance(v[2], tuple) and v[2][0] == 'addr' and v[2][1] == ('init', 'rsp') and isinstance(v[2][2], int):
        return v[2][2]
    if v == ('init', 'rsp'):
        return 0
    return None


def r_variadic(cg, B, rep, P):
    rep.rule('R06.4', 'variadic functions: gp_offset = 8 x named INTEGER args, fp_offset = 48 + stride x named SSE args, overflow_arg_area = 16(%rbp), reg_save_area holds rdi..r9 then xmm0..7; the prologue, the save area and the va_arg walkers of stdarg.h agree on strides and limits; psABI strides are 8 and 16', floor=8)
    where = '%s:%d' % (U, cg.cu.fn('emit_text').line)
    obs = {}
    for named in (['int'], ['int', 'double'], ['ptr', 'double', 'double', 'long']):
        try:
            box, offsets, stack_size, tr, s = run_callee(cg, B, named, variadic=True)
        except Unknown as e:
            rep.undecided('R06.4', '%s:emit_text:va-area' % U, str(e), where=where); return
        va = box['va'].fields.get('offset')
        pro = [e for e in s.events if e[0] == 'body-starts'][0][1]
        mem = {}
        for addr, w, val, kind in pro:
            if addr[0] == 'addr' and addr[1] == ('init', 'rsp') and isinstance(addr[2], int):
                mem[(addr[2] - va, w)] = val
        ngp = sum(1 for t in named if classify(t) == ['INTEGER']); nfp = sum(1 for t in named if classify(t) == ['SSE'])
        obs[(ngp, nfp)] = mem
    key = '%s:emit_text:va_area' % U
    (g1, f1), m1 = sorted(obs.items())[0]
    def cval(m, off, w):
        v = m.get((off, w))
        return v[1] if isinstance(v, tuple) and v[0] == 'c' else None
    gps = {k: cval(m, 0, 32) for k, m in obs.items()}
    fps = {k: cval(m, 4, 32) for k, m in obs.items()}
    ok_gp = all(v == 8 * k[0] for k, v in gps.items())
    rep.ob('R06.4', key + ':gp_offset', ok_gp, 'gp_offset is initialised to %r for (named INTEGER, named SSE) = %r; psABI: 8 x named INTEGER arguments' % (list(gps.values()), list(gps)), where=where)
    strides = set()
    for k, v in fps.items():
        if v is not None and k[1]:
            strides.add((v - 48) / k[1])
    base_ok = all(v == 48 for k, v in fps.items() if k[1] == 0)
    s1 = strides.pop() if len(strides) == 1 else None
    rep.ob('R06.4', key + ':fp_offset-base', base_ok and s1 is not None, 'fp_offset is initialised to %r for %r: not 48 + stride x named SSE arguments' % (list(fps.values()), list(fps)), where=where)
    m = m1
    ov = m.get((8, 64)); rs = m.get((16, 64))
    rep.ob('R06.4', key + ':overflow_arg_area', const_off(ov) == 16, 'overflow_arg_area is %r, expected 16(%%rbp) (the first stack argument)' % (ov,), where=where)
    regs = [m.get((24 + 8 * i, 64)) for i in range(6)]
    rep.ob('R06.4', key + ':gp-save-order', regs == [('init', r) for r in GP_REGS], 'the INTEGER save area holds %r, expected rdi, rsi, rdx, rcx, r8, r9 at 8-byte steps from reg_save_area' % (regs,), where=where)
    xoffs = sorted(off for (off, w), v in m.items() if isinstance(v, tuple) and v[0] == 'fval' and isinstance(v[2], tuple) and v[2][0] == 'xinit')
    xs = {m[(off, 64)][2][1]: off for off in xoffs if (off, 64) in m}
    s2 = None
    if len(xs) == 8:
        ds = {xs[i + 1] - xs[i] for i in range(7)}
        s2 = ds.pop() if len(ds) == 1 else None
    rep.ob('R06.4', key + ':sse-save-area', len(xs) == 8 and xs.get(0) == 24 + 48 and s2 is not None, 'the SSE save area is %r: expected xmm0..xmm7 at a constant stride starting 48 bytes into reg_save_area' % (xs,), where=where)
    # header walkers (token scan of include/stdarg.h)
    txt = open(P.header('include/stdarg.h')).read()
    def fn_body(name):
        mm = re.search(r'static\s+void\s*\*\s*%s\s*\([^)]*\)\s*\{(.*?)\n\}' % name, txt, re.S)
        return mm.group(1) if mm else ''
    fpb, gpb = fn_body('__va_arg_fp'), fn_body('__va_arg_gp')
    def num(rx, body):
        mm = re.search(rx, body)
        return int(mm.group(1)) if mm else None
    s3 = num(r'fp_offset\s*\+=\s*(\d+)', fpb); l3 = num(r'fp_offset\s*>=\s*(\d+)', fpb)
    g3 = num(r'gp_offset\s*\+=\s*(\d+)', gpb); lg = num(r'gp_offset\s*>=\s*(\d+)', gpb)
    rep.ob('R06.4', 'include/stdarg.h:__va_arg_gp:stride-and-limit', g3 == 8 and lg == 48, 'va_arg for INTEGER class advances by %r up to %r; psABI: 8 and 48' % (g3, lg), where='include/stdarg.h')
    agree = s1 is not None and s1 == s2 == s3 and l3 == 48 + 8 * (s3 or 0)
    rep.ob('R06.4', key + ':fp-stride-agreement', agree,
           'the SSE part of the variadic machinery disagrees with itself: fp_offset counts %r bytes per named SSE argument, the save area stores xmm registers %r bytes apart, va_arg advances by %r up to %r: va_arg(ap, double) reads the wrong slot after a named floating argument' % (s1, s2, s3, l3), where=where)
    rep.ob('R06.4', key + ':fp-stride-is-16' + ('' if s2 == 16 else ':stride-%s' % s2), s2 == 16 and s3 == 16,
           'SSE registers are saved %r bytes apart and va_arg advances by %r; psABI 3.5.7: 16-byte slots (fp_offset 48..176). A va_list made here and walked by libc (vprintf with two or more doubles), or made by another compiler and walked here, reads the wrong registers' % (s2, s3), where=where)


VA_NAMED = [['long'] * 6, ['long'] * 7, ['long'] * 8 + ['int'], ['double'] * 8, ['double'] * 9, ['ldouble'], ['int', 'ldouble', 'double'], ['s_ll'], ['s_dd'], ['s_ld'], ['s_dl', 'int'],
            ['s_i', 's_f'], ['s_l3', 'int'], ['long'] * 5 + ['s_ll'], ['double'] * 7 + ['s_dd', 'double'], ['s_L', 'int'], ['long'] * 7 + ['ldouble']]


def r_variadic_named(cg, B, rep):
    """va_start must describe the state after the NAMED parameters as a psABI caller passed them (3.5.7): gp_offset / fp_offset count the
    registers the named parameters occupy - per eightbyte class, an aggregate takes one register per eightbyte, a long double and a MEMORY
    class aggregate none - and overflow_arg_area points behind the named parameters that were passed in memory (registers exhausted, long
    double, large aggregates). The prologue is interpreted on a concrete variadic function per signature and compared with assign_args"""
    rep.rule('R06.11', 'va_start: for every class of named parameter (INTEGER / SSE scalars beyond the registers, long double, one- and two-eightbyte aggregates of each class mix, MEMORY aggregates) gp_offset and fp_offset count the registers the named parameters occupy and overflow_arg_area is 16(%rbp) + the bytes of the named parameters passed in memory', floor=40)
    where = '%s:%d' % (U, cg.cu.fn('emit_text').line)

    for named in VA_NAMED:
        # compact, stable signature name: runs of one type are written type*n
        parts = []
        for t in named:
            if parts and parts[-1][0] == t:
                parts[-1][1] += 1
            else:
                parts.append([t, 1])
        sig = ','.join(t if n == 1 else '%s*%d' % (t, n) for t, n in parts)
        key = '%s:emit_text:va_start-after-named(%s)' % (U, sig)
        try:
            box, offsets, stack_size, tr, s = run_callee(cg, B, named, variadic=True)
        except Aborts as e:
            aborts(rep, 'R06.11', key, e, 'a variadic function with the named parameters (%s)' % sig, where); continue
        except Unknown as e:
            rep.undecided('R06.11', key, str(e), where=where); continue
        va = box['va'].fields.get('offset')
        pro = [e for e in s.events if e[0] == 'body-starts']
        if len(pro) != 1 or not isinstance(va, int):
            rep.undecided('R06.11', key, 'prologue / va_area offset not found', where=where); continue
        mem = {}
        for addr, w, val, kind in pro[0][1]:
            if addr[0] == 'addr' and addr[1] == ('init', 'rsp') and isinstance(addr[2], int):
                mem[(addr[2] - va, w)] = val
        locs, ngp, nsse, membytes = assign_args(named)
        g = mem.get((0, 32)); f = mem.get((4, 32)); ov = const_off(mem.get((8, 64)))
        g = g[1] if isinstance(g, tuple) and g[0] == 'c' else None
        f = f[1] if isinstance(f, tuple) and f[0] == 'c' else None
        if g is None or f is None or ov is None:
            rep.undecided('R06.11', key, 'the va_list fields are not initialised with constants / %%rbp + constant (%r, %r, %r)' % (mem.get((0, 32)), mem.get((4, 32)), mem.get((8, 64))), where=where); continue
        facts = {'named': named, 'psabi': {'gp': ngp, 'sse': nsse, 'mem': membytes}}
        gp_in_mem = any(locs[i][0] == 'mem' and 'INTEGER' in classify(t) for i, t in enumerate(named))
        fp_in_mem = any(locs[i][0] == 'mem' and 'SSE' in classify(t) for i, t in enumerate(named))
        # once the registers of a kind are exhausted any value at or above the limit sends every walker to the overflow area
        ok_g = g == 8 * ngp or (gp_in_mem and ngp == 6 and g >= 48 and g % 8 == 0 and g <= 48 + 8 * len(named))
        ok_f = f == 48 + 16 * nsse or (fp_in_mem and nsse == N_SSE and f >= 176 and f % 16 == 0 and f <= 176 + 16 * len(named))
        rep.ob('R06.11', key + ':gp_offset', ok_g, 'after the named parameters (%s) a psABI caller has used %d general-purpose registers; va_start sets gp_offset to %d (psABI: %d): va_arg of the first unnamed INTEGER argument reads the save slot of another register' % (sig, ngp, g, 8 * ngp), where=where, facts=facts)
        rep.ob('R06.11', key + ':fp_offset', ok_f, 'after the named parameters (%s) a psABI caller has used %d vector registers; va_start sets fp_offset to %d (psABI: %d): va_arg of the first unnamed double reads the save slot of another register' % (sig, nsse, f, 48 + 16 * nsse), where=where, facts=facts)
        want_ov = 16 + (membytes + 7) // 8 * 8
        rep.ob('R06.11', key + ':overflow_arg_area', ov == want_ov, 'the named parameters (%s) occupy %d bytes of the memory argument area; va_start sets overflow_arg_area to %d(%%rbp) (psABI: %d(%%rbp)): va_arg of an unnamed argument passed in memory yields a named parameter or skips arguments' % (sig, membytes, ov, want_ov), where=where, facts=facts)


def r_reg_class(P, B, rep):
    """va_arg picks its walker from __builtin_reg_class(type): 0 = fetched from the INTEGER part of the save area, 1 = from the SSE part,
    2 = from the overflow area. primary() is interpreted on the builtin for every scalar type and for the struct vocabulary and the answer is
    compared with the psABI class of the type (a type the caller passes in registers must not be looked for in memory, and vice versa)"""
    from ..interp import Interp, Obj, Sym
    pu = P.unit('parse.c')
    if 'primary' not in pu.functions:
        rep.undecided('R06.4', 'parse.c:primary:reg-class', 'primary() vanished'); return
    where = 'parse.c:%d' % pu.fn('primary').line
    names = ['char', 'short', 'int', 'long', 'uchar', 'uint', 'ulong', 'ptr', 'bool', 'float', 'double', 'ldouble'] + sorted(STRUCTS)
    seen = 0
    for tn in names:
        cls = classify(tn)
        if tn.startswith('u_'):
            tag = 'union-%s-%s' % (tn, '-'.join(cls))
        elif tn in CLASS_ONLY:
            tag = 'struct-%s-%s' % (tn, '-'.join(cls))
        elif tn in STRUCTS:
            tag = 'struct-' + '-'.join(cls)
        else:
            tag = tn
        want = 2 if cls in (['MEMORY'], ['X87']) else (0 if cls == ['INTEGER'] else (1 if cls == ['SSE'] else None))
        box = {}

        def m_equal(it, ctx, n, a):
            return 1 if (a[0] is ctx.tok0 and a[1] == '__builtin_reg_class') else 0

        def m_typename(it, ctx, n, a, tn=tn):
            return B.ty(it, tn)

        def m_new_num(it, ctx, n, a):
            ctx.emit('num', a[0]); return Obj('Node', lazy=True, label='num')
        it = Interp(P, pu, {'models': {'equal': m_equal, 'typename': m_typename, 'skip': lambda it, ctx, n, a: Obj('Token', lazy=True, label='after'), 'new_num': m_new_num,
                                       'consume': lambda *a: 0}, 'opaque': ['error_tok'], 'rec_limit': 64})   # has_flonum / has_ldouble recurse over concrete nested types

        def mk(ctx):
            ctx.tok0 = Obj('Token', lazy=True, label='tok0')
            return [Sym('rest'), ctx.tok0]
        try:
            res = [(c, o) for c, o in it.explore('primary', mk) if o[0] == 'ret']
        except (Unsupported, AnalysisBroken) as e:
            rep.undecided('R06.4', 'parse.c:primary:reg-class/%s' % tag, 'primary() not interpretable on __builtin_reg_class: %s' % e, where=where); continue
        nums = {tuple(e[1] for e in c.events if e[0] == 'num') for c, o in res}
        if len(res) == 0 or len(nums) != 1 or len(next(iter(nums))) != 1:
            rep.undecided('R06.4', 'parse.c:primary:reg-class/%s' % tag, 'the answer of __builtin_reg_class is not a single constant (%r)' % (nums,), where=where); continue
        got = next(iter(nums))[0]
        seen += 1
        bad = _va_arg_end_to_end(P, tn, cls, got)
        if isinstance(bad, str) and bad.startswith('undecided:'):
            rep.undecided('R06.4', 'parse.c:primary:reg-class/%s' % tag, bad[10:], where=where); continue
        rep.ob('R06.4', 'parse.c:primary:reg-class/%s' % tag, bad is None,
               'va_arg(ap, %s) with __builtin_reg_class = %r: %s (the caller passes the type as %s; psABI 3.5.7)' % (describe(tn), got, bad, '/'.join(cls)), where=where)
    if seen < 12:
        rep.undecided('R06.4', 'parse.c:primary:reg-class', 'only %d types could be evaluated' % seen, where=where)


_VA_CACHE = {}


def _va_arg_end_to_end(P, tn, cls, klass):
    """evaluate the header's va_arg(ap, T) (macro expanded, walkers interpreted by sa/lib_minic.py) with __builtin_reg_class(T) = klass on a grid
    of va_list states and a register save area / overflow area filled with distinct bytes; compare the bytes of the fetched object and the
    updated va_list with the va_arg algorithm of psABI 3.5.7. Returns None, a description of the first difference, or 'undecided:...'"""
    from ..lib_minic import parse_functions, parse_macros, expand, tokenize, Parser, Eval, Cell, NotInSubset
    if 'hdr' not in _VA_CACHE:
        txt = open(P.header('include/stdarg.h')).read()
        try:
            _VA_CACHE['hdr'] = (parse_functions(txt, typenames=('__va_elem',)), parse_macros(txt))
        except NotInSubset as e:
            _VA_CACHE['hdr'] = e
    if isinstance(_VA_CACHE['hdr'], Exception):
        return 'undecided:stdarg.h is outside the evaluated C subset: %s' % _VA_CACHE['hdr']
    fns, macros = _VA_CACHE['hdr']
    if 'va_arg' not in macros:
        return 'undecided:va_arg is not a macro of stdarg.h'
    size = size_of(tn)
    align = 16 if tn == 'ldouble' else (STRUCTS[tn][1] if tn in STRUCTS else size)
    up = lambda n, a: (n + a - 1) // a * a
    R, OV = 0x5000, 0x7000
    try:
        toks = expand(tokenize('va_arg(AP, TY)'), macros)
        expr = Parser(toks + [('p', ';')], typenames=('TY', '__va_elem')).expr()
    except NotInSubset as e:
        return 'undecided:va_arg expands to something outside the evaluated C subset: %s' % e
    ngp = cls.count('INTEGER'); nfp = cls.count('SSE')
    in_mem = cls in (['MEMORY'], ['X87'])
    for gp in range(0, 56, 8):
        for fp in range(48, 192, 16):
            for ov in (OV, OV + 8):
                ev = Eval(fns, builtins={'__builtin_reg_class': lambda w: klass, 'sizeof': lambda w: size, '_Alignof': lambda w: align})
                ev.lvalues = True
                for a in range(0, 176):
                    ev.mem[R + a] = (a * 7 + 3) & 0xff
                for a in range(0, 64):
                    ev.mem[OV + a] = (a * 5 + 0x80) & 0xff
                st = {'gp_offset': gp, 'fp_offset': fp, 'overflow_arg_area': ov, 'reg_save_area': R}
                want_st = dict(st)
                # ---- psABI 3.5.7
                if in_mem or gp + 8 * ngp > 48 or fp + 16 * nfp > 176:
                    a0 = up(ov, 16) if align > 8 else ov
                    want = [ev.mem.get(a0 + i, 0) for i in range(size)]
                    want_st['overflow_arg_area'] = up(a0 + size, 8)
                else:
                    want = []
                    g, f = gp, fp
                    for k, c in enumerate(cls):
                        if c == 'NO_CLASS':
                            want += [None] * min(8, size - 8 * k)      # padding: no register, any bytes
                            continue
                        src = R + (g if c == 'INTEGER' else f)
                        if c == 'INTEGER':
                            g += 8
                        else:
                            f += 16
                        want += [ev.mem.get(src + j, 0) for j in range(min(8, size - 8 * k))]
                    want_st['gp_offset'], want_st['fp_offset'] = g, f
                try:
                    res = ev.ev(expr, {'AP': Cell(st, 'ap')})
                except NotInSubset as e:
                    return 'undecided:va_arg / its walker is outside the evaluated C subset: %s' % e
                if not (isinstance(res, tuple) and res[0] == 'lvalue'):
                    return 'undecided:va_arg does not evaluate to an object (%r)' % (res,)
                x = res[1]
                got_bytes = [ev.load_byte(x, i) if want[i] is not None else None for i in range(size)]
                if got_bytes != want or st != want_st:
                    d = ', '.join('%s %#x (psABI %#x)' % (k, st[k], want_st[k]) for k in st if st[k] != want_st[k])
                    where_ = ('the register save area' if not (in_mem or gp + 8 * ngp > 48 or fp + 16 * nfp > 176) else 'the overflow area')
                    return ('at gp_offset=%d fp_offset=%d the object must be taken from %s; the fetched bytes %s%s'
                            % (gp, fp, where_, 'are right' if got_bytes == want else 'are not the argument\'s bytes', (' and the va_list is left with ' + d) if d else ''))
    return None


def r_va_walkers(P, rep):
    """the three va_arg walkers of include/stdarg.h, evaluated (sa/lib_minic.py) on a grid of va_list states and compared with the
    va_arg algorithm of psABI 3.5.7 as functions: returned address and the updated va_list"""
    from ..lib_minic import parse_functions, Eval, NotInSubset
    where = 'include/stdarg.h'
    txt = open(P.header('include/stdarg.h')).read()
    try:
        fns = parse_functions(txt, typenames=('__va_elem',))
    except NotInSubset as e:
        rep.undecided('R06.4', 'include/stdarg.h:walkers', 'the header functions are outside the evaluated C subset: %s' % e, where=where); return
    up = lambda n, a: (n + a - 1) // a * a

    def o_mem(st, sz, al):
        p = st['overflow_arg_area']
        if al > 8:
            p = up(p, 16)
        st['overflow_arg_area'] = up(p + sz, 8)
        return p

    def o_gp(st, sz, al):
        if st['gp_offset'] >= 48:
            return o_mem(st, sz, al)
        r = st['reg_save_area'] + st['gp_offset']; st['gp_offset'] += 8
        return r

    def o_fp(st, sz, al):
        if st['fp_offset'] >= 176:
            return o_mem(st, sz, al)
        r = st['reg_save_area'] + st['fp_offset']; st['fp_offset'] += 16
        return r
    SHAPES = {'__va_arg_mem': (o_mem, [(sz, al) for sz in (1, 2, 4, 8, 12, 16, 20, 24, 32, 40) for al in (1, 2, 4, 8, 16) if sz % al == 0]),
              '__va_arg_gp': (o_gp, [(1, 1), (2, 2), (4, 4), (8, 8), (8, 4), (4, 1)]),
              '__va_arg_fp': (o_fp, [(4, 4), (8, 8), (8, 4)])}
    for name, (oracle, shapes) in SHAPES.items():
        key = 'include/stdarg.h:%s:walk-equals-psabi' % name
        if name not in fns:
            rep.undecided('R06.4', key, '%s is not defined as a function in the header' % name, where=where); continue
        bad = None
        n = 0
        try:
            for sz, al in shapes:
                for gp in range(0, 56, 8):
                    for fp in range(48, 192, 16):
                        for ov in range(0x7000, 0x7000 + 32, 4 if name == '__va_arg_mem' else 8):
                            if ov % 8 and name != '__va_arg_mem':
                                continue
                            if ov % 8:
                                continue    # the overflow area pointer is always 8-byte aligned (invariant of the walk itself)
                            st0 = {'gp_offset': gp, 'fp_offset': fp, 'overflow_arg_area': ov, 'reg_save_area': 0x5000}
                            a, b = dict(st0), dict(st0)
                            got = Eval(fns).call(name, [a, sz, al])
                            want = oracle(b, sz, al)
                            n += 1
                            if (got != want or a != b) and bad is None:
                                bad = (st0, sz, al, got, a, want, b)
        except NotInSubset as e:
            rep.undecided('R06.4', key, '%s is outside the evaluated C subset: %s' % (name, e), where=where); continue
        if bad:
            st0, sz, al, got, a, want, b = bad
            diff = ', '.join('%s %#x (psABI %#x)' % (k, a[k], b[k]) for k in a if a[k] != b[k])
            msg = ('va_arg of a %d-byte type with alignment %d at gp_offset=%d fp_offset=%d overflow_arg_area=%#x: the walker returns %#x%s%s; '
                   'psABI 3.5.7 returns %#x: the argument is fetched from the wrong place and every later va_arg of the walk is displaced'
                   % (sz, al, st0['gp_offset'], st0['fp_offset'], st0['overflow_arg_area'], got, ' and leaves ' if diff else '', diff, want))
        rep.ob('R06.4', key, bad is None, msg if bad else '', where=where, facts={'states': n})


def r_helper_calls(cg, B, rep):
    """psABI 3.2.2: %rsp is 16-byte aligned at EVERY call instruction, also at the calls to run-time helpers the code generator emits by
    itself (the TLS descriptor call of -fpic code). Expressions are evaluated with `depth` 8-byte temporaries pushed, so a call emitted by
    gen_addr / gen_expr must be aligned at both parities of `depth`. Every instruction template that is a call is either the indirect call
    of ND_FUNCALL (R06.3) or must be reached by one of the explorations here (census), else the rule is undecided"""
    from ..chibi import parse_ins, stack_effect
    rep.rule('R06.12', 'every call instruction the code generator emits on its own (run-time helpers such as __tls_get_addr) is made with %rsp 16-byte aligned whatever the number of temporaries the enclosing expression has pushed', floor=2)
    cu = cg.cu
    sites = {}
    for fname, fd in cu.functions.items():
        for c in fd.calls('println'):
            fmt = c.args()[0].str_value() if c.args() else None
            if not fmt:
                continue
            ins = parse_ins(fmt.replace('%%', '%'))
            if ins and ins[0] in ('call', 'callq'):
                sites.setdefault((fname, ins[1][0] if ins[1] else '?'), c.line)
    seen = set()
    where = '%s:%d' % (U, cu.fn('gen_addr').line if cu.fn('gen_addr') else 0)
    for fpic in (0, 1):
        for tls in (0, 1):
            for depth0 in (0, 1):
                it = cg.interp()
                it.global_init['depth'] = depth0
                it.global_init['opt_fpic'] = fpic

                def mk(ctx, it=it, tls=tls):
                    it.ctx = ctx
                    v = Obj('Obj', lazy=False, label='gv')
                    v.fields.update({'name': 'gv', 'is_local': 0, 'is_tls': tls, 'ty': B.ty(it, 'int'), 'is_function': 0})
                    n = Obj('Node', lazy=False, label='var')
                    n.fields.update({'kind': B.E['ND_VAR'], 'var': v, 'ty': B.ty(it, 'int'), 'tok': Obj('Token', lazy=True, label='tok')})
                    n.meta['root'] = True
                    ctx.root = n
                    return [n]
                key = '%s:gen_addr:global%s%s' % (U, '-tls' if tls else '', '-fpic' if fpic else '')
                try:
                    rets = _one_return(it.explore('gen_addr', mk), 'gen_addr of a global variable')
                except Unknown as e:
                    rep.undecided('R06.12', key, str(e), where=where); continue
                lines = Trace(rets[0][0]).asm()
                delta = 0
                for l in lines:
                    ins = parse_ins(l)
                    if ins and ins[0] in ('call', 'callq'):
                        tgt = ins[1][0] if ins[1] else '?'
                        seen.add(('gen_addr', tgt))
                        ok = delta is not None and (8 * depth0 - delta) % 16 == 0
                        rep.ob('R06.12', key + ':call-%s/depth%d' % (tgt.split('@')[0], depth0), ok,
                               '`call %s` is emitted with %d 8-byte temporaries of the enclosing expression on the stack and %s bytes pushed by the sequence itself: %%rsp is not 16-byte aligned at the call (psABI 3.2.2); e.g. `tv + x` pushes x before the address of the thread-local tv is taken' % (tgt, depth0, -delta if delta is not None else 'an unknown number of'),
                               where=where, facts={'trace': lines})
                    r, x, known = stack_effect(l)
                    if delta is not None:
                        delta = delta + r if isinstance(r, int) else None
    for (fname, tgt), line in sorted(sites.items()):
        if tgt.startswith('*') and fname == 'gen_expr':
            continue            # the call of ND_FUNCALL: R06.3
        if (fname, tgt) not in seen:
            rep.undecided('R06.12', '%s:%s:call-%s' % (U, fname, tgt.split('@')[0]), 'an instruction template `call %s` is emitted by %s and is reached by none of the explored shapes: its stack alignment is not decided' % (tgt, fname), where='%s:%d' % (U, line))


C_KEYWORDS = set('auto break case char const continue default do double else enum extern float for goto if inline int long register restrict return short signed sizeof static struct switch typedef union unsigned void volatile while typeof __typeof__ asm'.split())


def r_header_hygiene(P, rep):
    """C11 7.1.3 / 7.16: va_start, va_arg, va_copy, va_end expand in the user's scope with the user's expressions as operands. An identifier
    of the user's name space in a macro body - declared there (it captures the same name inside the operands: `va_list klass; va_arg(klass, int)`)
    or referenced there (it depends on what the user declared) - changes the meaning of a conforming variadic function. Besides the macro's
    parameters and keywords only reserved identifiers (__x, _X) may occur"""
    from ..lib_minic import parse_macros, NotInSubset
    rep.rule('R06.13', 'the va_* macros of include/stdarg.h use, besides their parameters and keywords, only reserved identifiers: nothing they declare can capture a name in the user\'s operands', floor=3)
    where = 'include/stdarg.h'
    try:
        macros = parse_macros(open(P.header('include/stdarg.h')).read())
    except NotInSubset as e:
        rep.undecided('R06.13', 'include/stdarg.h:macros', 'the header is outside the evaluated C subset: %s' % e, where=where); return
    for name in ('va_start', 'va_arg', 'va_copy', 'va_end'):
        if name not in macros or macros[name][0] is None:
            rep.undecided('R06.13', 'include/stdarg.h:%s' % name, '%s is not a function-like macro of the header' % name, where=where); continue
        params, body = macros[name]
        bad = sorted({t[1] for t in body if t[0] == 'id' and t[1] not in params and t[1] not in C_KEYWORDS
                      and not (t[1].startswith('__') or (t[1].startswith('_') and t[1][1:2].isupper()))})
        if not bad:
            rep.ob('R06.13', 'include/stdarg.h:%s:only-reserved-identifiers' % name, True, '', where=where)
        for ident in bad:
            rep.ob('R06.13', 'include/stdarg.h:%s:non-reserved-identifier/%s' % (name, ident), False,
                   '%s uses the identifier `%s` of the user\'s name space: an operand that mentions the same name (`va_list %s; %s(%s, ...)`) is captured by / collides with the macro\'s own use' % (name, ident, ident, name, ident), where=where)


def r_callee_saved(P, rep):
    rep.rule('R06.8', 'no emitted instruction writes a callee-saved register (rbx, r12-r15); rbp/rsp are written only by the prologue/epilogue/alloca idioms', floor=1)
    cu = P.unit('codegen.c')
    bad = []
    n = 0
    saved = ('rbx', 'ebx', 'bx', 'bl', 'r12', 'r13', 'r14', 'r15')
    for fname, fd in cu.functions.items():
        for c in fd.calls('println'):
            fmt = c.args()[0].str_value() if c.args() else None
            if not fmt:
                continue
            n += 1
            for part in fmt.replace('%%', '%').split(';'):
                ins = part.strip().split(None, 1)
                if len(ins) < 2:
                    continue
                ops = [o.strip() for o in ins[1].split(',')]
                dst = ops[-1]
                if ins[0] in ('cmp', 'test', 'push', 'ucomiss', 'ucomisd') or ins[0].startswith('j') or ins[0].startswith('call'):
                    continue
                if any(re.fullmatch(r'%' + r + r'[dwb]?', dst) for r in saved):
                    bad.append((fname, c.line, part.strip()))
    for name, g in cu.globals.items():
        v = None
        for x in g.walk():
            if x.kind == 'StringLiteral':
                v = x.str_value() if hasattr(x, 'str_value') else None
                txt = x.str_value()
                if txt:
                    for part in txt.split(';'):
                        ins = part.strip().split(None, 1)
                        if len(ins) == 2:
                            dst = ins[1].split(',')[-1].strip()
                            if any(re.fullmatch(r'%' + r + r'[dwb]?', dst) for r in saved):
                                bad.append((name, x.line, part.strip()))
    rep.ob('R06.8', 'codegen.c:templates:callee-saved-registers-untouched', not bad and n > 100, 'instruction templates write callee-saved registers: %r (templates scanned: %d)' % (bad[:3], n), where='codegen.c')


def r_x87_empty_at_calls(P, rep, tier):
    """psABI 3.2.3: the x87 register stack is empty at a call. The call instruction of ND_FUNCALL itself is decided by check_call; a call that
    sits inside an operand is reached with whatever the enclosing arms hold on the x87 stack while they generate that operand: C20's effect
    system records, per arm and child, the x87 height at which the child is generated (R20.12) - zero everywhere makes the stack empty at every
    call by structural induction"""
    from ..report import Report, reissue
    from ..interp import Unsupported
    from . import c20
    where = '%s:gen_expr' % U
    sub = Report('C20')
    try:
        c20.run(P, sub, tier)
    except (AnalysisBroken, Unsupported) as e:
        rep.undecided('R06.14', '%s:gen_expr:x87-height-of-children' % U, 'the x87 accounting of the code generator cannot be interpreted: %s' % e, where=where)
        return
    n = reissue(rep, 'R06.14', sub, 'psABI 3.2.3 requires the x87 register stack to be empty at a call: ', keep=lambda o: o['rule'] == 'R20.12')
    if n < 40:
        rep.undecided('R06.14', '%s:gen_expr:x87-height-of-children' % U, 'only %d arms of gen_expr / gen_stmt / gen_addr were decided by the x87 height analysis' % n, where=where)


# declarations a redeclaration can meet: (has a parameter, ends in `...` / is `()`); chibicc writes `T f()` as no parameters + is_variadic
_PROTO_SHAPES = {'unprototyped': (0, 1), 'one-parameter': (1, 0), 'void': (0, 0), 'one-parameter-ellipsis': (1, 1)}
# (earlier declaration, new declaration): the pairs C11 6.7.6.3p15 makes compatible
# (`T f(); T f(void);` and the reverse are left out: the two types differ only in which INVALID calls are diagnosed, no argument is passed either way)
_PROTO_PAIRS = [('unprototyped', 'unprototyped'), ('unprototyped', 'one-parameter'), ('one-parameter', 'unprototyped'),
                ('one-parameter', 'one-parameter'), ('void', 'void'), ('one-parameter-ellipsis', 'one-parameter-ellipsis')]


def r_composite_prototype(P, rep):
    """C11 6.5.2.2p7 converts the arguments of a call to the parameter types of the prototype of the called function, and 6.2.7p4 makes the type of
    an identifier redeclared in the same scope the COMPOSITE of the declarations: after `long f(); long f(long x) {...}` (or a later prototype
    declaration) every call sees the parameter list. funcall() reads the type through the identifier (Obj.ty: params, is_variadic), so after
    function() has handled a redeclaration that type must carry the parameter list whenever the earlier or the new declaration has one. function()
    is interpreted on an earlier declaration x a new declaration of each shape (unprototyped, (T), (void), (T, ...)), with and without a body"""
    from ..chibi import CG
    from ..interp import Unsupported
    from .c15 import ParseEnv
    rep.rule('R06.15', 'arguments are converted to the parameter types of the visible prototype: after a redeclaration of a function the type its calls are checked and converted against '
                       '(Obj.ty as left by function()) is the composite of the declarations (C11 6.2.7p4) - it has the parameter list if the earlier or the new declaration has one', floor=12)
    PU = 'parse.c'
    pe = ParseEnv(P, CG(P))
    u = pe.u
    fd = u.fn('function')
    trec = {f for f, t, b in (u.records.get('Type') or [])}
    if fd is None or not {'params', 'is_variadic'} <= trec:
        rep.undecided('R06.15', '%s:function:anchor' % PU, 'function() or Type.params / Type.is_variadic vanished: how a declaration records its parameter list is not known', where=PU); return
    where = '%s:%d' % (PU, fd.line)
    E = u.enums

    def fin(it, v):
        v = it.settle(v) if isinstance(v, View) else v
        return int(v) if isinstance(v, bool) else v

    def mktype(label, shape):
        hasp, var = _PROTO_SHAPES[shape]
        ty = Obj('Type', lazy=True, label=label)
        ty.fields.update({'kind': E['TY_FUNC'], 'name': Obj('Token', lazy=True, label=label + '.name'), 'is_variadic': var,
                          'params': Obj('Type', lazy=True, label=label + '.params') if hasp else 0})
        ty.fields['params'] and ty.fields['params'].fields.update({'next': 0})
        ty.meta['cat'] = 'func'
        return ty

    for old_s, new_s in _PROTO_PAIRS:
        for isdef, olddef in ((0, 0), (0, 1), (1, 0)):
            # a definition `T f() {...}` has no parameters: it is compatible with (void) and () only (6.7.6.3p15: the number of parameters agrees)
            if (olddef and old_s == 'unprototyped' and new_s == 'one-parameter') or (isdef and new_s == 'unprototyped' and old_s == 'one-parameter'):
                continue
            key = '%s:function:redeclaration/%s%s-then-%s%s' % (PU, old_s, '-definition' if olddef else '', new_s, '-definition' if isdef else '')

            def h_find(it, ctx, n, args):
                return ctx.c06_old

            def h_equal(it, ctx, n, args, isdef=isdef):
                if args[0] is ctx.c06_tok and args[1] == '{':
                    return isdef
                if args[0] is ctx.c06_tok and isinstance(args[1], str):
                    return 0
                return View(_Cell([0, 1], ctx.fresh('equal')))

            def h_consume(it, ctx, n, args, isdef=isdef):
                if args[2] == ';':
                    return 0 if isdef else 1
                return View(_Cell([0, 1], ctx.fresh('consume')))

            def h_decl(it, ctx, n, args):
                return ctx.c06_new

            def h_body(it, ctx, n, args):
                return Obj('Node', lazy=True, label='body')
            try:
                it = pe.interp(('function', 'new_gvar', 'new_var'), opaque=('create_param_lvars', 'resolve_goto_labels'),
                               cut={'find_func': h_find, 'equal': h_equal, 'consume': h_consume, 'declarator': h_decl, 'compound_stmt': h_body},
                               globals_={'current_fn': lambda ctx: ctx.c06_cf0})

                def mk(ctx, old_s=old_s, new_s=new_s, isdef=isdef, olddef=olddef):
                    ctx.c06_tok = Obj('Token', lazy=True, label='tok')
                    ctx.c06_oldty = mktype('earlier-type', old_s)
                    ctx.c06_new = mktype('new-type', new_s)
                    o = Obj('Obj', lazy=True, label='earlier-declaration')
                    o.fields.update({'is_function': 1, 'is_definition': olddef, 'is_static': 0, 'is_inline': 0, 'is_inline_only': 0, 'is_root': 1, 'is_live': 0, 'ty': ctx.c06_oldty})
                    ctx.c06_old = o
                    ctx.c06_cf0 = 0 if isdef else View(_Cell([0, Obj('Obj', lazy=True, label='enclosing-function')], ctx.fresh('scope')))
                    a = Obj('VarAttr', lazy=True, label='attr')
                    a.fields.update({'is_static': 0, 'is_inline': 0, 'is_extern': 0, 'is_typedef': 0, 'is_tls': 0})
                    return [ctx.c06_tok, Obj('Type', lazy=True, label='basety'), a]
                res = it.explore('function', mk, max_paths=400)
            except (AnalysisBroken, Unsupported) as e:
                rep.undecided('R06.15', key, 'function() is not interpretable on a redeclaration: %s' % e, where=where); continue
            rets = [(c, o) for c, o in res if o[0] == 'ret']
            if not rets:
                rep.undecided('R06.15', key, 'function() accepts this compatible redeclaration on no path (%r)' % ([o[:2] for c, o in res][:2],), where=where); continue
            bad = und = None
            for ctx, out in rets:
                f = ctx.c06_old
                ty = fin(it, f.fields.get('ty'))
                if not isinstance(ty, Obj):
                    und = 'the type of the function object after the redeclaration is %r' % (ty,); continue
                pr = fin(it, ty.fields.get('params', 0)); var = fin(it, ty.fields.get('is_variadic', 0))
                oldp, newp = ctx.c06_oldty.fields['params'], ctx.c06_new.fields['params']
                oldv, newv = ctx.c06_oldty.fields['is_variadic'], ctx.c06_new.fields['is_variadic']
                if old_s == 'unprototyped':
                    want = [(newp, newv)]
                elif new_s == 'unprototyped':
                    want = [(oldp, oldv)]
                else:
                    want = [(oldp, oldv), (newp, newv)]
                if not isinstance(var, int) or not (isinstance(pr, Obj) or pr == 0):
                    und = 'params / is_variadic of the function type are %r / %r after the redeclaration' % (pr, var); continue
                if any(pr is wp and var == wv for wp, wv in want):
                    continue
                if isinstance(pr, Obj) and pr is not oldp and pr is not newp:
                    und = 'the parameter list after the redeclaration is an object of neither declaration (%r)' % (pr,); continue
                had = 'no parameter list' if pr == 0 and var else ('the parameter list (void)' if pr == 0 else 'a parameter list')
                bad = ('after `T f%s%s` follows `T f%s%s`: the type calls of f are checked and converted against has %s%s afterwards; C11 6.2.7p4: the composite type has the parameter list of the %s declaration. '
                       'Arguments of later calls are not converted to the parameter type (`long f(); long f(long x) {...} f(2.5)` passes 2.5 in %%xmm0, the callee reads %%rdi), or calls the prototype allows are rejected / calls it forbids accepted'
                       % (_shape_doc(old_s), ' {...}' if olddef else ';', _shape_doc(new_s), ' {...}' if isdef else ';', had, ' and `...`' if pr != 0 and var else '', 'new' if old_s == 'unprototyped' else 'earlier'))
            if bad is None and und is not None:
                rep.undecided('R06.15', key, und, where=where); continue
            rep.ob('R06.15', key + ':type-is-composite', bad is None, bad or '', where=where, facts={'earlier': old_s, 'new': new_s, 'paths': len(rets)})


def _shape_doc(s):
    return {'unprototyped': '()', 'one-parameter': '(long)', 'void': '(void)', 'one-parameter-ellipsis': '(long, ...)'}[s]


def run(P, rep, tier):
    cg = wrap(CG(P))
    B = Builder(P)
    rep.explanation = ('The calling convention is decided over the domain the property quantifies over: argument class (INTEGER, SSE, X87, MEMORY, every mixed two-eightbyte aggregate shape) x '
                       'position relative to register exhaustion (0..7 INTEGER, 0..9 SSE registers already used) x stack parity. For each cell the code generator is interpreted on a concrete call node, '
                       'the emitted sequence is evaluated by the term machine up to the call instruction, and the location of every argument byte is compared with an independent psABI 3.2.3 oracle.')
    rep.explanation += (' The x87 register stack is empty at every call: at the call instruction of each call cell, and (C20 effect system, re-issued) no arm generates a child with a value of its own pending on it.'
                        ' function() is interpreted on every compatible pair (earlier declaration, redeclaration) of prototype shapes: the type calls are converted against is the composite.')
    rep.assumptions += ['psABI x86-64 1.0 section 3.2.3 as transcribed in sa/lib_abi.py', 'gen_expr of each argument satisfies its contract', 'aggregate shapes: the flat, nested (member structs, arrays, arrays of structs, multi-dimensional arrays), union, padding-eightbyte and packed layouts of sa/lib_abi.py STRUCTS']
    rep.rule('R06.14', 'the x87 register stack is empty at every call instruction (psABI 3.2.3: empty on function entry; a callee may use all eight registers and returns a long double in %st(0)): '
                       'at the call of ND_FUNCALL for every argument class, and no arm of gen_expr / gen_stmt / gen_addr keeps a value of its own on the x87 stack while one of its children - which may '
                       'contain a call - is generated (same obligations as C20 R20.12)', floor=100)
    r_caller(cg, B, rep, tier)
    r_callee(cg, B, rep, tier)
    r_returns(cg, B, rep)
    r_variadic(cg, B, rep, P)
    r_variadic_named(cg, B, rep)
    r_va_walkers(P, rep)
    r_reg_class(P, B, rep)
    # psABI 3.2.1: the x87 control word is callee-saved. The only code that changes it is the long double -> integer conversion family.
    from ..report import Report, reissue
    from . import c01
    rep.rule('R06.9', 'the x87 control word is preserved across every function: each long double -> integer conversion restores the word it saved (same obligations as C02 R02.1 for the long double source row)', floor=8)
    sub = Report('C02')
    sub.rule('R02.1', '', 1)
    c01.r015(cg, sub, 'fp')
    reissue(rep, 'R06.9', sub, 'a caller\'s rounding mode would be changed by the call: ', keep=lambda o: ':cast:ldouble->' in o['key'])
    r_callee_saved(P, rep)
    r_helper_calls(cg, B, rep)
    r_header_hygiene(P, rep)
    r_x87_empty_at_calls(P, rep, tier)
    r_composite_prototype(P, rep)
    # C11 6.5.2.2p7 / psABI: the callee reads a parameter in the representation of the PARAMETER type, so the caller must have converted the
    # argument (a char passed for a _Bool must arrive as 0/1, a float passed to `...` as a double): lib_exprparse's funcall rules, re-used
    from ..lib_exprparse import r_conversion_sites
    rep.rule('R06.10', 'every argument is converted to the type of its parameter before it is passed (also between integer types of one size, e.g. char -> _Bool), variadic float arguments are promoted to double (same obligations as C01 R01.4 for funcall)', floor=6)
    sub = Report('C01')
    sub.rule('R01.4', '', 1)
    r_conversion_sites(P, sub, 'R01.4')
    reissue(rep, 'R06.10', sub, 'the callee would read the argument in another representation than the caller passes: ', keep=lambda o: ':funcall:' in o['key'])
