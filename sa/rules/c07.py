"""C07 Translation-time constant evaluation equals run-time evaluation (DESIGN.md section 3, C07).

Rules (keys are rule:unit:function:construct):
  R07.1 folder vs gen_expr: same signed/unsigned choice per operand type for / % >> < <=
  R07.2 results of 64-bit host arithmetic reduced to node->ty (u32 arms; every ND_CAST target class)
  R07.3 mixed-sign conditional widened afterwards (typed pattern, all units)
  R07.4 zero divisor tested and diagnosed before every integer host / and %
  R07.5 is_const_expr <-> eval2 and every helper predicate mutually recursive with it (is_const_lvalue) <-> the folder its operand goes to (eval_rval; the
        pairing is inferred from the arms): a kind accepted under a class of node types is folded without a relocation for every type of that class,
        foldable arithmetic kinds are accepted for every type class, every operand the folder evaluates was required constant by the predicate of its folder
  R07.6 operands that may be floating never go through the integer folder unguarded (eval2 and eval_double)
  R07.7 consumers: no narrow intermediate that is widened again; const_expr returns the value unchanged;
        shifts by bit_width/bit_offset are 64-bit (all units); case labels: see R03.2
  R07.8 operator table of eval2 / eval_double, type dispatch between the two, eval_double's ND_CAST; a returning path that the
        path condition pins to one operand value (`if (rhs == -1) return -lhs;`) is judged as a function of the free operand
        against the operator on that value (modulo 2^64, in the signedness the path established); both operands still folded
  R07.9 operands that run-time evaluation does not evaluate (unselected arm of ?:, right operand of a decided && / ||)
        are not folded either (eval2, eval_double); is_const_expr folds an operand only after it was found constant
  R07.10 relocation out-parameter of eval2 / eval_rval: written at most once per evaluation, by the operand that
        can denote the address, whose value enters the result additively; never through a null pointer
  R07.11 environment of the defining constant expression: a scope entry (the record an identifier's constant value is
        read from) is complete before any call that can resolve identifiers runs; no path creates the entry, parses /
        folds an expression and writes the entry afterwards (an enumerator is not visible in its own definition)
  R07.12 consumers of the folder in static initializers (write_gvar_data, eval_truth): the folded value reaches the object converted to
        the object's type as an assignment at run time converts it: every scalar class stored with its own width and representation,
        a _Bool object / _Bool bit-field receives `value != 0` (not the low byte / low bits), a bit-field is merged masked and in 64 bits
        (the obligations of C05 R05.2 / R05.4 on the static back end, re-issued: they state this clause of C07 too)
  R07.13 precision of the floating folder: per arm of eval_double and per floating node type the returned value is the run-time value
        of the node: operands are not rounded below their type, + - * / are carried out in the node's type (or in a format of at least
        2p+2 digits and then rounded once to the node's type, which is exact), a cast / a literal is rounded exactly once, directly to
        the node's type, values passed through (?: , unary -) are not rounded again, and the return type of eval_double holds every
        floating type of the catalogue
  R07.14 address constants in static initializers: the label + addend the folder produced reaches the emitted image at the position of the sub-object
        it initialises: relocation created at the element offset; every relocation created for a copied image (struct initialised by a compound literal
        of its own type) is a fresh record displaced by the position of the copy; cursor threaded in image order; emit_data prints label+addend at the
        relocation's offset (the obligations of C05 R05.1 image-copy / R05.3 / R05.5 / R05.7, re-issued: they state this clause of C07 too)
  R07.15 a floating value converted to an integer type by the folder (operand of ND_CAST; floating initializer of a static integer object) goes through a
        host conversion whose target holds every value of the destination that the path condition admits (unsigned 64-bit: not through int64_t)
  R07.16 a consumer that puts the folded 64-bit value into a narrower object that outlives the expression (record field, argument, store through a pointer)
        has compared the 64-bit value with bounds inside the narrower type and diagnosed before (C11 6.7.2.2p2, 6.7.2.1p4, 6.7.5p3, 6.7.6.2p1, 6.7.9p6)
  R07.17 every consumer of eval_double (typed def-use relation from each call outside the folder's own arms, through locals, parameters, helpers and return
        values): the value is held only in host floating types that keep all 64 digits until the single conversion to the type of the object it is stored in,
        and is not rounded before a comparison / truth test / integer conversion / arithmetic
  (R07.5 also: the operands run-time evaluation always evaluates - left operand of the comma operator included - are required constant by is_const_expr)

The folder (parse.c eval2 / eval_double / is_const_expr) is summarised once per
node kind by a path-splitting symbolic executor (sa/lib_c07.py) that keeps, for
every host operation, the C type clang computed for it.  The rules compare those
summaries with (a) the operator each node kind denotes, (b) the code generator's
choice of signed/unsigned instruction for the same kind (summarised the same way
from codegen.c gen_expr), (c) the typing relation established by add_type.
Nothing is compiled or run.
"""
from ..build import AnalysisBroken
from ..chibi import Catalogue
from ..lib_c07_env import EntryFlow, table_model, reaching
from ..lib_c07 import (SymExec, TypeFacts, Unsupported, pred_tables, show, tshow, strip_casts, strip_widening, walk,
                       chain_signature, oracle_signature, ctype, WITNESS, wrap, cdiv, I64)

U = 'parse.c'
NODE = ('sym', 'node')
LABEL = ('sym', 'label')
FOLD = ('eval2', 'eval_double', 'eval_rval', 'is_const_expr')
INT_FOLD = ('eval2', 'eval_rval')
EVALUATORS = ('eval2', 'eval_double', 'eval_rval')

BINOPS = {'ND_ADD': '+', 'ND_SUB': '-', 'ND_MUL': '*', 'ND_DIV': '/', 'ND_MOD': '%', 'ND_BITAND': '&', 'ND_BITOR': '|',
          'ND_BITXOR': '^', 'ND_SHL': '<<', 'ND_SHR': '>>', 'ND_EQ': '==', 'ND_NE': '!=', 'ND_LT': '<', 'ND_LE': '<='}
COMMUTATIVE = ('+', '*', '&', '|', '^', '==', '!=')
UNOPS = {'ND_NEG': '-', 'ND_BITNOT': '~'}
TRUTH = ('ND_NOT', 'ND_LOGAND', 'ND_LOGOR')
DBL_BINOPS = {'ND_ADD': '+', 'ND_SUB': '-', 'ND_MUL': '*', 'ND_DIV': '/'}
SIGNED_CHOICE = ('ND_DIV', 'ND_MOD', 'ND_SHR', 'ND_LT', 'ND_LE')
# which children may have floating type although the node has integer type / when the node has floating type
# (typing relation of add_type, proved by R01.2): comparisons and logical operators take any scalar operands,
# the condition of ?: is any scalar; arithmetic children share the node's type.
FLOATABLE_INT_NODE = {'ND_EQ': ('lhs', 'rhs'), 'ND_NE': ('lhs', 'rhs'), 'ND_LT': ('lhs', 'rhs'), 'ND_LE': ('lhs', 'rhs'),
                      'ND_NOT': ('lhs',), 'ND_LOGAND': ('lhs', 'rhs'), 'ND_LOGOR': ('lhs', 'rhs'), 'ND_COND': ('cond',),
                      'ND_CAST': ('lhs',)}      # ND_CAST: only when the target is _Bool (see r076)
FLOATABLE_FLO_NODE = {'ND_ADD': ('lhs', 'rhs'), 'ND_SUB': ('lhs', 'rhs'), 'ND_MUL': ('lhs', 'rhs'), 'ND_DIV': ('lhs', 'rhs'),
                      'ND_NEG': ('lhs',), 'ND_COND': ('cond', 'then', 'els'), 'ND_COMMA': ('rhs',), 'ND_CAST': ('lhs',)}
# kinds whose 64-bit host result can leave the range of a 32-bit unsigned node type although the operands are in range
NEED_REDUCTION = ('ND_ADD', 'ND_SUB', 'ND_MUL', 'ND_NEG', 'ND_BITNOT', 'ND_SHL')
UNSIGNED_INSN = ('div', 'shr', 'setb', 'setbe', 'seta', 'setae')
SIGNED_INSN = ('idiv', 'sar', 'setl', 'setle', 'setg', 'setge')


def child(c):
    return ('fld', NODE, c)


def ty_of(n):
    return ('fld', n, 'ty')


def as_rec(v):
    """v = conversions(call folder(node->child, ...)) -> (folder fn, child name, call value) or None"""
    c = strip_casts(v)
    if c[0] == 'call' and c[1] in FOLD and c[2]:
        a = c[2][0]
        if a[0] == 'fld' and a[1] == NODE:
            return c[1], a[2], c
        if a == NODE:
            return c[1], '', c
    return None


def cls_of(rec, tk):
    """type class name of a catalogue record: bool, s8..u64, ptr, float.."""
    if rec['kind'] == tk['TY_BOOL']:
        return 'bool'
    if rec['kind'] == tk['TY_PTR']:
        return 'ptr'
    if rec['kind'] in (tk['TY_FLOAT'], tk['TY_DOUBLE'], tk['TY_LDOUBLE']):
        return {tk['TY_FLOAT']: 'float', tk['TY_DOUBLE']: 'double', tk['TY_LDOUBLE']: 'ldouble'}[rec['kind']]
    return '%s%d' % ('u' if rec['is_unsigned'] else 's', rec['size'] * 8)


class Folder:
    """summaries of the folder functions, per node kind, cached"""

    def __init__(self, P):
        self.P = P
        self.u = P.unit(U)
        for f in ('eval', 'eval2', 'eval_double', 'is_const_expr', 'const_expr'):
            if f not in self.u.functions:
                raise AnalysisBroken('anchor function %s vanished from %s' % (f, U))
        names = self.u.enum_types.get('NodeKind')
        if not names:
            raise AnalysisBroken('enum NodeKind vanished')
        self.kinds = names
        self.E = self.u.enums
        self.cache = {}
        cat = Catalogue(P)
        self.tk = P.unit('type.c').enums
        self.trec = {}
        for name, f in cat.entries():
            r = dict(f)
            r['base'] = 0 if r.get('base') in (0, None) else 1
            if all(isinstance(r[k], (int, bool)) for k in ('kind', 'size', 'is_unsigned')):
                self.trec[name] = r
        for need in ('bool', 'char', 'uchar', 'short', 'ushort', 'int', 'uint', 'long', 'ulong', 'enum', 'ptr', 'float', 'double', 'ldouble'):
            if need not in self.trec:
                raise AnalysisBroken('type catalogue lacks %s' % need)
        self.preds = pred_tables(P)
        for need in ('is_integer', 'is_flonum'):
            if need not in self.preds:
                raise AnalysisBroken('type.c:%s vanished' % need)
        if 'TY_ARRAY' in self.tk and 'array' not in self.trec:
            # the class of array types (an lvalue of array type stands for an address): only its kind is looked at
            self.trec['array'] = {'kind': self.tk['TY_ARRAY'], 'size': 8, 'is_unsigned': 0, 'base': 1, 'align': 1}
        self.acceptors = self._acceptors()

    def _callees(self, fname):
        fd = self.u.functions.get(fname)
        if fd is None:
            return set()
        return set(c.callee() for c in fd.walk() if c.kind == 'CallExpr' and c.callee() in self.u.functions)

    def _reach(self, fname):
        """functions reachable from fname by calls that do not pass through the evaluators"""
        seen = set(); st = [fname]
        while st:
            f = st.pop()
            for g in self._callees(f):
                if g not in seen:
                    seen.add(g)
                    if g not in EVALUATORS:
                        st.append(g)
        return seen

    def _acceptors(self):
        """is_const_expr and the helpers it is mutually recursive with (the constant-ness predicate of lvalues): each is summarised per
        node kind on its own, a call of one from another is kept as an atom (the recursion is cut by contract: structural induction)"""
        out = ['is_const_expr']
        for f in sorted(self._reach('is_const_expr')):
            if f != 'is_const_expr' and f not in EVALUATORS and ('is_const_expr' in self._reach(f) or f in self._reach(f)):
                out.append(f)      # mutually recursive with is_const_expr, or a recursive helper of it
        return tuple(out)

    def paths(self, fname, kind, label=LABEL):
        key = (fname, kind, label)
        if key not in self.cache:
            kv = self.E[kind]

            def hook(base, f):
                if base == NODE and f == 'kind':
                    return ('int', kv)
                return None
            ex = SymExec(self.P, self.u, opaque=FOLD + tuple(self.acceptors), field_hook=hook)
            try:
                args = [NODE, label] if fname in ('eval2', 'eval_rval') else [NODE]
                self.cache[key] = ex.run(fname, args)
            except Unsupported as e:
                self.cache[key] = e
        r = self.cache[key]
        if isinstance(r, Unsupported):
            raise r
        return r

    def facts(self, **types):
        """TypeFacts with node/lhs/rhs/... bound to catalogue type names"""
        m = {}
        for who, tname in types.items():
            m[NODE if who == 'node' else child(who)] = self.trec[tname]
        return TypeFacts(m, self.preds)

    INTLIKE = ('bool', 'char', 'uchar', 'short', 'ushort', 'int', 'uint', 'long', 'ulong', 'enum', 'ptr')
    FLOLIKE = ('float', 'double', 'ldouble')

    def _consistent(self, p, tnames):
        for t in tnames:
            if self.facts(node=t).select([p]):
                return True
        return False

    def int_paths(self, kind, label=LABEL):
        """eval2 paths that an integer- or pointer-typed node can take (decided by evaluating the
        path's guards on node->ty under every such type of the catalogue)"""
        return [p for p in self.paths('eval2', kind, label) if self._consistent(p, self.INTLIKE)]

    def flo_paths(self, kind):
        """eval_double paths that a floating-typed node can take"""
        return [p for p in self.paths('eval_double', kind) if self._consistent(p, self.FLOLIKE)]

    def admitted(self, kind):
        """node types the typing relation admits for a kind (arithmetic results are never _Bool)"""
        if kind in BINOPS or kind in UNOPS or kind in TRUTH:
            return tuple(t for t in self.INTLIKE if t != 'bool')
        return self.INTLIKE


def line_of_kind(u, fname, kv):
    """line of the case label / comparison that names the kind in fname (for reports only)"""
    fn = u.fn(fname)
    for n in fn.walk():
        if n.kind == 'CaseStmt':
            v = None
            for x in n.inner[0].walk():
                if x.kind == 'ConstantExpr' and x.value is not None:
                    v = int(x.value); break
            if v is None:
                v = n.inner[0].int_value()
            if v == kv:
                sw = n.enclosing('SwitchStmt')
                if sw is not None and sw.inner[0].src().endswith('->kind'):
                    return n.line
        elif n.kind == 'BinaryOperator' and n.opcode == '==' and n.inner[0].src().endswith('->kind') and n.inner[1].int_value() == kv:
            return n.line
    return fn.line


def run(P, rep, tier):
    F = Folder(P)
    u = F.u
    rep.explanation = ('The constant folder is summarised per node kind by symbolic execution of its own source with clang\'s types kept on every host '
                       'operation and conversion; the summaries are compared with the operator each kind denotes (R07.8), with the code generator\'s '
                       'signed/unsigned instruction choice for the same kind over the complete catalogue of integer types (R07.1), with the reduction '
                       'to the node type that 64-bit host arithmetic needs (R07.2), with zero-divisor diagnosis (R07.4), with is_const_expr (R07.5) and '
                       'with the typing relation for floating operands (R07.6); typed patterns over all units find mixed-sign conditionals (R07.3) and '
                       'narrowing between the folder and its consumers (R07.7). Per path of each arm the set of operands handed to the folder is compared with the operands '
                       'run-time evaluation evaluates (R07.9: unselected arm of ?:, right operand of a decided && ||), and the writes of the relocation '
                       'out-parameter are counted and matched with the operand that can denote an address and with its coefficient in the result (R07.10). '
                       'The floating folder is judged per arm and per floating node type for the format in which each value is exact: operands not rounded below their type, + - * / carried out '
                       'in the node\'s type (or wide enough for the second rounding to be exact), casts and literals rounded exactly once to the node\'s type, return type wide enough (R07.13). '
                       'The static-initializer back end, which converts the folded value to the object\'s type, is covered by the obligations of C05 R05.2/R05.4 re-issued as R07.12; '
                       'the way of an address constant (label + addend) from the folder into the image - relocation records created, copied with a compound literal\'s image and displaced by the '
                       'position of the copy, threaded, emitted - by those of C05 R05.1/R05.3/R05.5/R05.7 re-issued as R07.14. Conversions of a floating value to an integer type inside the folder '
                       'and at the static back end are judged for the range of the host type they go through (R07.15). '
                       'Every call of eval_double outside the folder\'s own arms is followed along the typed def-use relation (conversions, locals, parameters, helpers, return values) to the store / '
                       'comparison / truth test / integer conversion it ends in: at most one rounding, directly to the type of the object stored, none before a comparison or conversion (R07.17). '
                       'R07.10 also demands that both operands of + can carry the symbol of an address constant (the second only when the first left the slot empty) and that an operand whose truth value '
                       'is taken is folded with some slot where address constants are allowed. '
                       'Equality of values for whole expressions is the consequence by '
                       'structural induction and is not decided here.')
    rep.assumptions += ['typing relation of each kind as produced by add_type (R01.2)',
                        'children satisfy the induction hypothesis: eval of a child returns its value sign/zero-extended from the child type to 64 bits',
                        'eval/eval2/eval_double/is_const_expr are pure (add_type is idempotent)',
                        'signed overflow in a constant expression is undefined: no reduction is demanded for signed node types',
                        'an address constant reaches the folder with the pointer operand in lhs of + and - (new_add/new_sub canonical form)',
                        'R07.13: the host compiles float / double / long double as IEEE binary32 / binary64 / x87 extended (24 / 53 / 64 digits) with FLT_EVAL_METHOD 0 and round-to-nearest, '
                        'the same formats the generated code uses; the operands of a floating + - * / and the arms of ?: have the node\'s type (usual arithmetic conversions, R01.2); '
                        'rounding the result of one + - * / carried out with at least 2p+2 digits to p digits equals the operation carried out with p digits (Figueroa 1995)']
    r078(F, rep)
    r072(F, rep)
    r071(F, P, rep)
    r074(F, rep)
    r075(F, rep)
    r076(F, rep)
    r073(P, rep)
    r077(F, P, rep)
    r0716(F, P, rep)
    r079(F, rep)
    r0710(F, rep)
    r0710_truth(F, rep)
    r0711(F, rep)
    r0713(F, P, rep)
    r0715(F, rep)
    r0717(F, P, rep)
    r0718(F, P, rep)
    back = _static_back_end(P, tier)
    r0712(P, rep, tier, back)
    r0714(P, rep, tier, back)


# ----------------------------------------------------------------- R07.18 ---
def r0718(F, P, rep):
    from .. import lib_c07_case
    rep.rule('R07.18', 'a case label (and the end of a case range) reaches Node.begin / Node.end as the folder\'s value converted, if at all, to a type of at least int\'s size '
                       '(C11 6.8.4.2p5: the promoted type of the controlling expression; the generated switch compares in a register of at least 32 bits): no conversion node of a '
                       'type that may be char / short / _Bool is put around the constant before it is folded, no integral conversion below 32 bits lies between the folder and the field, '
                       'and the code generator reads the fields as 64-bit values', floor=3)
    sizes = {}
    for name, r in F.trec.items():
        if isinstance(r.get('size'), int) and not isinstance(r.get('size'), bool):
            sizes['ty_' + name] = r['size']
    lib_c07_case.run_rule(P, rep, 'R07.18', ctype, tshow, sizes)


# ------------------------------------------------------------------ R07.8 ---
def _core(v):
    """value under its conversions; the chain of conversions (inner first).  `x != 0` counts as the
    conversion of x to _Bool (that is how a reduction to a _Bool node type is written)"""
    chain = []
    while True:
        if v[0] == 'cast':
            chain.append((v[1], v[2])); v = v[3]
        elif v[0] == 'bin' and v[1] == '!=' and _is_zero(v[3]) and v[4][0] in ('i', 'b', 'f'):
            chain.append((('b',), v[4])); v = v[2]      # also a floating value compared with 0.0: C11 6.3.1.2
        else:
            break
    chain.reverse()
    return v, chain


def _chain_is_wide(chain, floating=False):
    """no conversion of the chain narrows below 64 bits.  In the floating folder only a conversion to an integer type counts here: whether a
    conversion between floating formats is the rounding the node's own type demands (or one too many / too narrow) is decided per node type by R07.13"""
    for to, frm in chain:
        if floating:
            if to[0] in ('i', 'b'):
                return False
        else:
            if to[0] == 'b' or (to[0] == 'i' and to[1] < 64) or to[0] == 'f':
                return False
    return True


def _outer_ok(F, p, chain, floating):
    """the conversions applied to a passed-through value keep it: none narrows, or (integer folder) the
    narrowing is exactly the reduction to the node's own type for every node type the path admits"""
    if _chain_is_wide(chain, floating):
        return True
    if floating or any(to[0] not in ('i', 'b') for to, frm in chain):
        return False
    sig = chain_signature(chain)
    ident = oracle_signature(64, True)
    seen = False
    for t in F.INTLIKE:
        if not F.facts(node=t).select([p]):
            continue
        seen = True
        rec = F.trec[t]
        want = oracle_signature(rec['size'] * 8, not rec['is_unsigned'], boolean=(t == 'bool')) if t != 'ptr' else ident
        if sig != want and sig != ident:
            return False
    return seen


def r078(F, rep):
    u = F.u
    rep.rule('R07.8', 'each arm of eval2/eval_double applies the host operator its node kind denotes to the folded lhs and rhs in that order; '
                      '?: selects by the condition, comma yields the right operand, a literal yields its stored value', floor=30)

    F.bad78 = set()

    def ob(fname, kind, construct, ok, what, p=None, facts=None):
        if not ok:
            F.bad78.add((fname, kind))
        if ok is None:
            rep.undecided('R07.8', '%s:%s:%s/%s' % (U, fname, kind, construct), what, where='%s:%d' % (U, line_of_kind(u, fname, F.E[kind])))
            return
        rep.ob('R07.8', '%s:%s:%s/%s' % (U, fname, kind, construct), ok, '%s of %s: %s' % (fname, kind, what),
               where='%s:%d' % (U, line_of_kind(u, fname, F.E[kind])), facts=facts)

    # eval2 dispatches floating nodes to eval_double, eval_double integer nodes to eval2
    try:
        ok = True; bad = ''
        for kind in ('ND_NUM', 'ND_ADD', 'ND_CAST'):
            ps = F.paths('eval2', kind)
            for t in F.FLOLIKE:
                sel = F.facts(node=t).select(ps)
                if not sel:
                    ok = False; bad = 'no path for a %s node of type %s' % (kind, t)
                for p in sel:
                    r = as_rec(p.outcome[1]) if p.outcome[0] == 'ret' else None
                    if not r or r[:2] != ('eval_double', ''):
                        ok = False
                        bad = 'a %s node of type %s is %s' % (kind, t, ('folded as ' + show(p.outcome[1])) if p.outcome[0] == 'ret' else 'rejected')
        rep.ob('R07.8', '%s:eval2:floating-node-goes-to-eval_double' % U, ok,
               'eval2 does not hand every node of floating type to eval_double(node) (%s): a floating constant would be folded with integer arithmetic' % bad,
               where='%s:%d' % (U, u.fn('eval2').line))
        ps = F.paths('eval_double', 'ND_NUM') + F.paths('eval_double', 'ND_ADD')
        ok = True
        bad = ''
        for t in ('int', 'uint', 'long', 'ulong', 'char', 'uchar', 'short', 'ushort', 'bool', 'enum'):
            sel = F.facts(node=t).select(ps)
            if not sel:
                ok = False; bad = 'no path for an integer node of type %s' % t
            for p in sel:
                r = as_rec(p.outcome[1]) if p.outcome[0] == 'ret' else None
                if not r or r[0] not in INT_FOLD or r[1] != '':
                    ok = False; bad = 'integer node of type %s is not folded by eval(node)' % t; continue
                core, chain = _core(p.outcome[1])
                # the conversion to double must read the 64-bit value with the node's signedness
                src = None
                for to, frm in chain:
                    if to[0] == 'f':
                        src = frm; break
                    if to[0] == 'b' or (to[0] == 'i' and to[1] < 64):
                        src = ('narrow',); break
                want_unsigned = bool(F.trec[t]['is_unsigned']) and F.trec[t]['size'] == 8
                if src is None or src[0] != 'i' or src[1] != 64 or (want_unsigned and src[2]):
                    ok = False; bad = 'integer node of type %s is converted to double from %s' % (t, tshow(src) if src and src[0] != 'narrow' else 'a narrowed value')
        rep.ob('R07.8', '%s:eval_double:integer-node-goes-to-eval' % U, ok,
               'eval_double on a node of integer type: %s' % bad, where='%s:%d' % (U, u.fn('eval_double').line))
    except Unsupported as e:
        rep.undecided('R07.8', '%s:eval2:dispatch' % U, 'cannot summarise the type dispatch of the folder: %s' % e)

    for fname in ('eval2', 'eval_double'):
        floating = fname == 'eval_double'
        for kind in F.kinds:
            binop = (DBL_BINOPS if floating else BINOPS).get(kind)
            unop = {'ND_NEG': '-'}.get(kind) if floating else UNOPS.get(kind)
            special = kind in ('ND_COND', 'ND_COMMA', 'ND_NUM') or (kind in TRUTH and not floating)
            if not (binop or unop or special):
                continue
            try:
                ps = F.flo_paths(kind) if floating else F.int_paths(kind)
            except Unsupported as e:
                rep.undecided('R07.8', '%s:%s:%s' % (U, fname, kind), 'cannot summarise: %s' % e)
                continue
            rets = [p for p in ps if p.outcome[0] == 'ret' and (floating or F._consistent(p, F.admitted(kind)))]
            if not rets:
                # no arm: for the integer folder every operator must be foldable; the floating folder may refuse
                if not floating or kind in DBL_BINOPS or kind in ('ND_NEG', 'ND_COND', 'ND_COMMA', 'ND_NUM'):
                    ob(fname, kind, 'arm', False, 'the folder has no arm for this operator: a constant expression using it is rejected')
                continue
            if binop:
                _check_binop(F, ob, fname, kind, binop, rets, floating)
            elif unop:
                _check_unop(F, ob, fname, kind, unop, rets, floating)
            elif kind in TRUTH:
                _check_truth(F, ob, fname, kind, rets)
            elif kind == 'ND_COND':
                _check_cond(F, ob, fname, kind, rets, floating)
            elif kind == 'ND_COMMA':
                good = True; msg = ''
                for p in rets:
                    core, chain = _core(p.outcome[1])
                    r = as_rec(core)
                    if not r or r[1] != 'rhs':
                        good = False; msg = 'the value is %s, not the folded right operand' % show(p.outcome[1])
                    elif not _outer_ok(F, p, chain, floating):
                        good = False; msg = 'the right operand\'s value is narrowed: %s' % show(p.outcome[1])
                ob(fname, kind, 'yields-rhs', good, msg)
            elif kind == 'ND_NUM':
                want = 'fval' if floating else 'val'
                good = True; msg = ''
                for p in rets:
                    core, chain = _core(p.outcome[1])
                    if core != ('fld', NODE, want):
                        good = False; msg = 'the value is %s, not node->%s' % (show(p.outcome[1]), want)
                    elif not _outer_ok(F, p, chain, floating):
                        good = False; msg = 'the literal\'s value is narrowed: %s' % show(p.outcome[1])
                ob(fname, kind, 'yields-literal', good, msg)
    _check_dbl_cast(F, ob)


def _check_dbl_cast(F, ob):
    """eval_double of ND_CAST: the operand's value converted to double with the operand's own signedness"""
    kind = 'ND_CAST'
    try:
        ps = [p for p in F.flo_paths(kind) if p.outcome[0] == 'ret']
    except Unsupported as e:
        ob('eval_double', kind, 'converts-operand', None, 'cannot summarise: %s' % e)
        return
    if not ps:
        ob('eval_double', kind, 'arm', False, 'the floating folder has no arm for a cast: `double d = (double)1;` is rejected')
        return
    bad = {}
    for t in F.INTLIKE + F.FLOLIKE:
        if t == 'ptr':
            continue
        rec = F.trec[t]
        sel = F.facts(lhs=t).select(ps)
        if not sel:
            bad['no-path'] = 'no path for an operand of type %s' % t
        for p in sel:
            core, chain = _core(p.outcome[1])
            r = as_rec(core)
            if not r or r[1] != 'lhs' or r[0] == 'is_const_expr':
                bad['converts-operand'] = 'a cast of a %s operand yields %s, not a conversion of the folded operand' % (t, show(p.outcome[1])); continue
            if r[0] == 'eval_double':
                if not _chain_is_wide(chain, True):
                    bad['converts-operand'] = 'the operand\'s double value is narrowed: %s' % show(p.outcome[1])
                continue
            if t in F.FLOLIKE:
                continue          # integer folder on a floating operand: R07.6
            src = None
            for to, frm in chain:
                if to[0] == 'f':
                    src = frm; break
                if to[0] == 'b' or (to[0] == 'i' and to[1] < 64):
                    src = ('narrow',); break
            if src is None or src[0] != 'i' or src[1] != 64:
                bad['converts-operand'] = 'a cast of a %s operand is folded as %s' % (t, show(p.outcome[1]))
            elif rec['is_unsigned'] and rec['size'] == 8 and src[2]:
                bad['u64-operand-converted-as-signed'] = ('a cast of an unsigned 64-bit operand to a floating type is folded as %s: the operand\'s 64-bit value is read as signed, '
                                                          'so (double)9223372036854775808UL folds to -9.2e18' % show(p.outcome[1]))
    if not bad:
        ob('eval_double', kind, 'converts-operand', True, '')
    for c, m in sorted(bad.items()):
        ob('eval_double', kind, c, False, m)


def _operand_ok(v, want_child, floating):
    core, chain = _core(v)
    r = as_rec(core)
    if not r:
        return 'operand %s is not a folded child of the node' % show(v)
    if r[1] != want_child:
        return 'operand is the folded %s where %s belongs' % (r[1] or 'node', want_child)
    if r[0] == 'is_const_expr':
        return 'operand is is_const_expr(%s), not its value' % want_child
    if not _chain_is_wide(chain, floating and r[0] == 'eval_double'):
        return 'the folded %s is narrowed before the operation: %s' % (want_child, show(v))
    return None


# ---- paths of an arm that are taken only for one value of an operand (`if (rhs == -1) return -lhs;`) ----
def _operand_constants(p):
    """{child: c} for the operands whose folded value the path condition pins to the constant c (guard `folder(child) == c` true)"""
    out = {}
    for a, t in p.guards:
        if t and a[0] == 'bin' and a[1] == '==':
            x, y = strip_widening(a[2]), strip_widening(a[3])
            if x[0] == 'int' and y[0] != 'int':
                x, y = y, x
            r = as_rec(x) if x[0] == 'call' else None
            if r and y[0] == 'int' and r[0] in INT_FOLD and r[1] in ('lhs', 'rhs'):
                out[r[1]] = y[1]
    return out


class _NotConcrete(Exception):
    pass


def _host(op, x, y, T):
    """C value of `x op y` carried out in the integer type T (operands already of that type), as a python int; None: undefined"""
    x, y = wrap(x, T), wrap(y, T)
    if op in ('/', '%'):
        if y == 0:
            return None
        q = cdiv(x, y)
        return wrap(q if op == '/' else x - q * y, T)
    if op in ('<<', '>>'):
        if not 0 <= y < T[1]:
            return None
        return wrap(x << y if op == '<<' else x >> y, T)
    if op in ('==', '!=', '<', '<=', '>', '>='):
        return int({'==': x == y, '!=': x != y, '<': x < y, '<=': x <= y, '>': x > y, '>=': x >= y}[op])
    return wrap({'+': x + y, '-': x - y, '*': x * y, '&': x & y, '|': x | y, '^': x ^ y}[op], T)


def _conc(v, bind):
    """value of a summariser term when the folder calls on the children take the values of `bind` {child: int}"""
    k = v[0]
    if k == 'int':
        return v[1]
    if k == 'call':
        r = as_rec(v)
        if r and r[0] in INT_FOLD and r[1] in bind:
            return bind[r[1]]
        raise _NotConcrete(show(v))
    if k == 'cast':
        x = _conc(v[3], bind)
        if v[1][0] not in ('i', 'b') or not isinstance(x, int):
            raise _NotConcrete(show(v))
        return wrap(x, v[1])
    if k == 'un' and v[1] in ('-', '~') and v[3][0] == 'i':
        x = wrap(_conc(v[2], bind), v[3])
        return wrap(-x if v[1] == '-' else ~x, v[3])
    if k == 'bin' and v[4][0] == 'i':
        r = _host(v[1], _conc(v[2], bind), _conc(v[3], bind), v[4])
        if r is None:
            raise _NotConcrete('undefined ' + show(v))
        return r
    raise _NotConcrete(show(v))


def _special_family(p, op, cons):
    """for a path pinned to operand constants: the set of signedness families ('signed' / 'unsigned', 64-bit) under which the returned value
    equals `lhs op rhs` for every witness value of the free operand(s); None when the value is not concretely evaluable"""
    core, chain = _core(p.outcome[1])
    free = [c for c in ('lhs', 'rhs') if c not in cons]
    fams = set()
    for fam, T in (('signed', ('i', 64, True)), ('unsigned', ('i', 64, False))):
        ok = True
        for w in (WITNESS if free else [0]):
            bind = dict(cons)
            for c in free:
                bind[c] = wrap(w, I64)
            want = _host(op, bind['lhs'], bind['rhs'], T)
            if want is None:
                continue
            try:
                got = _conc(core, bind)
            except _NotConcrete:
                return None
            if wrap(got, I64) != wrap(want, I64):
                ok = False; break
        if ok:
            fams.add(fam)
    return fams


def _path_signedness(F, p, kind):
    """'signed' / 'unsigned' / None: what the path condition says about the operand type that selects the instruction for `kind`"""
    who = ty_of(child('lhs')) if kind in ('ND_LT', 'ND_LE') else ty_of(NODE)
    g = p.guard_of(('fld', who, 'is_unsigned'))
    if g is None:
        return None
    return 'unsigned' if g else 'signed'


def _check_special(F, p, kind, op, cons):
    """a returning path that is taken only for the operand constants `cons`: (construct, message) when wrong, None when right, ('?', why) when not decided"""
    what = ' and '.join('%s == %d' % (c, v) for c, v in sorted(cons.items()))
    folded = set(c for f, c, v in _folded(p))
    miss = [c for c in ('lhs', 'rhs') if c not in folded]
    if miss:
        return 'operands', ('on the path taken when %s the arm does not fold %s at all: a non-constant or erroneous operand there is accepted silently' % (what, ','.join(miss)))
    fams = _special_family(p, op, cons)
    if fams is None:
        return '?', 'the value %s returned when %s is not an integer function of the folded operands that the analysis can evaluate' % (show(p.outcome[1]), what)
    need = _path_signedness(F, p, kind) if kind in SIGNED_CHOICE else None
    core, chain = _core(p.outcome[1])
    if not fams or (need and need not in fams) or (kind in SIGNED_CHOICE and need is None and len(fams) < 2):
        # witness for the message
        wit = ''
        for fam in ([need] if need else [f for f in ('signed', 'unsigned') if f not in fams]):
            T = ('i', 64, fam != 'unsigned')
            for w in WITNESS:
                bind = dict(cons)
                for c in ('lhs', 'rhs'):
                    bind.setdefault(c, wrap(w, I64))
                want = _host(op, bind['lhs'], bind['rhs'], T)
                try:
                    got = _conc(core, bind)
                except _NotConcrete:
                    break
                if want is not None and wrap(got, I64) != wrap(want, I64):
                    wit = ' (%s lhs = %d, rhs = %d: returns %d, `%s` yields %d)' % (fam, wrap(bind['lhs'], T), wrap(bind['rhs'], T), wrap(got, I64), op, wrap(want, I64)); break
            if wit:
                break
        return 'operator', ('on the path taken when %s the arm returns %s, which is not `lhs %s rhs`%s%s' % (
            what, show(p.outcome[1]), op, ' for %s operands' % (need or 'signed and unsigned'), wit))
    if not _chain_is_wide(chain) and not _outer_ok(F, p, chain, False):
        return 'result-narrowed', 'the result returned when %s is cut by a conversion that is not the reduction to the node\'s own type: %s' % (what, show(p.outcome[1]))
    return None


def _check_binop(F, ob, fname, kind, op, rets, floating):
    good = True; msg = ''; construct = 'operator'
    general = 0
    for p in rets:
        cons = _operand_constants(p) if not floating else {}
        if cons:
            r = _check_special(F, p, kind, op, cons)
            if r is not None and r[0] == '?':
                ob(fname, kind, 'special-case', None, r[1])
            elif r is not None:
                good = False; construct, msg = r
            continue
        general += 1
        core, chain = _core(p.outcome[1])
        if core[0] != 'bin':
            good = False; construct = 'operator'
            msg = 'the arm returns %s: it does not apply `%s` to the two folded operands' % (show(p.outcome[1]), op)
            continue
        if core[1] != op:
            good = False; construct = 'operator'
            msg = 'the arm applies host `%s` where the node kind denotes `%s`' % (core[1], op)
            continue
        a, b = core[2], core[3]
        ea, eb = _operand_ok(a, 'lhs', floating), _operand_ok(b, 'rhs', floating)
        if (ea or eb) and op in COMMUTATIVE:
            ea2, eb2 = _operand_ok(a, 'rhs', floating), _operand_ok(b, 'lhs', floating)
            if not ea2 and not eb2:
                ea = eb = None
        if ea or eb:
            good = False; construct = 'operands'
            msg = '`%s` is applied to (%s, %s): %s' % (op, show(a), show(b), ea or eb)
            continue
        T = core[4]
        # a comparison of the integer folder is a floating comparison exactly on the paths that found an operand floating
        # and fold both operands with the floating folder (usual arithmetic conversions give both the same type)
        flo_cmp = False
        if not floating and kind in FLOATABLE_INT_NODE:
            ra, rb = as_rec(_core(a)[0]), as_rec(_core(b)[0])
            found = any(p.guard_of(('call', 'is_flonum', (ty_of(child(c)),))) is True for c in ('lhs', 'rhs'))
            flo_cmp = bool(ra and rb and ra[0] == 'eval_double' and rb[0] == 'eval_double' and found)
        if floating:
            if T[0] != 'f':      # which floating format: R07.13, per node type
                good = False; construct = 'host-type'; msg = '`%s` is carried out in %s, not in a floating type' % (op, tshow(T))
        elif flo_cmp:
            if T[0] != 'f' or T[1] < 64:
                good = False; construct = 'host-type'; msg = '`%s` is carried out in %s, not in double' % (op, tshow(T))
        else:
            if T[0] != 'i' or T[1] != 64:
                good = False; construct = 'host-type'; msg = '`%s` is carried out in %s, not in 64-bit integer arithmetic' % (op, tshow(T))
        if good and not _outer_ok(F, p, chain, floating):
            good = False; construct = 'result-narrowed'
            msg = 'the result is returned as %s: a conversion that is not the reduction to the node\'s own type cuts it' % show(p.outcome[1])
    if good and not general:
        good = False; construct = 'operator'; msg = 'every returning path of the arm is a special case for one operand value: no path applies `%s` to arbitrary operands' % op
    ob(fname, kind, construct, good, msg)


def _check_unop(F, ob, fname, kind, op, rets, floating):
    good = True; msg = ''; construct = 'operator'
    for p in rets:
        core, chain = _core(p.outcome[1])
        if core[0] != 'un' or core[1] != op:
            good = False
            msg = 'the arm returns %s: it does not apply unary `%s` to the folded operand' % (show(p.outcome[1]), op)
            continue
        e = _operand_ok(core[2], 'lhs', floating)
        if e:
            good = False; construct = 'operands'; msg = e; continue
        T = core[3]
        if (floating and T[0] != 'f') or (not floating and (T[0] != 'i' or T[1] != 64)):
            good = False; construct = 'host-type'; msg = 'unary `%s` is carried out in %s' % (op, tshow(T))
        if good and not _outer_ok(F, p, chain, floating):
            good = False; construct = 'result-narrowed'
            msg = 'the result is returned as %s: a conversion that is not the reduction to the node\'s own type cuts it' % show(p.outcome[1])
    ob(fname, kind, construct, good, msg)


def _rec_guards(p):
    """{child: truth} for guards that test a folded child for non-zero"""
    out = {}
    for a, t in p.guards:
        r = as_rec(a)
        if r and a[0] == 'call' and r[0] != 'is_const_expr':
            out[r[1]] = t
    out.update(_child_truth(p))      # also `f(child) != 0`, `f(child) == 0` (a floating comparison is kept as an atom by the summariser)
    return out


def _truth_paths(rets):
    """paths in truth-table form: [(child guards, constant result)]; None when a result is not recognisable"""
    out = []
    for p in rets:
        g = _rec_guards(p)
        r = strip_widening(p.outcome[1])
        if r[0] == 'int':
            out.append((g, r[1], p)); continue
        if r[0] == 'bin' and r[1] in ('==', '!=') and strip_widening(r[3]) == ('int', 0):
            rr = as_rec(strip_widening(r[2]))
            if rr and strip_widening(r[2])[0] == 'call':
                for val in (True, False):
                    g2 = dict(g); g2[rr[1]] = val
                    out.append((g2, int(val if r[1] == '!=' else not val), p))
                continue
        rr = as_rec(r)
        if rr and strip_casts(r)[0] == 'call' and rr[0] != 'is_const_expr':
            for val in (True, False):
                g2 = dict(g); g2[rr[1]] = val
                out.append((g2, 'the (non-zero) value of the operand itself' if val else 0, p))
            continue
        return None
    return out


def _check_truth(F, ob, fname, kind, rets):
    tt = _truth_paths(rets)
    if tt is None:
        ob(fname, kind, 'truth-table', None, 'the arm\'s result is not a 0/1 function of the folded operands that the analysis recognises')
        return
    good = True; msg = ''
    for g, val, p in tt:
        l, r = g.get('lhs'), g.get('rhs')
        if kind == 'ND_NOT':
            want = None if l is None else int(not l)
        elif kind == 'ND_LOGAND':
            want = 0 if (l is False or r is False) else (1 if (l and r) else None)
        else:
            want = 1 if (l is True or r is True) else (0 if (l is False and r is False) else None)
        if want is None:
            good = False; msg = 'a path yields %s without having examined the operand(s) that decide the result (examined: %s)' % (val, g)
        elif want != val:
            good = False; msg = 'yields %s when lhs is %s and rhs is %s; the operator yields %d' % (
                val, {True: 'non-zero', False: 'zero', None: 'not examined'}[l], {True: 'non-zero', False: 'zero', None: 'not examined'}[r], want)
    ob(fname, kind, 'truth-table', good, msg)


def _check_cond(F, ob, fname, kind, rets, floating):
    good = True; msg = ''
    seen = set()
    for p in rets:
        g = _rec_guards(p)
        c = g.get('cond')
        core, chain = _core(p.outcome[1])
        r = as_rec(core)
        if c is None:
            good = False; msg = 'a path returns %s without having tested the folded condition' % show(p.outcome[1]); continue
        want = 'then' if c else 'els'
        if not r or r[1] != want:
            good = False
            msg = 'when the condition is %s the arm yields %s, not the folded `%s` operand' % ('non-zero' if c else 'zero', show(p.outcome[1]), want)
            continue
        if not _outer_ok(F, p, chain, floating):
            good = False; msg = 'the selected operand is narrowed: %s' % show(p.outcome[1])
        seen.add(want)
    if good and seen != {'then', 'els'}:
        good = False; msg = 'only the `%s` operand can be selected' % ','.join(sorted(seen))
    ob(fname, kind, 'selects-by-condition', good, msg)


# ------------------------------------------------------------------ R07.2 ---
def r072(F, rep):
    u = F.u
    rep.rule('R07.2', 'a result of 64-bit host arithmetic is reduced to the width and signedness of node->ty before it is returned '
                      '(arms whose result can leave the range of a 32-bit unsigned type; every integer target type of ND_CAST)', floor=14)
    # (a) ND_CAST over the catalogue
    kind = 'ND_CAST'
    F.cast_reduces = {}
    try:
        ps = [p for p in F.int_paths(kind)]
    except Unsupported as e:
        rep.undecided('R07.2', '%s:eval2:ND_CAST' % U, 'cannot summarise: %s' % e)
        ps = None
    if ps is not None:
        classes = {}
        for t in ('bool', 'char', 'uchar', 'short', 'ushort', 'int', 'uint', 'long', 'ulong', 'enum', 'ptr'):
            classes.setdefault(cls_of(F.trec[t], F.tk), []).append(t)
        for cls, tnames in classes.items():
            good = True; msg = ''; und = None
            for t in tnames:
                rec = F.trec[t]
                sel = [p for p in F.facts(node=t).select(ps) if p.outcome[0] == 'ret']
                if not sel:
                    und = 'no returning path for a cast to %s' % t; continue
                for p in sel:
                    core, chain = _core(p.outcome[1])
                    r = as_rec(core)
                    if not r or r[1] != 'lhs' or r[0] not in INT_FOLD + ('eval_double',):
                        good = False; msg = 'a cast to %s yields %s, which is not a conversion of the folded operand' % (t, show(p.outcome[1])); continue
                    if r[0] == 'eval_double':
                        # conversion from floating: truncation is the C conversion except to _Bool (operand through eval: R07.6),
                        # where the floating value itself is compared with zero
                        if cls == 'bool' and (not chain or chain[0][0][0] != 'b' or chain[0][1][0] != 'f'):
                            good = False
                            msg = ('a cast of a floating operand to _Bool is folded as %s: the operand is converted to an integer before it is compared with zero, '
                                   'so (_Bool)0.5 folds to 0' % show(p.outcome[1]))
                        continue
                    if any(to[0] not in ('i', 'b') for to, frm in chain):
                        und = 'conversion chain %s is not integral' % show(p.outcome[1]); continue
                    sig = chain_signature(chain)
                    want = oracle_signature(rec['size'] * 8, not rec['is_unsigned'], boolean=(cls == 'bool')) if cls != 'ptr' else oracle_signature(64, True)
                    if sig != want:
                        good = False
                        i = [k for k in range(len(sig)) if sig[k] != want[k]][0]
                        msg = ('a cast to %s (%d bytes, %s) is folded as %s: operand value %d becomes %d, the conversion yields %d' % (
                            t, rec['size'], 'unsigned' if rec['is_unsigned'] else 'signed', show(p.outcome[1]), WITNESS[i], sig[i], want[i]))
            if und and good:
                rep.undecided('R07.2', '%s:eval2:ND_CAST/%s' % (U, cls), und)
            else:
                rep.ob('R07.2', '%s:eval2:ND_CAST/%s' % (U, cls), good, msg, where='%s:%d' % (U, line_of_kind(u, 'eval2', F.E[kind])))
                F.cast_reduces[cls] = good
    # (b) arithmetic arms under an unsigned 32-bit node type
    F.reduced = True
    for kind in NEED_REDUCTION:
        try:
            ps = F.int_paths(kind)
        except Unsupported as e:
            rep.undecided('R07.2', '%s:eval2:%s' % (U, kind), 'cannot summarise: %s' % e)
            F.reduced = False
            continue
        sel = [p for p in F.facts(node='uint', lhs='uint', rhs='uint').select(ps) if p.outcome[0] == 'ret']
        if not sel:
            continue          # R07.8 reports the missing arm
        good = True; msg = ''; und = None
        for p in sel:
            core, chain = _core(p.outcome[1])
            if core[0] not in ('bin', 'un'):
                und = 'result %s is not a host operation under conversions' % show(p.outcome[1]); continue
            if any(to[0] not in ('i', 'b') for to, frm in chain):
                und = 'conversion chain of %s is not integral' % show(p.outcome[1]); continue
            T = core[4] if core[0] == 'bin' else core[3]
            if T[0] != 'i':
                und = 'host operation type %s' % tshow(T); continue
            if chain_signature(chain, T) != oracle_signature(32, False, T0=T):
                good = False
                msg = ('eval2 of %s returns %s for a node of type unsigned int: the 64-bit host result is not reduced to 32 bits, so a wrapped '
                       'result (e.g. 0u - 1, ~0u, 0x80000000u << 1) keeps bits above bit 31 and every consumer sees a value outside the type' % (kind, show(p.outcome[1])))
        if und and good:
            rep.undecided('R07.2', '%s:eval2:%s/u32-not-reduced' % (U, kind), und)
            F.reduced = False
        else:
            rep.ob('R07.2', '%s:eval2:%s/u32-not-reduced' % (U, kind), good, msg, where='%s:%d' % (U, line_of_kind(u, 'eval2', F.E[kind])))
            F.reduced = F.reduced and good


# ------------------------------------------------------------------ R07.1 ---
def _gen_paths(P, kind_value):
    cu = P.unit('codegen.c')
    if 'gen_expr' not in cu.functions:
        raise AnalysisBroken('anchor gen_expr vanished from codegen.c')

    def hook(base, f):
        if base == NODE and f == 'kind':
            return ('int', kind_value)
        return None
    try:
        # helpers of codegen.c (push/pop/an extracted emitter) are inlined; recursion and the printer are not
        ex = SymExec(P, cu, opaque=('println', 'gen_expr', 'gen_addr', 'gen_stmt', 'error_tok', 'count'), field_hook=hook, max_paths=6000)
        return ex.run('gen_expr', [NODE])
    except Unsupported:
        ex = SymExec(P, cu, inline=False, field_hook=hook, max_paths=6000)
        return ex.run('gen_expr', [NODE])


def _mnemonics(p):
    out = []
    for e in p.events:
        if e[0] == 'call' and e[1] == 'println' and e[2] and e[2][0][0] == 'str':
            fmt = e[2][0][1]
            args = list(e[2][1:])
            # substitute %s by string arguments (the mnemonic itself may be an argument)
            s = ''
            i = 0
            while i < len(fmt):
                if fmt[i] == '%' and i + 1 < len(fmt):
                    if fmt[i + 1] == '%':
                        s += '%'; i += 2; continue
                    j = i + 1
                    while j < len(fmt) and fmt[j] in '0123456789.-+ #lhz':
                        j += 1
                    a = args.pop(0) if args else ('sym', '?')
                    s += a[1] if a[0] == 'str' else '<%s>' % show(a)
                    i = j + 1; continue
                s += fmt[i]; i += 1
            w = s.split()
            if w:
                out.append(w[0])
    return out


def _operands_cast_by_typing(P, kind, tname, operands):
    """True when add_type (type.c, executed on a node of `kind` whose operands are leaves of type tname) leaves each of `operands`
    wrapped in an ND_CAST node of the same type class: the folder then receives the operand through its ND_CAST arm.  None: not decided"""
    from ..lib_types import Types, typed_leaf, cast_of
    from ..interp import Obj
    try:
        T = Types(P)
        it = T.interp(opaque=['error_tok'])
        box = {}

        def mk(ctx):
            it.ctx = ctx
            n = Obj('Node', lazy=False, label='node')
            n.fields['kind'] = T.E[kind]
            n.fields['tok'] = Obj('Token', lazy=True, label='tok')
            for k in ('lhs', 'rhs'):
                n.fields[k] = typed_leaf(it, T, tname, k)
            box['n'] = n
            box['orig'] = {k: n.fields[k] for k in ('lhs', 'rhs')}
            return [n]
        outs = [(ctx, out) for ctx, out in it.explore('add_type', mk) if out[0] == 'ret']
        if len(outs) != 1:
            return None
        for c in operands:
            is_cast, cls = cast_of(it, T, box['n'].fields.get(c), box['orig'][c])
            if not (is_cast and cls == tname):
                return False
        return True
    except AnalysisBroken:
        return None
    except Exception:
        return None


def r071(F, P, rep):
    u = F.u
    rep.rule('R07.1', 'for / % >> < <= the folder chooses the unsigned host operation for exactly the operand types for which gen_expr '
                      'chooses the unsigned instruction (over the catalogue of integer types, under the typing relation of the kind)', floor=5)
    reduced = getattr(F, 'reduced', False)
    for kind in SIGNED_CHOICE:
        op = BINOPS[kind]
        try:
            fps = [p for p in F.int_paths(kind) if p.outcome[0] == 'ret']
            gps = _gen_paths(P, F.E[kind])
        except Unsupported as e:
            rep.undecided('R07.1', '%s:eval2:%s' % (U, kind), 'cannot summarise: %s' % e)
            continue
        cmp_kind = kind in ('ND_LT', 'ND_LE')
        tnames = ['int', 'uint', 'long', 'ulong', 'enum'] + (['ptr'] if cmp_kind else [])
        bad = {}      # construct -> message
        und = None
        checked = 0
        combos = []
        via_cast = []
        for t in tnames:
            if cmp_kind:
                combos.append((t, F.facts(node='int', lhs=t, rhs=t)))
            elif kind == 'ND_SHR':
                for rt in ('int', 'uint', 'long', 'ulong'):      # the count keeps its own type
                    combos.append((t, F.facts(node=t, lhs=t, rhs=rt)))
            else:
                combos.append((t, F.facts(node=t, lhs=t, rhs=t)))
        for t, tf in combos:
            fam_f = set()
            for p in tf.select(fps):
                core = strip_casts(p.outcome[1])
                fam_ops = ('<', '<=', '>', '>=') if cmp_kind else (('/', '%') if kind in ('ND_DIV', 'ND_MOD') else ('>>',))
                hit = [x for x in walk(core) if isinstance(x, tuple) and x[0] == 'bin' and x[1] in fam_ops and x[4][0] == 'i']
                cons = _operand_constants(p)
                if not hit and cons:
                    # a path taken for one operand value only (`if (rhs == -1) return -lhs;`): the family is the one under which the
                    # returned value equals the operator on that value (R07.8 judges the value itself)
                    fams = _special_family(p, op, cons)
                    if fams is not None and len(fams) == 1:
                        fam_f.add((list(fams)[0], 64))
                    continue
                if len(hit) != 1:
                    und = 'no single host `%s` in %s' % (op, show(p.outcome[1])); continue
                T = hit[0][4]
                fam_f.add(('signed' if T[2] else 'unsigned', T[1]))
            fam_g = set()
            for p in tf.select(gps):
                if p.outcome[0] == 'noreturn':
                    continue
                ms = _mnemonics(p)
                us = [m for m in ms if m in UNSIGNED_INSN]
                ss = [m for m in ms if m in SIGNED_INSN]
                if us and not ss:
                    fam_g.add('unsigned')
                elif ss and not us:
                    fam_g.add('signed')
                else:
                    und = 'gen_expr(%s) for operand type %s emits %s: neither a signed nor an unsigned instruction recognised' % (kind, t, ms)
            if len(fam_f) != 1 or len(fam_g) != 1:
                und = und or 'operand type %s: folder families %s, generator families %s' % (t, sorted(fam_f), sorted(fam_g))
                continue
            (ff, bits), = fam_f
            fg, = fam_g
            checked += 1
            rec = F.trec[t]
            cls = cls_of(rec, F.tk)
            if ff == fg:
                continue
            if rec['size'] < 8 and fg == 'unsigned' and ff == 'signed' and bits == 64 and reduced:
                continue      # operands are zero-extended (R07.2 holds everywhere): signed 64-bit == unsigned narrow
            if rec['size'] < 8 and fg == 'unsigned' and ff == 'signed' and bits == 64 and getattr(F, 'cast_reduces', {}).get(cls) \
                    and _operands_cast_by_typing(P, kind, t, ('lhs',) if kind == 'ND_SHR' else ('lhs', 'rhs')):
                # the typing relation hands the operand over as an ND_CAST to the node's type, and the ND_CAST arm reduces that class (R07.2):
                # the operand arrives zero-extended although other arms do not reduce
                via_cast.append(t)
                continue
            why = ''
            if rec['size'] < 8 and fg == 'unsigned' and ff == 'signed':
                why = (' (equal only if every unsigned operand arrives zero-extended, which R07.2 shows is not the case: '
                       'an un-reduced operand such as ~0u is -1 in the folder%s)' % (', so ~0u >> 1 folds to 0xffffffff where the generated code computes 0x7fffffff' if kind == 'ND_SHR' else ''))
            grp = cls if rec['size'] == 8 or cls == 'ptr' else ('narrow-unsigned' if fg == 'unsigned' else 'narrow-signed')
            b = bad.setdefault('%s-folded-%s' % (grp, ff), [[], ''])
            if t not in b[0]:
                b[0].append(t)
            b[1] = 'the folder carries out `%s` as a %s %d-bit host operation, gen_expr emits the %s instruction%s' % (op, ff, bits, fg, why)
        w = '%s:%d' % (U, line_of_kind(u, 'eval2', F.E[kind]))
        for construct, (ts, msg) in sorted(bad.items()):
            rep.ob('R07.1', '%s:eval2:%s/%s' % (U, kind, construct), False, 'for operand type(s) %s %s' % (','.join(ts), msg), where=w)
        if und:
            rep.undecided('R07.1', '%s:eval2:%s/predicate' % (U, kind), und, where=w)
        elif not bad:
            rep.ob('R07.1', '%s:eval2:%s/predicate' % (U, kind), checked > 0, 'no operand type could be compared', where=w)
        if via_cast:
            rep.notes.append('R07.1: %s on %s operands is a signed 64-bit host operation where gen_expr emits the unsigned instruction; equal because add_type wraps the operand '
                             'in a cast to the node type and the ND_CAST arm zero-extends it (R07.2 ND_CAST)' % (kind, ','.join(sorted(set(via_cast)))))


# ------------------------------------------------------------------ R07.4 ---
def r074(F, rep):
    u = F.u
    rep.rule('R07.4', 'every integer host / or % of the folder is reached only after its divisor was tested against zero, and the zero case ends in a diagnostic', floor=2)
    n = 0
    for kind in F.kinds:
        try:
            ps = F.int_paths(kind)
        except Unsupported:
            continue       # reported by R07.8 where it matters
        sites = {}
        for p in ps:
            vals = [p.outcome[1]] if p.outcome[0] == 'ret' else []
            vals += [a for a, t in p.guards]
            for v in vals:
                for x in walk(v):
                    if isinstance(x, tuple) and x[0] == 'bin' and x[1] in ('/', '%') and x[4][0] == 'i':
                        d = strip_widening(x[3])
                        if d[0] == 'int' and d[1] != 0:
                            continue
                        fam = 'signed' if x[4][2] else 'unsigned'
                        tested = p.guard_of(d) is True
                        diag = any(q.outcome[0] == 'noreturn' and q.guard_of(d) is False for q in ps)
                        s = sites.setdefault((x[1], fam), [True, ''])
                        if not (tested and diag):
                            s[0] = False
                            s[1] = ('eval2 of %s divides by %s (%s 64-bit host `%s`) %s: a zero divisor (int x = 1%s0; enum{A=1%s0}; #if 1%s0) '
                                    'raises SIGFPE in the compiler instead of a diagnostic' % (
                                        kind, show(d), fam, x[1], 'although the zero case does not end in a diagnostic' if tested else 'without having tested it against zero',
                                        x[1], x[1], x[1]))
        for (op, fam), (ok, msg) in sorted(sites.items()):
            n += 1
            rep.ob('R07.4', '%s:eval2:%s/%s-divisor-unchecked' % (U, kind, fam), ok, msg, where='%s:%d' % (U, line_of_kind(u, 'eval2', F.E[kind])))
    if n == 0:
        rep.undecided('R07.4', '%s:eval2:no-division' % U, 'no integer host division found in eval2')


# ------------------------------------------------------------------ R07.5 ---
# operands that an execution of the operator always evaluates (C11 6.5: both operands of a binary / the comma operator, the operand of a unary operator or cast,
# the left operand of && ||, the condition of ?:)
RUN_TIME_OPERANDS = dict([(k, ('lhs', 'rhs')) for k in BINOPS] + [(k, ('lhs',)) for k in UNOPS] +
                         [('ND_NOT', ('lhs',)), ('ND_CAST', ('lhs',)), ('ND_LOGAND', ('lhs',)), ('ND_LOGOR', ('lhs',)), ('ND_COND', ('cond',)), ('ND_COMMA', ('lhs', 'rhs'))])


def _evaluated_children(ps):
    """{(child, folder)} for the children handed to the folder on returning paths"""
    out = set()
    for p in ps:
        if p.outcome[0] != 'ret':
            continue
        for e in p.events:
            if e[0] == 'call' and e[1] in FOLD and e[2] and e[2][0][0] == 'fld' and e[2][0][1] == NODE:
                out.add((e[2][0][2], e[1]))
    return out


def _acc_arg(F, v):
    """v = acceptor(node->child) / acceptor(node) -> (acceptor, child or '') else None"""
    if v[0] == 'call' and v[1] in F.acceptors and v[2]:
        a = v[2][0]
        if a[0] == 'fld' and a[1] == NODE:
            return v[1], a[2]
        if a == NODE:
            return v[1], ''
    return None


def _implied(F, p):
    """the acceptor facts an accepting path establishes: ({(acceptor, child)}, answer recognised?)"""
    out = set()
    for a, t in p.guards:
        r = _acc_arg(F, a)
        if r and t:
            out.add(r)
        elif t and a[0] == 'call' and a[1] in F.acceptors:
            return out, False      # a predicate on something other than the node or a child of it: not interpreted
    v = strip_widening(p.outcome[1])
    r = _acc_arg(F, v)
    if r:
        out.add(r)
        return out, True
    # a constant, or a fact about the node's type (`return is_integer(node->ty);`): _path_admits evaluates it per type class
    return out, v[0] == 'int' or F.facts(node='int').ev(v) is not None


def _path_admits(F, q, t):
    """is the accepting path q taken, and its answer true, for a node of type class t?"""
    if not F.facts(node=t).select([q]):
        return False
    v = strip_widening(q.outcome[1])
    if v[0] == 'int' or _acc_arg(F, v):
        return True
    x = F.facts(node=t).ev(v)
    return bool(x)


def _accepting(F, acc, kind):
    ps = []
    for p in F.paths(acc, kind):
        if p.outcome[0] != 'ret':
            continue
        r = strip_widening(p.outcome[1])
        if r[0] == 'int' and r[1] == 0:
            continue
        ps.append(p)
    return ps


def _node_types(F, kind):
    """type classes a node of the kind can have (typing relation): arithmetic operators yield arithmetic / pointer values; an lvalue kind has any type"""
    if kind in BINOPS or kind in UNOPS or kind in TRUTH:
        return tuple(F.admitted(kind)) + F.FLOLIKE
    return tuple(sorted(F.trec))


def r075(F, rep):
    u = F.u
    rep.rule('R07.5', 'constant-ness predicate and folder agree (is_const_expr <-> eval2/eval_double, and each helper predicate it is mutually recursive with <-> the folder '
                      'its operand goes to): every kind accepted under some class of node types is folded, without a relocation, for every type of that class; every pure '
                      'arithmetic kind eval2 folds is accepted; acceptance implies that every operand the folder evaluates was required constant by the predicate of the folder it goes to', floor=20)
    null = ('int', 0)
    accepted = {}      # acceptor -> kind -> [accepting paths]
    for acc in F.acceptors:
        accepted[acc] = {}
        for kind in F.kinds:
            try:
                ps = _accepting(F, acc, kind)
            except Unsupported as e:
                rep.undecided('R07.5', '%s:%s:%s' % (U, acc, kind), 'cannot summarise: %s' % e)
                continue
            if ps:
                accepted[acc][kind] = ps
    if len(accepted['is_const_expr']) < 10:
        rep.undecided('R07.5', '%s:is_const_expr:kinds' % U, 'only %d accepted kinds recognised' % len(accepted['is_const_expr']))
        return
    # a path that delegates to another predicate on the node itself (`ty is array && is_const_lvalue(node)`) is accepted only as far as that one accepts the kind
    def expand(acc, kind, depth=0):
        """[(guard paths [p..], implied {(acceptor, child)}, recognised)] for the ways acc accepts kind, delegations on the node itself resolved"""
        out = []
        for p in accepted.get(acc, {}).get(kind, []):
            imp, rec = _implied(F, p)
            own = [(a, c) for a, c in imp if c == '' and a != acc]
            rest = set((a, c) for a, c in imp if c != '')
            alts = [([p], rest, rec)]
            for a, c in own:
                nxt = []
                subs = expand(a, kind, depth + 1) if depth < 3 else []
                for gp, im, rc in alts:
                    for gp2, im2, rc2 in subs:
                        nxt.append((gp + gp2, im | im2, rc and rc2))
                alts = nxt
            out += alts
        return out
    # which folder belongs to which predicate: is_const_expr speaks for eval2 / eval_double; a helper predicate for the folder that the operand it judges goes to
    pair = {'is_const_expr': ('eval2', 'eval_double')}
    for _ in range(len(F.acceptors)):
        for acc in [a for a in F.acceptors if a in pair]:
            for kind in F.kinds:
                for gp, imp, rec in expand(acc, kind):
                    for a2, c in imp:
                        if a2 in pair:
                            continue
                        try:
                            fps = [p for p in F.paths(pair[acc][0], kind, null) if p.outcome[0] == 'ret']
                        except Unsupported:
                            continue
                        gs = set(g for cc, g in _evaluated_children(fps) if cc == c)
                        if len(gs) == 1:
                            pair[a2] = tuple(gs)
    of_folder = {}
    for a, gs in pair.items():
        for g in gs:
            of_folder[g] = a
    for acc in F.acceptors:
        if acc not in pair:
            rep.undecided('R07.5', '%s:%s:folder' % (U, acc), 'the folder whose operands %s judges is not recognised (no arm of eval2 hands an operand that %s accepts to one folder)' % (acc, acc),
                          where='%s:%d' % (U, u.fn(acc).line))
    for acc in F.acceptors:
        if acc not in pair:
            continue
        fold = pair[acc][0]
        for kind in F.kinds:
            w = '%s:%d' % (U, line_of_kind(u, acc, F.E[kind]))
            try:
                fps = F.paths(fold, kind, null)
                if fold == 'eval2':
                    fps = [p for p in fps if F._consistent(p, tuple(sorted(F.trec)))]
            except Unsupported as e:
                if kind in accepted[acc]:
                    rep.undecided('R07.5', '%s:%s:%s' % (U, acc, kind), 'cannot summarise %s: %s' % (fold, e))
                continue
            alts = expand(acc, kind) if kind in accepted[acc] else []
            if alts:
                good_arm = True; arm_msg = ''
                good = True; msg = ''
                und = None
                acc_types = set()
                for gp, implied, rec in alts:
                    if not rec:
                        und = '%s(%s) answers %s under %s: not a conjunction of constant-ness predicates on the node and its operands' % (
                            acc, kind, show(gp[0].outcome[1]), ', '.join(show(a) for q in gp for a, t in q.guards if t and a[0] == 'call' and a[1] in F.acceptors) or 'no predicate')
                        continue
                    # the classes of node types under which this way of accepting is taken
                    types = [t for t in _node_types(F, kind) if all(_path_admits(F, q, t) for q in gp)]
                    if not types:
                        continue
                    acc_types.update(types)
                    rejected = []
                    ev = set()
                    for t in types:
                        rets = [p for p in F.facts(node=t).select(fps) if p.outcome[0] == 'ret' and not any(e[0] == 'store' for e in p.events)]
                        if not rets:
                            rejected.append(t)
                        if kind == 'ND_COND' and fold == 'eval2':
                            continue
                        ev |= _evaluated_children(rets)
                    if rejected:
                        good_arm = False
                        arm_msg = ('%s accepts %s for a node of type class %s but %s has no arm that folds it there without a relocation: an array bound / enumerator using it is declared '
                                   'constant and then rejected ("not a compile-time constant" / "invalid initializer")' % (acc, kind, ','.join(rejected), fold))
                    if kind == 'ND_COND' and fold == 'eval2':
                        c = _rec_guards(gp[0]).get('cond')
                        names = {'cond', 'then' if c else 'els'} if c is not None else {'cond', 'then', 'els'}
                        need = set((n, 'is_const_expr') for n in names)
                    else:
                        need = set((c, of_folder.get(g, '?')) for c, g in ev)
                    miss = sorted(c for c, a in need if (a, c) not in implied)
                    if miss and good:
                        good = False
                        msg = ('%s answers true for %s without requiring %s to be constant (by the predicate of the folder it goes to), but %s evaluates it: '
                               'an array bound with a non-constant %s is treated as constant and rejected instead of becoming a VLA' % (acc, kind, ','.join(miss), fold, ','.join(miss)))
                rep.ob('R07.5', '%s:%s:%s/has-folder-arm' % (U, acc, kind), good_arm, arm_msg, where=w)
                if acc == 'is_const_expr' and kind in RUN_TIME_OPERANDS:
                    # the operands run-time evaluation of the kind evaluates on every execution must be constant expressions themselves (no side effect is
                    # dropped by folding), also when the folder does not look at them (left operand of the comma operator)
                    lost = set(); und2 = None
                    for gp, implied, rec in alts:
                        if not rec:
                            und2 = 'the answer of is_const_expr(%s) is not a conjunction of constant-ness predicates' % kind; continue
                        lost |= set(c for c in RUN_TIME_OPERANDS[kind] if ('is_const_expr', c) not in implied)
                    k2 = '%s:%s:%s/operands-evaluated-at-run-time-required-constant' % (U, acc, kind)
                    if lost:
                        rep.ob('R07.5', k2 + ':' + ','.join(sorted(lost)), False,
                               'is_const_expr answers true for %s without requiring %s to be a constant expression, although run-time evaluation of the operator evaluates it on every '
                               'execution: the expression is folded to a value and the operand with its side effects is dropped (`int a[(f(), 3)];` becomes an array of 3 and f is never called; '
                               'C11 6.6p3: a constant expression contains no comma operator, assignment or call that is evaluated - the array is a VLA whose size expression is evaluated)' % (
                                   kind, ','.join(sorted(lost))), where=w)
                    elif und2:
                        rep.undecided('R07.5', k2, und2, where=w)
                    else:
                        rep.ob('R07.5', k2, True, '', where=w)
                if good_arm and good and und:
                    rep.undecided('R07.5', '%s:%s:%s/operands-required-constant' % (U, acc, kind), und, where=w)
                elif good_arm:
                    rep.ob('R07.5', '%s:%s:%s/operands-required-constant' % (U, acc, kind), good, msg, where=w)
            if acc == 'is_const_expr' and (kind in BINOPS or kind in UNOPS or kind in TRUTH or kind in ('ND_COND', 'ND_COMMA', 'ND_CAST', 'ND_NUM')):
                # the other direction, per class of node types: what eval2 folds with pure arithmetic is accepted
                left = []
                for t in (_node_types(F, kind) if kind in BINOPS or kind in UNOPS or kind in TRUTH else F.INTLIKE + F.FLOLIKE):
                    if alts and t in acc_types:
                        continue
                    rets = [p for p in F.facts(node=t).select(fps) if p.outcome[0] == 'ret' and not any(e[0] == 'store' for e in p.events)]
                    if rets and all(all(e[0] == 'call' and e[1] in ('eval2', 'eval_double', 'add_type', 'is_flonum', 'is_integer') for e in p.events) for p in rets):
                        left.append(t)
                if left:
                    full = not alts or not acc_types
                    rep.ob('R07.5', '%s:is_const_expr:%s/not-accepted%s' % (U, kind, '' if full else ':' + ','.join(left)), False,
                           ('' if full else 'for a node of type class %s: ' % ','.join(left)) +
                           'eval2 folds %s but is_const_expr does not accept it: an array bound using it (`int a[7%%4];`) is taken for a variable-length array: at file scope the object gets an 8-byte VLA slot and sizeof(a) kills the compiler with SIGSEGV, in a function a VLA is allocated' % kind,
                           where='%s:%d' % (U, u.fn('is_const_expr').line))


# ------------------------------------------------------------------ R07.6 ---
def r076(F, rep):
    u = F.u
    rep.rule('R07.6', 'an operand that may have floating type is never evaluated through the integer folder (which truncates it) '
                      'unless the path has established that the operand is not floating', floor=12)
    for fname, table in (('eval2', FLOATABLE_INT_NODE), ('eval_double', FLOATABLE_FLO_NODE)):
        for kind, kids in sorted(table.items()):
            try:
                ps = F.int_paths(kind) if fname == 'eval2' else F.flo_paths(kind)
            except Unsupported as e:
                rep.undecided('R07.6', '%s:%s:%s' % (U, fname, kind), 'cannot summarise: %s' % e)
                continue
            rets = [p for p in ps if p.outcome[0] == 'ret']
            if fname == 'eval2' and kind == 'ND_CAST':
                # truncation towards zero is the C conversion to every integer type except _Bool
                rets = F.facts(node='bool').select(rets)
            if not rets:
                continue
            bad = set()
            for p in rets:
                for e in p.events:
                    if e[0] == 'call' and e[1] in INT_FOLD and e[2] and e[2][0][0] == 'fld' and e[2][0][1] == NODE and e[2][0][2] in kids:
                        c = e[2][0][2]
                        t = ty_of(child(c))
                        if p.guard_of(('call', 'is_flonum', (t,))) is False or p.guard_of(('call', 'is_integer', (t,))) is True:
                            continue
                        bad.add(c)
            construct = 'float-operand-through-eval' + ((':' + ','.join(sorted(bad))) if bad else '')
            ex = {'ND_EQ': '1.5 == 1.7 folds to 1', 'ND_NE': '1.5 != 1.7 folds to 0', 'ND_LT': '1.5 < 1.7 folds to 0', 'ND_LE': '1.7 <= 1.5 folds to 1',
                  'ND_NOT': '!0.5 folds to 1', 'ND_LOGAND': '0.5 && 1 folds to 0', 'ND_LOGOR': '0.5 || 0 folds to 0', 'ND_COND': '0.5 ? 1 : 2 folds to 2', 'ND_CAST': 'the target is _Bool: (_Bool)0.5 folds to 0'}.get(kind, '')
            rep.ob('R07.6', '%s:%s:%s/%s' % (U, fname, kind, construct), not bad,
                   '%s of %s evaluates its operand(s) %s with the integer folder although the operand may have floating type: the value is truncated towards zero before the operator is applied%s' % (
                       fname, kind, ','.join(sorted(bad)), (' (' + ex + ')') if ex and fname == 'eval2' else ''),
                   where='%s:%d' % (U, line_of_kind(u, fname, F.E[kind])))


# ------------------------------------------------------------------ R07.9 ---
# operators whose operands are evaluated conditionally (C11 6.5.13p4, 6.5.14p4, 6.5.15p4):
# kind -> (deciding child, {truth of the deciding child: operands evaluated in addition to it})
LAZY = {'ND_COND': ('cond', {True: ('then',), False: ('els',)}),
        'ND_LOGAND': ('lhs', {True: ('rhs',), False: ()}),
        'ND_LOGOR': ('lhs', {True: (), False: ('rhs',)})}
LAZY_EXAMPLE = {'ND_COND': '`N ? T / N : 0` with N == 0 is rejected with a division-by-zero diagnostic, `1 ? 2 : x` with a non-constant x is rejected, and in a static initializer '
                           '`c ? &a : &b` takes the relocation of whichever arm was folded last',
                'ND_LOGAND': '`N && T / N` with N == 0 is rejected with a division-by-zero diagnostic although the right operand is not evaluated',
                'ND_LOGOR': '`!N || T / N` with N == 0 is rejected with a division-by-zero diagnostic although the right operand is not evaluated'}


def _is_zero(v):
    v = strip_widening(v)
    return (v[0] == 'int' and v[1] == 0) or (v[0] == 'flt' and v[1] == 0)


def _child_truth(p):
    """{child: truth} for the guards of a path that test a folded child for (non-)zero, in any of the forms
    `f(child)`, `f(child) != 0`, `f(child) == 0` (with conversions that keep zero-ness)"""
    out = {}
    for a, t in p.guards:
        a = strip_widening(a)
        flip = False
        if a[0] == 'bin' and a[1] in ('==', '!='):
            x, y = strip_widening(a[2]), strip_widening(a[3])
            if _is_zero(y) and x[0] == 'call':
                flip = a[1] == '=='; a = x
            elif _is_zero(x) and y[0] == 'call':
                flip = a[1] == '=='; a = y
            else:
                continue
        if a[0] == 'call' and a[1] in EVALUATORS and a[2] and a[2][0][0] == 'fld' and a[2][0][1] == NODE:
            out[a[2][0][2]] = (not t) if flip else t
    return out


def _folded(p):
    """[(evaluator, child, call value)] for the calls of the folder on a child of the node, in program order"""
    out = []
    for e in p.events:
        if e[0] == 'call' and e[1] in EVALUATORS and e[2] and e[2][0][0] == 'fld' and e[2][0][1] == NODE:
            out.append((e[1], e[2][0][2], ('call', e[1], e[2])))
    return out


def r079(F, rep):
    u = F.u
    rep.rule('R07.9', 'the folder evaluates an operand of ?: && || only when run-time evaluation evaluates it: on every path the unselected arm of ?: and the '
                      'right operand of an already decided && / || are not handed to eval2/eval_double/eval_rval; is_const_expr folds an operand only after it found it constant',
             floor=4)
    for fname in ('eval2', 'eval_double'):
        for kind in sorted(LAZY):
            decider, extra_by_truth = LAZY[kind]
            try:
                ps = F.flo_paths(kind) if fname == 'eval_double' else F.int_paths(kind)
            except Unsupported as e:
                rep.undecided('R07.9', '%s:%s:%s/evaluates-only-selected-operands' % (U, fname, kind), 'cannot summarise: %s' % e)
                continue
            rets = [p for p in ps if p.outcome[0] == 'ret' and any(c for f, c, v in _folded(p))]
            if not rets:
                continue          # no arm (eval_double has none for && ||); a missing arm is reported by R07.8
            w = '%s:%d' % (U, line_of_kind(u, fname, F.E[kind]))
            eager = set(); und = None
            for p in rets:
                g = _child_truth(p)
                seen = set(c for f, c, v in _folded(p))
                conditional = set(extra_by_truth[True]) | set(extra_by_truth[False])
                d = g.get(decider)
                if d is None:
                    if seen & conditional:
                        und = ('a path folds %s although it has not branched on the folded `%s` in a form the analysis recognises' % (
                            ','.join(sorted(seen & conditional)), decider))
                    continue
                eager |= (seen & conditional) - set(extra_by_truth[d])
            key = '%s:%s:%s/evaluates-only-selected-operands' % (U, fname, kind)
            if eager:
                rep.ob('R07.9', '%s:%s:%s/unevaluated-operand-folded:%s' % (U, fname, kind, ','.join(sorted(eager))), False,
                       '%s of %s folds the operand(s) %s on a path on which the value of `%s` already excludes them: an operand that is not evaluated must not be folded '
                       '(its diagnostics and its relocation leak into the result: %s)' % (fname, kind, ','.join(sorted(eager)), decider, LAZY_EXAMPLE[kind]), where=w)
            elif und:
                rep.undecided('R07.9', key, und, where=w)
            else:
                rep.ob('R07.9', key, True, '', where=w)
    # is_const_expr: a call of the folder on an operand is dominated by is_const_expr(operand) being true
    n = 0
    for kind in F.kinds:
        try:
            cps = F.paths('is_const_expr', kind)
        except Unsupported:
            continue          # reported by R07.5
        bad = set(); any_call = False
        for p in cps:
            for f, c, v in _folded(p):
                any_call = True
                if p.guard_of(('call', 'is_const_expr', (child(c),))) is not True:
                    bad.add(c)
        if not any_call:
            continue
        n += 1
        w = '%s:%d' % (U, line_of_kind(u, 'is_const_expr', F.E[kind]))
        rep.ob('R07.9', '%s:is_const_expr:%s/folds-%s' % (U, kind, ('unchecked-operand:' + ','.join(sorted(bad))) if bad else 'only-checked-operands'), not bad,
               'is_const_expr of %s hands the operand(s) %s to the folder on a path that has not established is_const_expr(operand): for a non-constant operand '
               '(`int a[n ? 1 : 2];`) the folder ends the compilation with "not a compile-time constant" where the answer should be "no"' % (kind, ','.join(sorted(bad))), where=w)
    if n == 0:
        rep.notes.append('R07.9: is_const_expr no longer evaluates any operand')


# ----------------------------------------------------------------- R07.10 ---
# operand through which an address constant flows (C11 6.6p9: & of a static object, array/function designator,
# casts of those, plus or minus an integer constant; parse.c new_add/new_sub put the pointer in lhs)
RELOC_THROUGH = {'eval2': {'ND_ADD': 'lhs', 'ND_SUB': 'lhs', 'ND_COND': None, 'ND_COMMA': 'rhs', 'ND_CAST': 'lhs', 'ND_ADDR': 'lhs', 'ND_MEMBER': 'lhs',
                           'ND_DEREF': 'lhs'},     # *p of array type is the address p itself (a[1] of a 2-D array); other derefs are rejected by the arm
                 'eval_rval': {'ND_DEREF': 'lhs', 'ND_MEMBER': 'lhs'}}      # None: the selected arm
RELOC_DIRECT = {'eval2': ('ND_VAR', 'ND_LABEL_VAL'), 'eval_rval': ('ND_VAR',)}
# further operands that enter the result with coefficient +1 and can be an address although new_add did not move them to the left: an address converted to an
# integer type is an integer operand, `1 + (long)&x` keeps its order (gcc and the generated code accept both orders; + is commutative)
RELOC_ALSO = {'eval2': {'ND_ADD': ('rhs',)}, 'eval_rval': {}}


def _slot_tested_empty_at(p):
    """number of events that preceded the decision `*label == 0` on path p (the slot for the symbol was found empty); None when the path has not made it"""
    for i, (a, t) in enumerate(p.guards):
        a = strip_widening(a)
        empty = None
        if a == ('deref', LABEL):
            empty = not t
        elif a[0] == 'un' and a[1] == '!' and strip_widening(a[2]) == ('deref', LABEL):
            empty = t
        elif a[0] == 'bin' and a[1] in ('==', '!=') and strip_widening(a[2]) == ('deref', LABEL) and strip_widening(a[3]) == ('int', 0):
            empty = t if a[1] == '==' else not t
        if empty:
            return p.gpos[i] if i < len(p.gpos) else None
    return None
ADDRESS_WIDE = ('ptr', 'long', 'ulong')


def _coeff(v, w):
    """coefficient with which the value w enters v additively (conversions transparent); None: not additive"""
    if v == w:
        return 1
    if v[0] == 'cast':
        return _coeff(v[3], w)
    if v[0] == 'bin' and v[1] in ('+', '-'):
        a, b = _coeff(v[2], w), _coeff(v[3], w)
        if a is None or b is None:
            return None
        return a + b if v[1] == '+' else a - b
    for x in walk(v):
        if x == w:
            return None
    return 0


def _rest(v, w, sign=1):
    """the summands of v other than w, as [value] with conversions dropped; a subtracted summand is wrapped in ('neg', x)"""
    if v == w:
        return []
    if v[0] == 'cast':
        return _rest(v[3], w, sign)
    if v[0] == 'bin' and v[1] in ('+', '-'):
        return _rest(v[2], w, sign) + _rest(v[3], w, sign if v[1] == '+' else -sign)
    return [v if sign > 0 else ('neg', v)]


def r0710(F, rep):
    u = F.u
    rep.rule('R07.10', 'relocation out-parameter of eval2/eval_rval: on every path at most one write (a direct store or one callee receiving it), the callee is the folder '
                       'on the operand that can denote the address and its value enters the result with coefficient +1; a direct store only after the pointer was tested', floor=25)
    for fname in ('eval2', 'eval_rval'):
        if fname not in u.functions:
            raise AnalysisBroken('anchor function %s vanished from %s' % (fname, U))
        for kind in F.kinds:
            try:
                ps = F.paths(fname, kind)
            except Unsupported as e:
                if kind in RELOC_THROUGH[fname] or kind in RELOC_DIRECT[fname]:
                    rep.undecided('R07.10', '%s:%s:%s/relocation' % (U, fname, kind), 'cannot summarise: %s' % e)
                continue
            if fname == 'eval2':      # the hand-over of a floating node to eval_double is not an arm of the kind
                ps = [p for p in ps if F._consistent(p, F.INTLIKE) or not F._consistent(p, F.FLOLIKE)]
            rets = [p for p in ps if p.outcome[0] == 'ret']
            if not rets:
                if kind in RELOC_THROUGH[fname] or kind in RELOC_DIRECT[fname]:
                    rep.ob('R07.10', '%s:%s:%s/arm' % (U, fname, kind), False,
                           '%s has no arm for %s: an address constant built with it (static initializer) is rejected' % (fname, kind),
                           where='%s:%d' % (U, u.fn(fname).line))
                continue
            w = '%s:%d' % (U, line_of_kind(u, fname, F.E[kind]))
            bad = {}; und = None; slots = {}
            for p in ps:
                # a store through the out-parameter needs the pointer tested on this path (eval() passes NULL)
                for e in p.events:
                    if e[0] == 'store' and e[1] == ('deref', LABEL) and p.guard_of(LABEL) is not True:
                        bad['store-through-untested-pointer'] = ('%s of %s stores through the relocation out-parameter on a path that has not tested it: eval() passes NULL, '
                                                                 'so an object named in a constant expression outside a static initializer (`enum { A = (long)arr };`, `case (long)&x:`) kills the compiler instead of being diagnosed' % (fname, kind))
            for p in rets:
                calls = [e for e in p.events if e[0] == 'call' and LABEL in e[2]]
                stores = [e for e in p.events if e[0] == 'store' and e[1] == ('deref', LABEL)]
                who = []
                for e in calls:
                    a = e[2][0] if e[2] else None
                    who.append(a[2] if a and a[0] == 'fld' and a[1] == NODE else e[1])
                also = RELOC_ALSO.get(fname, {}).get(kind, ())
                if also and p.guard_of(LABEL) is not False:
                    for e in p.events:
                        if e[0] == 'call' and e[1] in ('eval2', 'eval_rval') and len(e[2]) > 1 and e[2][0][0] == 'fld' and e[2][0][1] == NODE:
                            slots.setdefault(e[2][0][2], set()).add('slot' if e[2][1] == LABEL else 'none' if e[2][1] == ('int', 0) else 'other')
                if also and len(calls) == 2 and not stores and sorted(who) == sorted((RELOC_THROUGH[fname][kind],) + tuple(also)):
                    # two operands can carry the symbol (not both): the second is offered the slot only after the first was seen to have left it empty
                    at = _slot_tested_empty_at(p)
                    i1, i2 = p.events.index(calls[0]), p.events.index(calls[1])
                    if at is not None and i1 < at <= i2:
                        cs = [_coeff(p.outcome[1], ('call', e[1], e[2])) for e in calls]
                        if cs != [1, 1]:
                            bad['relocated-operand-not-additive:' + ','.join(sorted(who))] = (
                                '%s of %s returns %s: an operand that can carry the symbol does not enter the result with coefficient +1' % (fname, kind, show(p.outcome[1])))
                        continue
                if len(calls) + len(stores) > 1:
                    names = sorted(who) + ['direct-store'] * len(stores)
                    bad['relocation-overwritten:' + ','.join(names)] = (
                        '%s of %s writes the relocation out-parameter %d times on one path (%s): the last write wins, so the symbol of an operand that does not '
                        'contribute to the result replaces the one that does (`c ? &a : &b` always gets the symbol folded last) or is added to a plain number' % (
                            fname, kind, len(calls) + len(stores), ', '.join(names)))
                    continue
                # is the path one an address-typed node can take?  (guards that pin node->ty to a narrower/floating type exempt it)
                if fname == 'eval2' and not F._consistent(p, ADDRESS_WIDE) and F._consistent(p, F.INTLIKE + F.FLOLIKE):
                    continue
                if kind in RELOC_DIRECT[fname]:
                    if calls or len(stores) != 1:
                        bad['symbol-not-stored'] = '%s of %s returns without having stored the symbol of the object in the relocation out-parameter: `int *p = arr;` loses its symbol' % (fname, kind)
                    elif strip_widening(p.outcome[1]) != ('int', 0):
                        bad['addend-of-symbol-not-zero'] = '%s of %s stores the symbol and returns %s as its addend: the object itself is `symbol + 0`' % (fname, kind, show(p.outcome[1]))
                    continue
                if kind not in RELOC_THROUGH[fname]:
                    if calls or stores:
                        bad['relocation-through-non-address-operand:' + ','.join(sorted(who) or ['direct-store'])] = (
                            '%s of %s hands the relocation out-parameter to %s: the result of this operator is not `symbol + offset`, so `(long)&x` as an operand is '
                            'accepted and folded as if it were its addend alone instead of being rejected' % (fname, kind, ','.join(sorted(who)) or 'a direct store'))
                    continue
                want = RELOC_THROUGH[fname][kind]
                if want is None:
                    d = _child_truth(p).get('cond')
                    if d is None:
                        und = 'a returning path of %s has not branched on the folded condition' % kind; continue
                    want = 'then' if d else 'els'
                if not calls and not stores and p.guard_of(('call', 'is_flonum', (ty_of(child(want)),))) is True:
                    continue          # the path established that the operand is floating: it cannot denote an address
                if stores or len(calls) != 1 or (who[0] != want and who[0] not in also) or calls[0][1] not in ('eval2', 'eval_rval'):
                    bad['address-operand-without-relocation:' + want] = (
                        '%s of %s does not hand the relocation out-parameter to the folder on `%s` (it goes to: %s): an address constant in that operand '
                        '(`&x + 1`, `(long)&x`, `c ? &a : &b`, `&s.m`) is rejected or loses its symbol' % (fname, kind, want, ','.join(who) or 'nothing'))
                    continue
                wv = ('call', calls[0][1], calls[0][2])
                c = _coeff(p.outcome[1], wv)
                if c != 1:
                    bad['relocated-operand-not-additive:' + want] = (
                        '%s of %s returns %s: the operand that carries the symbol enters the result %s, so the emitted `symbol + addend` is not the value of the expression' % (
                            fname, kind, show(p.outcome[1]), 'non-additively' if c is None else 'with coefficient %d' % c))
                elif kind in ('ND_MEMBER', 'ND_ADDR', 'ND_DEREF'):
                    # the address of a member is the address of the aggregate plus the member's offset; & and * cancel
                    rest = _rest(p.outcome[1], wv)
                    want_rest = [('fld', ('fld', NODE, 'member'), 'offset')] if kind == 'ND_MEMBER' else []
                    if rest != want_rest:
                        bad['wrong-addend'] = ('%s of %s returns %s: the addend next to the operand\'s address must be %s' % (
                            fname, kind, show(p.outcome[1]), 'node->member->offset' if want_rest else 'nothing'))
            for c in (((RELOC_THROUGH[fname][kind],) + tuple(RELOC_ALSO.get(fname, {}).get(kind, ()))) if RELOC_ALSO.get(fname, {}).get(kind) else ()):
                got = slots.get(c, set())
                if 'slot' in got:
                    continue
                if 'other' in got:
                    und = und or ('%s of %s folds `%s` with a slot for the symbol that is not the out-parameter: whether the symbol reaches the caller is not decided' % (fname, kind, c))
                    continue
                bad['address-operand-without-relocation:' + c] = (
                    '%s of %s never hands the relocation out-parameter to the folder on `%s` (%s): this operand enters the sum with coefficient +1 like the other one and can be an '
                    'address converted to an integer type, which new_add leaves where it is: `int x; static long y = 1 + (long)&x;` is rejected ("not a compile-time constant") while '
                    '`(long)&x + 1` is accepted; gcc and the generated code accept both (+ is commutative)' % (fname, kind, c, 'it is folded without a slot' if got else 'it is not folded'))
            for construct, msg in sorted(bad.items()):
                rep.ob('R07.10', '%s:%s:%s/%s' % (U, fname, kind, construct), False, msg, where=w)
            if und and not bad:
                rep.undecided('R07.10', '%s:%s:%s/relocation' % (U, fname, kind), und, where=w)
            elif not bad:
                rep.ob('R07.10', '%s:%s:%s/relocation' % (U, fname, kind), True, '', where=w)


TRUTH_OPERANDS = {'ND_NOT': ('lhs',), 'ND_LOGAND': ('lhs', 'rhs'), 'ND_LOGOR': ('lhs', 'rhs'), 'ND_COND': ('cond',), 'ND_CAST': ('lhs',)}


def r0710_truth(F, rep):
    """Where address constants are allowed (the folder was given a slot for the symbol: a static initializer) an operand whose truth value is taken may be
    one: `static _Bool b = &x;`, `(_Bool)&x`, `!&x`, `&x && 1`, `&x ? 2 : 3` (C11 6.6p7/p9, 6.3.1.2: the address of an object compares unequal to null, the value
    is 1; gcc, clang and the generated code agree).  The folder can only say so if the operand is folded with some slot for its symbol: folded with no slot at
    all the address reaches the arm of the variable, which diagnoses "not a compile-time constant" - a valid initializer is rejected."""
    u = F.u
    lacking = {}; n = 0; und = None
    for kind, kids in sorted(TRUTH_OPERANDS.items()):
        try:
            ps = F.int_paths(kind)
        except Unsupported as e:
            und = 'cannot summarise eval2 of %s: %s' % (kind, e); continue
        if kind == 'ND_CAST':
            ps = F.facts(node='bool').select(ps)
        for c in kids:
            seen = set()
            for p in ps:
                if p.outcome[0] != 'ret' or p.guard_of(LABEL) is False:
                    continue
                if p.guard_of(('call', 'is_flonum', (ty_of(child(c)),))) is True:
                    continue
                for e in p.events:
                    if e[0] == 'call' and e[1] in ('eval2', 'eval_rval') and len(e[2]) > 1 and e[2][0] == child(c):
                        seen.add('none' if strip_widening(e[2][1]) == ('int', 0) else 'slot')
            if not seen:
                continue
            n += 1
            if 'slot' not in seen:
                lacking.setdefault(kind, []).append(c)
    # the static back end: an object / bit-field of type _Bool takes the truth value of its initializer
    if 'write_gvar_data' in u.functions and 'bool' in F.trec:
        rec = F.trec['bool']
        TY = ('sym', 'ty')

        def hook(base, f, rec=rec):
            if base == TY and f in ('kind', 'size', 'is_unsigned'):
                return ('int', int(rec[f]))
            return None
        try:
            seen = set()
            for p in SymExec(F.P, u, opaque=FOLD, field_hook=hook).run('write_gvar_data', [('sym', 'cur'), ('sym', 'init'), TY, ('sym', 'buf'), ('sym', 'offset')]):
                if p.outcome[0] != 'ret' or not any(e[0] == 'store' for e in p.events):
                    continue
                if p.guard_of(('call', 'is_flonum', (ty_of(INIT_EXPR),))) is True:
                    continue
                for e in p.events:
                    if e[0] == 'call' and e[1] in ('eval2', 'eval_rval') and len(e[2]) > 1 and e[2][0] == INIT_EXPR:
                        seen.add('none' if strip_widening(e[2][1]) == ('int', 0) else 'slot')
            if seen:
                n += 1
                if 'slot' not in seen:
                    lacking.setdefault('static-_Bool-object', []).append('initializer')
            else:
                und = 'write_gvar_data was not seen folding the initializer of a _Bool object (its interface or shape changed): the position cannot be judged'
        except Unsupported as e:
            und = 'cannot summarise write_gvar_data for a _Bool object: %s' % e
    key = '%s:eval2:truth-of-address-constant' % U
    w = '%s:%d' % (U, u.fn('eval2').line)
    if und:
        # the key of the aggregated obligation names every failing position: with one position unjudged it would name another set than the
        # one that was triaged, so no verdict is given at all
        rep.undecided('R07.10', key, und, where=w)
    elif lacking:
        rep.ob('R07.10', '%s/folded-without-slot:%s' % (key, ','.join(sorted(lacking))), False,
               'where address constants are allowed (static initializer: the folder has a slot for the symbol) the operand whose truth value is taken is folded with no slot at all in: %s: '
               'an address constant there reaches the arm of the variable, which answers "not a compile-time constant": `int x; static _Bool b = &x;`, `static _Bool b = (_Bool)&x;`, '
               '`static int n = !&x;`, `= &x && 1;`, `= &x ? 2 : 3;` are rejected; the value is 1 (C11 6.3.1.2, the address of an object is not null), gcc and clang accept them' % (
                   ', '.join('%s (%s)' % (k, '/'.join(v)) for k, v in sorted(lacking.items()))), where=w, facts={'positions': {k: v for k, v in lacking.items()}})
    elif und or n < 5:
        rep.undecided('R07.10', key, und or 'only %d operand positions whose truth value is taken were found' % n, where=w)
    else:
        rep.ob('R07.10', key, True, '', where=w)


# ----------------------------------------------------------------- R07.11 ---
def r0711(F, rep):
    u = F.u
    rep.rule('R07.11', 'the identifier environment of a constant expression holds only complete entries: on no path of any function is a scope entry created '
                       '(inserted into the identifier table), an identifier-resolving call made (const_expr and everything else that reaches the table lookup), and the '
                       'entry written afterwards; an enumerator is therefore not visible, with a provisional value, inside its own defining constant expression', floor=4)
    entry_types, inserters, lookups, graph = table_model(u)
    if not entry_types or not inserters or not lookups:
        raise AnalysisBroken('identifier table of parse.c not recognised (entry types %s, inserters %s, lookups %s)' % (sorted(entry_types), sorted(inserters), sorted(lookups)))
    resolvers = reaching(graph, lookups)
    may_insert = reaching(graph, inserters)

    def ret_type(fd):
        t = (fd.type or '')
        return t.split('(')[0].replace('struct ', '').replace('const ', '').replace(' ', '')
    creators = set(f for f in may_insert if f in u.functions and ret_type(u.functions[f]) in entry_types)
    if not creators:
        raise AnalysisBroken('no function of parse.c returns a freshly inserted scope entry')
    for need in ('const_expr',):
        if need not in resolvers:
            rep.undecided('R07.11', '%s:%s:reaches-lookup' % (U, need), '%s no longer reaches the lookup of the identifier table (%s): the model of what resolves identifiers is broken' % (need, ','.join(sorted(lookups))))
            return
    flow = EntryFlow(u, creators, resolvers)
    for fname in sorted(u.functions):
        fd = u.functions[fname]
        sites = flow.analyse(fd)
        merged = {}
        for s in sites:
            if s.how == 'returned' and fname in creators:
                key = 'scope-entry(returned)'
            elif s.how == 'other':
                key = 'scope-entry(escapes)'
                s.und = s.und or 'the result of %s is neither bound to a local nor written directly: where the entry is completed is not decided' % s.creator
            else:
                key = 'scope-entry(%s)' % ','.join(sorted(s.fields))
            m = merged.setdefault(key, {'late': {}, 'und': None, 'line': s.node.line, 'creator': s.creator})
            for f, via in s.late.items():
                m['late'].setdefault(f, via)
            m['und'] = m['und'] or s.und
        for key, m in sorted(merged.items()):
            w = '%s:%d' % (U, m['line'])
            if m['late']:
                fields = sorted(m['late'])
                vias = sorted(set(m['late'].values()))
                rep.ob('R07.11', '%s:%s:%s/visible-before-complete:%s' % (U, fname, key, ','.join(fields)), False,
                       '%s enters an identifier into scope with %s() and writes the entry\'s field(s) %s only after %s ran: the expression parsed in between resolves the identifier to the '
                       'half-initialised entry (calloc\'ed fields), so a constant expression that mentions the name being defined (`enum { N = N + 1 }` inside a scope where an outer N exists; C11 6.2.1p7: '
                       'the scope of an enumerator begins just after its definition) is folded with a value the identifier has in no execution, and every enumerator, array bound and case label '
                       'derived from it differs from run-time evaluation' % (fname, m['creator'], ','.join(fields), ','.join(vias)), where=w,
                       facts={'creator': m['creator'], 'late_fields': fields, 'between': vias})
            elif m['und']:
                rep.undecided('R07.11', '%s:%s:%s' % (U, fname, key), m['und'], where=w)
            else:
                rep.ob('R07.11', '%s:%s:%s' % (U, fname, key), True, '', where=w)


# ----------------------------------------------------------------- R07.12 ---
def _static_back_end(P, tier):
    """the obligations of C05 about the static-initializer back end (the consumer of the folder's values and address constants), run once into a
    Report of their own: (report, None) or (None, why not)"""
    from ..report import Report
    from . import c05
    sub = Report('C05')
    try:
        try:
            # only the rule functions of C05 that look at the consumer (a few seconds); the whole of c05.run when their interface moved
            u = P.unit(U)
            for r in ('R05.1', 'R05.2', 'R05.3', 'R05.4', 'R05.5', 'R05.7', 'R05.13'):
                sub.rule(r, '', 1)
            be = c05.BackEnd(P, u, u.enums, 'write_gvar_data')
            c05.r051_array(be, sub)
            c05.r051_struct(be, sub)
            c05.r051_struct_expr(be, sub)
            c05.r051_struct_expr(be, sub, 'TY_UNION', 'union')
            c05.r051_union(be, sub)
            c05.r052_scalars(P, u, u.enums, Catalogue(P), sub)
            c05.r052_truth_helper(P, u, u.enums, sub)
            c05.r053(P, u, u.enums, sub)
            c05.r055(P, sub)
        except (AttributeError, TypeError):
            sub = Report('C05')
            c05.run(P, sub, tier)
    except AnalysisBroken as e:
        return None, str(e)
    return sub, None


def r0712(P, rep, tier, back=None):
    """the static-initializer back end is the consumer that turns the folder's 64-bit / double value into the bytes of an object: the conversion to the
    object's type that an assignment performs at run time (C11 6.7.9p11) happens there.  C05 decides it (R05.2 scalars, eval_truth; R05.4 bit-field
    merge); the same obligations are the consumer clause of C07 for static initializers and are re-issued here."""
    from ..report import reissue
    rep.rule('R07.12', 'static initializers: the folded value reaches the object converted to the object\'s type as a run-time assignment converts it: every scalar class '
                       'is stored with its own width and representation, a _Bool object and a _Bool bit-field receive `value != 0` (not the low byte / the low bits of the '
                       'folded value), a bit-field is merged as old | ((new & mask) << offset) in 64 bits (same obligations as C05 R05.2 / R05.4 on write_gvar_data and eval_truth)',
             floor=18)
    sub, why = back if back is not None else _static_back_end(P, tier)
    if sub is None:
        rep.undecided('R07.12', '%s:write_gvar_data:consumer' % U, 'the static back end could not be evaluated: %s' % why)
        return

    def keep(o):
        k = o['key']
        return k.startswith(('R05.2:', 'R05.4:')) and (':write_gvar_data:' in k or ':eval_truth:' in k)
    n = reissue(rep, 'R07.12', sub, 'the value the folder computed is not the value the object holds: ', keep=keep)
    if n == 0:
        rep.undecided('R07.12', '%s:write_gvar_data:consumer' % U, 'C05 produced no obligation about the static back end')


# ----------------------------------------------------------------- R07.14 ---
def r0714(P, rep, tier, back=None):
    """an address constant leaves the folder as label + addend (eval2's out-parameter and return value); its value at run time is the address of the
    object plus the addend, stored in the pointer sub-object it initialises.  Between the folder and the emitted `.quad label+addend` the pair travels as a
    Relocation whose offset is the position of that sub-object in the image of the outermost object.  Every step that creates, copies or consumes a
    Relocation must keep (offset of the sub-object, label, addend): creation at the element offset (write_gvar_data), a copied image (a struct initialised
    by a compound literal of its own type: the relocations of the literal's image are relative to the literal and are displaced by the position of the copy),
    the cursor threaded through the recursion in image order, the list handed to the object, and emit_data printing label and addend when the walk reaches
    the relocation's offset.  C05 decides each of these (R05.1 image copy, R05.3, R05.5, R05.7); they state this clause of C07 and are re-issued."""
    from ..report import reissue
    rep.rule('R07.14', 'address constants in static initializers: the label + addend the folder produced reaches the emitted image at the position of the sub-object it '
                       'initialises: a relocation is created at the element offset with the folder\'s label and value; every relocation created for a copied image '
                       '(struct / union initialised by an object whose image is already computed) is a fresh record displaced by the position of the copy and carries '
                       'label and addend of the source; the relocation cursor is threaded through every recursive call in image order and returned; the object '
                       'receives image and list; emit_data prints label and addend exactly when the image walk reaches the relocation\'s offset '
                       '(same obligations as C05 R05.1 image-copy / R05.3 / R05.5 / R05.7)', floor=7)
    sub, why = back if back is not None else _static_back_end(P, tier)
    if sub is None:
        rep.undecided('R07.14', '%s:write_gvar_data:address-constants' % U, 'the static back end could not be evaluated: %s' % why)
        return

    def keep(o):
        k = o['key']
        if k.startswith('R05.7:') and ':write_gvar_data:' in k:
            return True                  # cursor threading per aggregate arm, the relocation record of a scalar
        if k.startswith('R05.1:') and ':write_gvar_data:' in k and '-valued-initializer/image-' in k:
            return True                  # image copy: bytes, and the relocations displaced by the position of the copy
        if k.startswith('R05.3:') and ':gvar_initializer:' in k and ('relocations' in k or 'offset-0' in k):
            return True                  # the object gets the list behind the dummy head; the root image starts at offset 0
        if k.startswith('R05.5:') and ':emit_data:' in k:
            c = k.split(':emit_data:', 1)[1]
            # the consumer's walk over image + relocations (.quad label+addend at rel->offset); not the header directives / the zero fill
            return not c.startswith('.') and not c.startswith('uninitialised')
        return False
    n = reissue(rep, 'R07.14', sub, 'the address constant the folder computed (label + addend) is not what the object holds at that position: ', keep=keep)
    if n == 0:
        rep.undecided('R07.14', '%s:write_gvar_data:address-constants' % U, 'C05 produced no obligation about relocations of the static back end')


# ----------------------------------------------------------------- R07.15 ---
INIT_EXPR = ('fld', ('sym', 'init'), 'expr')


def _holds_range(H, bits, signed):
    """every value of the integer type (bits, signed) is a value of the host integer type H"""
    if H[0] != 'i':
        return False
    if H[2] == signed:
        return H[1] >= bits
    return H[2] and H[1] > bits


def _keeps_low_bits(rest, H, bits):
    """the integral conversions `rest` applied to a value of host type H keep its low `bits` bits (for every witness value)"""
    for x in WITNESS:
        x = wrap(x, H)
        v = chain_fn_(rest, x, H)
        if v is None or wrap(v, ('i', bits, False)) != wrap(x, ('i', bits, False)):
            return False
    return True


def chain_fn_(chain, x, T0):
    v = wrap(x, T0)
    for to, frm in chain:
        if to[0] != 'i':
            return None
        v = wrap(v, to)
    return v


def _strip_flo(v, p_min=0):
    """v without its widening conversions and without the conversions between floating formats of at least p_min digits (the identity on a value that is
    exact in p_min digits)"""
    while True:
        v = strip_widening(v)
        if v[0] == 'cast' and v[1][0] == 'f' and v[2][0] == 'f' and PREC.get(v[1][1], 0) >= p_min:
            v = v[3]; continue
        return v


def _guard_on_rounded(p, w, p_ft):
    """a guard of path p compares the floating value w, exact in p_ft digits, after it was rounded to fewer digits: the format name, or None"""
    for a, t in p.guards:
        if a[0] != 'bin' or a[1] not in ('<', '<=', '>', '>=', '==', '!='):
            continue
        for x in (a[2], a[3]):
            if _strip_flo(x, p_ft) != w and _strip_flo(x, 0) == w:
                y = _strip_flo(x, p_ft)
                return tshow(y[1]) if y[0] == 'cast' else 'a narrower type'
    return None


def _value_bounds(p, w, p_min=None):
    """[lo, hi] (python ints, None = unbounded) that the guards of path p put on the integral part of the floating value w by comparing it with constants
    (p_min: the comparisons may look at w through conversions between floating formats of at least p_min digits, which do not change it)"""
    import math
    lo = hi = None
    for a, t in p.guards:
        if a[0] != 'bin' or a[1] not in ('<', '<=', '>', '>='):
            continue
        x, y, op = strip_widening(a[2]), strip_widening(a[3]), a[1]
        if p_min is not None:
            x, y = _strip_flo(x, p_min), _strip_flo(y, p_min)
        if y == w and x[0] in ('flt', 'int'):
            x, y, op = y, x, {'<': '>', '<=': '>=', '>': '<', '>=': '<='}[op]
        if x != w or y[0] not in ('flt', 'int'):
            continue
        if not t:
            op = {'<': '>=', '<=': '>', '>': '<=', '>=': '<'}[op]
        c = y[1]
        if op in ('>', '>='):
            b = math.floor(c)
            lo = b if lo is None else max(lo, b)
        else:
            b = int(c) - 1 if (op == '<' and c == math.floor(c) and c > 0) else (math.floor(c) if c >= 0 else math.ceil(c))
            hi = b if hi is None else min(hi, b)
    return lo, hi


def _peel_flo(chain, p_ft):
    """chain (inner first) of conversions applied to a floating value that is exact in p_ft digits -> (digits of the narrowest floating format the value is
    rounded to before it leaves the floating formats, or None when every such conversion holds it exactly; the rest of the chain)"""
    i = 0; narrow = None
    while i < len(chain) and chain[i][0][0] == 'f' and chain[i][1][0] == 'f':
        d = PREC.get(chain[i][0][1], 0)
        if d < p_ft and (narrow is None or d < narrow):
            narrow = d
        i += 1
    return narrow, chain[i:]


def _flo_shortcut(F):
    """what the integer folder returns for a node of floating type: ({floating type: [(lo, hi, chain (inner first) around eval_double(node), beginning with the
    conversion to an integer type)]}, one entry per returning path (lo, hi: the bounds the path condition puts on the value); {floating type: digits of a
    narrower floating format the value is rounded to before that conversion}; {floating type: why the bounds are not decided}), or a str (why not)"""
    out = {}; narrowed = {}; und = {}
    w = ('call', 'eval_double', (NODE,))
    for ft in F.FLOLIKE:
        branches = set()
        for kind in ('ND_NUM', 'ND_ADD', 'ND_CAST'):
            for p in F.facts(node=ft).select(F.paths('eval2', kind)):
                if p.outcome[0] != 'ret':
                    continue
                core, chain = _core(p.outcome[1])
                narrow, rest = _peel_flo(chain, FLO_PREC[ft])
                if core != w or not rest or rest[0][1][0] != 'f' or rest[0][0][0] != 'i':
                    return 'the value eval2 returns for a node of type %s (%s) is not a host conversion of eval_double(node) to an integer type' % (ft, show(p.outcome[1]))
                if narrow is not None:
                    narrowed[ft] = min(narrow, narrowed.get(ft, narrow))
                    # reported on its own; the range of the integer conversion is judged as if the guards looked at the value converted
                    lohi = _value_bounds(p, w, 0)
                else:
                    g = _guard_on_rounded(p, w, FLO_PREC[ft])
                    if g:
                        und[ft] = ('the path that returns %s is selected by a comparison of the value rounded to %s: which values of a %s node take it is not decided' % (
                            show(p.outcome[1]), g, ft))
                    lohi = _value_bounds(p, w, FLO_PREC[ft])
                branches.add(lohi + (tuple(rest),))
        if not branches:
            return 'eval2 has no returning path for a node of type %s' % ft
        out[ft] = sorted(branches, key=repr)
    return out, narrowed, und


def _flo_to_int(F, p, v, shortcut, ft, is_arg, not_floating):
    """v: a value the folder / a consumer derives on path p from an operand that has (may have) the floating type ft.  -> [(lo, hi, H, rest)]: for the values whose
    integral part is in [lo, hi] the floating value is first converted to the host integer type H and then passes through the integral conversions `rest`;
    None: the operand is known not to be floating here; str: not recognised"""
    core, chain = _core(v)
    if core[0] != 'call' or core[1] not in EVALUATORS or not core[2] or not is_arg(core[2][0]):
        return 'the value %s is not a conversion of the folded operand' % show(v)
    if core[1] == 'eval_double':
        narrow, chain = _peel_flo(chain, FLO_PREC[ft])
        if not chain or chain[0][1][0] != 'f' or chain[0][0][0] != 'i':
            return 'the floating value is used as %s' % show(v)
        if narrow is None:
            g = _guard_on_rounded(p, core, FLO_PREC[ft])
            if g:
                return 'the path that yields %s is selected by a comparison of the value rounded to %s' % (show(v), g)
        lo, hi = _value_bounds(p, core, 0 if narrow is not None else FLO_PREC[ft])
        return [(lo, hi, chain[0][0], chain[1:], narrow)]
    if not_floating:
        return None
    if core[1] != 'eval2':
        return '%s is applied to an operand of floating type' % core[1]
    if ft in shortcut[2]:
        return shortcut[2][ft]
    # (a rounding inside eval2's own path for floating nodes is reported there, once per floating type)
    return [(lo, hi, sc[0][0], list(sc[1:]) + chain, None) for lo, hi, sc in shortcut[0][ft]]


def r0715(F, rep):
    """C11 6.3.1.4: a finite floating value converted to an integer type is truncated toward zero, and the result is that value whenever the
    destination can represent it.  The generated code does that for every destination (it has a separate sequence for unsigned 64-bit).  The folder
    converts on the host: the host conversion must go to a host integer type that holds every value of the destination the path can see (then the reduction
    to the destination is the identity on the defined cases); a conversion to int64_t does not yield the values 2^63 .. 2^64-1 of an unsigned 64-bit destination."""
    u = F.u
    rep.rule('R07.15', 'a floating value converted to an integer type by the folder (operand of a cast, eval2 ND_CAST; initializer of a static object of integer type, '
                       'write_gvar_data) goes through a host conversion whose target type holds every value of the destination type that the path condition admits, and keeps the '
                       'destination\'s bits afterwards, for every integer class of the catalogue and every floating operand type; before that conversion the value is held only in host floating '
                       'types that represent every value of the operand\'s type exactly (a long double value is not rounded to double first: the generated code converts all 64 digits) '
                       '(C11 6.3.1.4; run time: the cast table of the code generator)', floor=17)
    try:
        shortcut = _flo_shortcut(F)
    except Unsupported as e:
        shortcut = 'cannot summarise eval2 on a floating node: %s' % e
    if isinstance(shortcut, str):
        rep.undecided('R07.15', '%s:eval2:floating-node' % U, shortcut, where='%s:%d' % (U, u.fn('eval2').line))
        return
    # eval2's own path for a node of floating type (every floating -> integer conversion of the folder starts here): the value eval_double returned, exact in
    # the digits of the node's type, must reach the conversion to the integer type unrounded
    we = '%s:%d' % (U, u.fn('eval2').line)
    for ft in F.FLOLIKE:
        d = shortcut[1].get(ft)
        key = '%s:eval2:floating-node/%s' % (U, ft)
        if d is not None:
            nm = PREC_NAME.get(d, '%d-digit format' % d)
            rep.ob('R07.15', '%s:rounded-to-%s-before-conversion' % (key, nm.replace(' ', '-')), False,
                   'eval2 converts the value of a node of type %s to an integer after it has passed through a host object / conversion of type %s (%d digits; the node\'s type has %d): '
                   'every floating -> integer conversion the folder performs (casts, static integer objects initialised from a floating expression, array bounds / case labels / enumerators '
                   'built from such casts) rounds the value first, while the generated code converts the unrounded value: `static long x = (long)9007199254740993.0L;` holds 9007199254740992, '
                   '`static unsigned long u = 18446744073709551615.0L;` holds 0 (run time: 9007199254740993, 18446744073709551615)' % (PREC_NAME[FLO_PREC[ft]], nm, d, FLO_PREC[ft]),
                   where=we, facts={'node_type': ft, 'digits_kept': d, 'digits_of_type': FLO_PREC[ft]})
        elif ft in shortcut[2]:
            rep.undecided('R07.15', key, shortcut[2][ft], where=we)
        else:
            rep.ob('R07.15', key, True, '', where=we)
    classes = {}
    for t in F.INTLIKE:
        if t not in ('bool', 'ptr'):      # _Bool: R07.2 / R07.12; a floating value converted to a pointer is a constraint violation
            classes.setdefault(cls_of(F.trec[t], F.tk), []).append(t)

    def judge(key, where, values, dest):
        """values: [(type name, floating type, path, value, is_arg, known not floating)]"""
        bad = {}; und = None; n = 0
        for t, ft, p, v, is_arg, nf in values:
            rec = F.trec[t]
            bits, signed = rec['size'] * 8, not rec['is_unsigned']
            tlo, thi = (-(1 << (bits - 1)), (1 << (bits - 1)) - 1) if signed else (0, (1 << bits) - 1)
            r = _flo_to_int(F, p, v, shortcut, ft, is_arg, nf)
            if r is None:
                continue
            if isinstance(r, str):
                und = r; continue
            n += 1
            for lo, hi, H, rest, narrow in r:
                if narrow is not None:
                    nm = PREC_NAME.get(narrow, '%d-digit format' % narrow)
                    bad['rounded-to-%s-before-conversion' % nm.replace(' ', '-')] = (
                        '%s of type %s from a %s value: the folded value is rounded to %s (%d digits) before the host converts it to %s (%s), the generated code converts the unrounded '
                        '%d-digit value: `(long)9007199254740993.0L` folds to 9007199254740992' % (dest, t, ft, nm, narrow, tshow(H), show(v), FLO_PREC[ft]))
                # the values of the destination type this branch is taken for
                a = tlo if lo is None else max(tlo, lo)
                b = thi if hi is None else min(thi, hi)
                if a > b:
                    continue
                hlo, hhi = (-(1 << (H[1] - 1)), (1 << (H[1] - 1)) - 1) if H[2] else (0, (1 << H[1]) - 1)
                if a < hlo or b > hhi:
                    wit = b if b > hhi else a
                    bad['converted-as-' + tshow(H)] = (
                        '%s of type %s (%d bits, %s) from a %s value: the host converts the floating value to %s first (%s%s): a value the destination type can represent but %s cannot '
                        '(e.g. %d) is outside the host conversion\'s range (undefined on the host; x86 yields 0x8000000000000000), while the generated code converts it correctly: '
                        '`static unsigned long u = (unsigned long)1.2e19;` / `= 1.2e19;` holds 9223372036854775808, the same conversion at run time 12000000000000000000' % (
                            dest, t, bits, 'signed' if signed else 'unsigned', ft, tshow(H), show(v),
                            '' if _core(v)[0][1] == 'eval_double' else ', whose value for a floating node is (%s)eval_double(node)' % tshow(H), tshow(H), wit))
                elif any(c[0][0] != 'i' for c in rest) or not _keeps_low_bits(rest, H, bits):
                    bad['narrowed-after-conversion'] = ('%s of type %s from a %s value: after the conversion to %s the value passes through %s, which does not keep the %d bits of the destination' % (
                        dest, t, ft, tshow(H), show(v), bits))
        for c, m in sorted(bad.items()):
            rep.ob('R07.15', '%s/%s' % (key, c), False, m, where=where)
        if bad:
            return
        if und or not n:
            rep.undecided('R07.15', key, und or 'no path converts a floating value for this class', where=where)
        else:
            rep.ob('R07.15', key, True, '', where=where)

    # (a) eval2 ND_CAST with a floating operand
    w = '%s:%d' % (U, line_of_kind(u, 'eval2', F.E['ND_CAST']))
    try:
        ps = F.int_paths('ND_CAST')
    except Unsupported as e:
        rep.undecided('R07.15', '%s:eval2:ND_CAST/floating-operand' % U, 'cannot summarise: %s' % e, where=w)
        ps = None
    if ps is not None:
        for cls, tnames in sorted(classes.items()):
            vals = []
            for t in tnames:
                for ft in F.FLOLIKE:
                    for p in F.facts(node=t, lhs=ft).select(ps):
                        if p.outcome[0] == 'ret':
                            vals.append((t, ft, p, p.outcome[1], lambda a: a == child('lhs'), False))
            judge('%s:eval2:ND_CAST/%s:floating-operand' % (U, cls), w, vals, 'a cast to a destination')

    # (b) write_gvar_data: a static object of integer type whose initializer expression may be floating (no cast node is inserted by the parser)
    if 'write_gvar_data' not in u.functions:
        raise AnalysisBroken('anchor function write_gvar_data vanished from %s' % U)
    wg = '%s:%d' % (U, u.fn('write_gvar_data').line)
    conv = _parser_converts_initializer(u)
    TY = ('sym', 'ty')
    for cls, tnames in sorted(classes.items()):
        key = '%s:write_gvar_data:scalar/%s:floating-initializer' % (U, cls)
        if conv:
            rep.undecided('R07.15', key, 'the parser stores a new_cast() node into Initializer.expr (%s): whether the expression handed to write_gvar_data still can be floating is not decided' % conv, where=wg)
            continue
        vals = []; und = None
        for t in tnames:
            rec = F.trec[t]

            def hook(base, f, rec=rec):
                if base == TY and f in ('kind', 'size', 'is_unsigned'):
                    return ('int', int(rec[f]))
                return None
            try:
                paths = SymExec(F.P, u, opaque=FOLD, field_hook=hook).run('write_gvar_data', [('sym', 'cur'), ('sym', 'init'), TY, ('sym', 'buf'), ('sym', 'offset')])
            except Unsupported as e:
                und = 'cannot summarise write_gvar_data for an object of type %s: %s' % (t, e); continue
            for ft in F.FLOLIKE:
                # the object has type t, the initializer expression has type ft: the type predicates on either are decided
                tf = TypeFacts({INIT_EXPR: F.trec[ft]}, F.preds)
                for p in _select_with_ty(tf, paths, TY, rec):
                    if p.outcome[0] != 'ret':
                        continue
                    for e in p.events:
                        if e[0] == 'store' and any(x == ('sym', 'buf') for x in walk(e[1])):
                            vals.append((t, ft, p, e[2], lambda a: a == INIT_EXPR, False))
        if und and not vals:
            rep.undecided('R07.15', key, und, where=wg)
        else:
            judge(key, wg, vals, 'a static object')


def _select_with_ty(tf, paths, TY, rec):
    """paths whose guards agree with the type facts tf, where the predicates of type.c applied to the parameter TY itself (is_integer(ty)) are
    evaluated on the record rec"""
    out = []
    for p in paths:
        ok = True
        for a, t in p.guards:
            x = None
            if a[0] == 'call' and a[1] in tf.preds and len(a[2]) == 1 and a[2][0] == TY:
                x = int(tf.preds[a[1]][rec['kind']])
            else:
                x = tf.ev(a)
            if x is not None and bool(x) != t:
                ok = False; break
        if ok:
            out.append(p)
    return out


def _parser_converts_initializer(u):
    """name of a function that stores a new_cast(...) node into the `expr` field of an Initializer (then the expression write_gvar_data folds carries
    the conversion to the object's type as an ND_CAST node of its own, judged by part (a)); '' when there is none"""
    for fname, fd in sorted(u.functions.items()):
        for n in fd.walk():
            if n.kind == 'BinaryOperator' and n.opcode == '=':
                L = n.inner[0].strip()
                if L.kind == 'MemberExpr' and L.name == 'expr' and 'Initializer' in (L.inner[0].type or '') and n.inner[1].calls('new_cast'):
                    return fname
    return ''


# ----------------------------------------------------------------- R07.13 ---
# digits (bits of significand) of the floating formats: clang's float / double / x87 long double, and the catalogue's type classes
PREC = {32: 24, 64: 53, 80: 64}
FLO_PREC = {'float': 24, 'double': 53, 'ldouble': 64}
PREC_NAME = {24: 'float', 53: 'double', 64: 'long double'}
FLO_ARITH = {'ND_ADD': '+', 'ND_SUB': '-', 'ND_MUL': '*', 'ND_DIV': '/'}
# kind -> child whose folded value is passed through; by the typing relation (add_type: usual arithmetic conversions, R01.2) the child has the node's type
FLO_PASS = {'ND_COND': ('then', 'els'), 'ND_COMMA': ('rhs',), 'ND_NEG': ('lhs',)}


def _peel(v):
    """(core, [(to, from)] inner first) of a value under its conversions"""
    chain = []
    while v[0] == 'cast':
        chain.append((v[1], v[2])); v = v[3]
    chain.reverse()
    return v, chain


def _int_digits(T):
    """binary digits an integer of type T needs"""
    if T[0] == 'b':
        return 1
    return T[1] - (1 if T[2] else 0)


def _roundings(chain, p_src):
    """the precisions at which a value that is exact in p_src digits is really rounded by the chain of conversions (a conversion to a format
    that holds the value is the identity); None when the chain leaves the floating formats"""
    cur = p_src
    out = []
    for to, frm in chain:
        if to[0] != 'f' or to[1] not in PREC:
            return None
        p = PREC[to[1]]
        if p < cur:
            out.append(p); cur = p
    return out


def _judge_conv(rs, p_src, p_t, p_node=None):
    """a value exact in p_src digits must arrive as the value of a node whose type has p_t digits (p_node: the digits of the node's type
    when the return type of the folder lets fewer through): (construct, message) when wrong"""
    tn = PREC_NAME[p_t]
    if rs and min(rs) < p_t:
        return ('rounded-to-%s' % PREC_NAME[min(rs)].replace(' ', '-'),
                'is rounded to %s although the node has type %s: digits the run-time value has are lost' % (PREC_NAME[min(rs)], PREC_NAME[p_node or p_t]))
    if p_src <= p_t:
        return None          # every rounding recorded is below p_src <= p_t: handled above
    if not rs or rs[-1] != p_t:
        return ('not-rounded-to-%s' % tn.replace(' ', '-'),
                'keeps %s precision although the node has type %s: the generated code rounds to %s here' % (PREC_NAME[rs[-1]] if rs else PREC_NAME.get(p_src, '%d-digit' % p_src), tn, tn))
    if len(rs) > 1:
        return ('rounded-twice:' + '-'.join(PREC_NAME[r].replace(' ', '-') for r in rs),
                'is rounded to %s and then to %s: two roundings differ from the single rounding of the run-time conversion for values close to a midpoint' % (PREC_NAME[rs[0]], tn))
    return None


def _tokenizer_may_round(P):
    """does a function that stores a literal's floating value (`->fval = ...`) contain a narrowing conversion between floating formats?
    (then the literal may arrive rounded already and the folder's ND_NUM arm need not round)"""
    for un in P.unit_names:
        cu = P.unit(un)
        for fname, fd in cu.functions.items():
            stores = False
            narrow = False
            for n in fd.walk():
                if n.kind == 'BinaryOperator' and n.opcode == '=' and n.inner[0].strip().kind == 'MemberExpr' and n.inner[0].strip().name == 'fval':
                    stores = True
                if n.kind in ('ImplicitCastExpr', 'CStyleCastExpr') and n.cast_kind == 'FloatingCast':
                    a, b = ctype(n.dtype), ctype(n.inner[0].dtype)
                    if a[0] == 'f' and b[0] == 'f' and a[1] < b[1] and a[1] < 80:
                        narrow = True
            if stores and narrow:
                return '%s:%s' % (un, fname)
    return None


def r0713(F, P, rep):
    u = F.u
    rep.rule('R07.13', 'per arm of eval_double and per floating node type the returned value has the precision of the node\'s type, as the run-time value has: operands are not rounded '
                       'below their type; + - * / are carried out in the node\'s type, or in a format of at least 2p+2 digits and rounded once to the node\'s type; a cast and a literal '
                       'are rounded exactly once, directly to the node\'s type; a value passed through (?:, comma, unary -) is not rounded again; the return type of eval_double holds '
                       'every floating type', floor=20)
    fd = u.fn('eval_double')
    rt = ctype((fd.dtype or fd.type or '').split('(')[0].strip())
    if rt[0] != 'f' or rt[1] not in PREC:
        rep.undecided('R07.13', '%s:eval_double:return-type' % U, 'the return type of eval_double (%s) is not a floating type' % tshow(rt))
        return
    p_ret = PREC[rt[1]]
    widest = max(FLO_PREC[t] for t in F.FLOLIKE)
    w = '%s:%d' % (U, fd.line)
    ok = p_ret >= widest
    rep.ob('R07.13', '%s:eval_double:return-type%s' % (U, '' if ok else '/%s-cannot-hold-long-double' % tshow(rt).replace(' ', '-')), ok,
           'eval_double returns %s: every floating constant expression of type long double (`static long double x = 0.1L;`, `1.0L / 3.0L`, `(long double)9223372036854775807L`, and the '
           'operands of a folded long double comparison) is cut to %d digits at translation time while the generated code computes it with 64 digits' % (tshow(rt), p_ret), where=w)
    fval_t = None
    for f, qt, bf in u.records.get('Node', []):
        if f == 'fval':
            fval_t = ctype(qt)
    if fval_t is None or fval_t[0] != 'f' or fval_t[1] not in PREC:
        rep.undecided('R07.13', '%s:eval_double:ND_NUM' % U, 'Node.fval not found or not of a floating type')
        fval_t = None
    tok_round = None

    def operand(v, kids, p_eff):
        """None when v is conversions(eval_double(node->kid)) with kid in kids and no rounding below the operand's precision;
        else (construct, message) / ('?', why)"""
        core, chain = _peel(v)
        r = as_rec(core)
        if not r or core[0] != 'call' or r[0] != 'eval_double' or r[1] not in kids:
            return '?', 'operand %s is not the floating folder on %s' % (show(v), '/'.join(kids))
        rs = _roundings(chain, p_eff)
        if rs is None:
            return '?', 'operand %s leaves the floating formats' % show(v)
        if rs:
            return 'operand-rounded-to-%s' % PREC_NAME[min(rs)].replace(' ', '-'), 'the folded %s is rounded to %s before the operation (%s)' % (r[1], PREC_NAME[min(rs)], show(v))
        return None

    for kind in list(FLO_ARITH) + sorted(FLO_PASS) + ['ND_CAST', 'ND_NUM']:
        try:
            ps = [p for p in F.flo_paths(kind) if p.outcome[0] == 'ret']
        except Unsupported as e:
            rep.undecided('R07.13', '%s:eval_double:%s' % (U, kind), 'cannot summarise: %s' % e)
            continue
        if not ps:
            continue          # a missing arm: R07.8
        wk = '%s:%d' % (U, line_of_kind(u, 'eval_double', F.E[kind]))
        for t in F.FLOLIKE:
            p_t = FLO_PREC[t]
            p_eff = min(p_t, p_ret)      # what the return type lets through (its own obligation above)
            bad = {}
            ots = {}
            und = None
            # a cast: the operand has any arithmetic type; paths may depend on it
            operand_types = (F.INTLIKE + F.FLOLIKE) if kind == 'ND_CAST' else (None,)
            n = 0
            for ot in operand_types:
                if ot == 'ptr':
                    continue
                sel = (F.facts(node=t, lhs=ot) if ot else F.facts(node=t)).select(ps)
                for p in sel:
                    n += 1
                    v = p.outcome[1]
                    core, chain = _peel(v)
                    res = None
                    if kind in FLO_ARITH:
                        if core[0] != 'bin' or core[4][0] != 'f' or core[4][1] not in PREC:
                            und = 'the arm returns %s' % show(v); continue
                        p_h = PREC[core[4][1]]
                        e = operand(core[2], ('lhs', 'rhs'), p_eff) or operand(core[3], ('lhs', 'rhs'), p_eff)
                        if e:
                            if e[0] == '?':
                                und = e[1]
                            else:
                                bad[e[0]] = e[1]
                            continue
                        rs = _roundings(chain, p_h)
                        if rs is None:
                            und = 'the result %s leaves the floating formats' % show(v); continue
                        if p_h < p_eff:
                            res = ('computed-in-%s' % PREC_NAME[p_h].replace(' ', '-'), 'is computed in %s although the node has type %s' % (PREC_NAME[p_h], PREC_NAME[p_t]))
                        elif p_h == p_eff:
                            res = _judge_conv(rs, p_eff, p_eff, p_t)
                        else:
                            res = _judge_conv(rs, p_h, p_eff, p_t)
                            if res is None and p_h < 2 * p_eff + 2:
                                res = ('rounded-twice:%s-%s' % (PREC_NAME[p_h].replace(' ', '-'), PREC_NAME[p_eff].replace(' ', '-')),
                                       'is computed in %s (%d digits) and then rounded to %s (%d digits): the operation rounds once and the conversion a second time, which differs from '
                                       'the single rounding of the run-time operation unless the wider format has at least %d digits' % (PREC_NAME[p_h], p_h, PREC_NAME[p_eff], p_eff, 2 * p_eff + 2))
                    elif kind == 'ND_NEG':
                        if core[0] != 'un' or core[1] != '-':
                            und = 'the arm returns %s' % show(v); continue
                        e = operand(core[2], FLO_PASS[kind], p_eff)
                        if e:
                            if e[0] == '?':
                                und = e[1]
                            else:
                                bad[e[0]] = e[1]
                            continue
                        rs = _roundings(chain, p_eff)
                        if rs is None:
                            und = 'the result %s leaves the floating formats' % show(v); continue
                        res = _judge_conv(rs, p_eff, p_eff, p_t)
                    elif kind in FLO_PASS:
                        r = as_rec(core)
                        if not r or core[0] != 'call' or r[0] != 'eval_double' or r[1] not in FLO_PASS[kind]:
                            und = 'the arm returns %s' % show(v); continue
                        rs = _roundings(chain, p_eff)
                        if rs is None:
                            und = 'the result %s leaves the floating formats' % show(v); continue
                        res = _judge_conv(rs, p_eff, p_eff, p_t)
                    elif kind == 'ND_CAST':
                        r = as_rec(core)
                        if not r or core[0] != 'call' or r[1] != 'lhs' or r[0] not in ('eval_double',) + INT_FOLD:
                            und = 'the arm returns %s' % show(v); continue
                        if r[0] == 'eval_double':
                            # the folded operand: exact in its own type (integers: in their number of digits), as far as the return type lets it through
                            p_src = min(p_ret, FLO_PREC[ot] if ot in FLO_PREC else _int_digits(('b',) if ot == 'bool' else ('i', F.trec[ot]['size'] * 8, not F.trec[ot]['is_unsigned'])))
                        else:
                            if ot in FLO_PREC:
                                continue          # the integer folder on a floating operand: R07.6
                            # the operand's 64-bit integer value; a 64-bit change of signedness before the conversion keeps it (which one is right: R07.8)
                            while chain and chain[0][0][0] == 'i' and chain[0][0][1] >= 64:
                                chain = chain[1:]
                            p_src = _int_digits(('b',) if ot == 'bool' else ('i', F.trec[ot]['size'] * 8, not F.trec[ot]['is_unsigned']))
                        rs = _roundings(chain, p_src)
                        if rs is None:
                            und = 'the result %s leaves the floating formats' % show(v); continue
                        res = _judge_conv(rs, p_src, p_eff, p_t)
                        if res:
                            ots.setdefault(res[0], []).append(ot)
                            res = (res[0], res[1] + ' (operand types %s)' % ','.join(ots[res[0]]))
                    elif kind == 'ND_NUM':
                        if core != ('fld', NODE, 'fval') or fval_t is None:
                            und = 'the arm returns %s' % show(v); continue
                        rs = _roundings(chain, PREC[fval_t[1]])
                        if rs is None:
                            und = 'the result %s leaves the floating formats' % show(v); continue
                        res = _judge_conv(rs, PREC[fval_t[1]], p_eff, p_t)
                        if res and res[0].startswith('not-rounded'):
                            if tok_round is None:
                                tok_round = _tokenizer_may_round(P) or ''
                            if tok_round:
                                und = 'the literal arm does not round node->fval to %s, but %s narrows a floating value where it stores the literal: whether the literal arrives rounded is not decided' % (PREC_NAME[p_t], tok_round)
                                continue
                    if res:
                        bad[res[0]] = 'the value %s %s' % (show(v), res[1])
            key = '%s:eval_double:%s/%s' % (U, kind, t)
            ex = {'ND_ADD': '`static double d = 16777216.0f + 1.0f;` holds 16777217 where the generated addss yields 16777216', 'ND_SUB': '`16777216.0f - 0.5f`', 'ND_MUL': '`0.1f * 3.0f`',
                  'ND_DIV': '`static double d = 1.0f / 3.0f;` keeps 53 digits of the quotient', 'ND_CAST': '`static double d = (float)0.1;` holds 0.1 with 53 digits, `(float)16777217` holds 16777217; '
                  'at run time the conversion rounds to 24 digits', 'ND_NUM': '`static double d = 0.1f;` holds the literal with the precision of the host strtold, gen_expr emits it rounded to float'}.get(kind, '')
            for c, m in sorted(bad.items()):
                rep.ob('R07.13', '%s:%s' % (key, c), False, 'eval_double of %s for a node of type %s: %s%s' % (kind, PREC_NAME[p_t], m, (' (' + ex + ')') if ex and t == 'float' else ''), where=wk)
            if bad:
                continue
            if und and (('eval_double', kind) not in getattr(F, 'bad78', ())):
                rep.undecided('R07.13', key, und, where=wk)
            elif not und:
                if n == 0:
                    rep.undecided('R07.13', key, 'no returning path of the %s arm for a node of type %s' % (kind, PREC_NAME[p_t]), where=wk)
                else:
                    rep.ob('R07.13', key, True, '', where=wk)


# ------------------------------------------------------------------ R07.3 ---
def _int_rank(t):
    T = ctype(t)
    return T if T[0] == 'i' else None


def r073(P, rep):
    rep.rule('R07.3', 'no conditional expression whose arms have the same rank >= int but different signedness is widened afterwards '
                      '(the signed arm is converted to unsigned first and then zero-extended)', floor=1)
    n_cond = 0
    for un in P.unit_names:
        cu = P.unit(un)
        for fname, fd in cu.functions.items():
            seen = {}
            for n in fd.walk():
                if n.kind != 'ConditionalOperator' or len(n.inner) != 3:
                    continue
                n_cond += 1
                T = _int_rank(n.dtype)
                if T is None or T[1] < 32 or T[2]:
                    continue       # the common type is signed or not an integer: nothing was reinterpreted
                arms = []
                for a in n.inner[1:]:
                    x = a
                    while x.kind in ('ParenExpr',) or (x.kind == 'ImplicitCastExpr' and x.cast_kind == 'IntegralCast'):
                        x = x.inner[0]
                    arms.append(_int_rank(x.dtype))
                if None in arms:
                    continue
                signed_arm = [a for a in arms if a[2] and a[1] == T[1]]
                if not signed_arm:
                    continue
                # is the unsigned value widened?
                p = n.parent
                while p is not None and p.kind == 'ParenExpr':
                    p = p.parent
                widened = None
                if p is not None and p.kind in ('ImplicitCastExpr', 'CStyleCastExpr') and p.cast_kind == 'IntegralCast':
                    W = _int_rank(p.dtype)
                    if W and W[1] > T[1]:
                        widened = W
                if widened is None:
                    continue
                k = seen.get(fname, 0); seen[fname] = k + 1
                cond = n.inner[0].src()
                rep.ob('R07.3', '%s:%s:mixed-sign-conditional(%s:%s->%s)' % (un, fname, tshow(arms[0]), tshow(arms[1]), tshow(widened)), False,
                       'the arms of `%s` have types %s and %s; the conditional has type %s, so the signed arm is converted to unsigned and then widened to %s with zero extension: '
                       'a negative 32-bit value becomes a large positive one' % (n.src(), tshow(arms[0]), tshow(arms[1]), tshow(T), tshow(widened)),
                       where='%s:%d' % (un, n.line))
    if n_cond < 50:
        rep.undecided('R07.3', 'all:conditionals', 'only %d conditional expressions seen in the program' % n_cond)
    else:
        rep.ob('R07.3', 'all:all:conditionals-scanned', True, '', where=None)


# ------------------------------------------------------------------ R07.7 ---
def _folder_family(cu):
    """the folder and the helpers that are PART of it: the evaluators themselves plus every function all of whose callers are members, that takes the
    node it evaluates (a `Node *` first parameter) and evaluates through a member (an arm of the folder extracted into a function of its own: the
    cut a cast arm makes is the cast's meaning, judged by R07.1/R07.2, not a consumer narrowing the result)"""
    fam = set(f for f in ('eval', 'eval2', 'eval_double', 'eval_rval', 'is_const_expr', 'const_expr') if f in cu.functions)
    if not fam:
        return fam
    callers = {}
    for f, fd in cu.functions.items():
        for c in fd.calls():
            g = c.callee()
            if g in cu.functions:
                callers.setdefault(g, set()).add(f)
    changed = True
    while changed:
        changed = False
        for f, fd in cu.functions.items():
            if f in fam or not callers.get(f):
                continue
            ps = cu.params(f)
            t0 = ' '.join(((ps[0].dtype or ps[0].type) if ps else '').replace('struct ', '').split())
            if t0 != 'Node *':
                continue
            if callers[f] <= fam and any(c.callee() in fam for c in fd.calls()):
                fam.add(f); changed = True
    return fam


def r077(F, P, rep):
    rep.rule('R07.7', 'between the folder and each consumer no intermediate object is narrower than the sink: a folded value stored in a narrow local '
                      'is not widened again, a 64-bit local holding it is not cut and widened again where it is used, const_expr returns the folder\'s value unchanged, '
                      'and bit-field masks of static initializers are computed in 64 bits', floor=10)
    u = F.u
    # (a) const_expr returns eval(conditional(...)) unchanged
    try:
        ex = SymExec(P, u, opaque=FOLD + ('conditional',))
        ps = ex.run('const_expr', [('sym', 'rest'), ('sym', 'tok')])
        ok = bool(ps)
        for p in ps:
            if p.outcome[0] != 'ret':
                ok = False; continue
            core, chain = _core(p.outcome[1])
            if not (core[0] == 'call' and core[1] == 'eval2' and core[2] and core[2][0][0] == 'call' and core[2][0][1] == 'conditional' and _chain_is_wide(chain)):
                ok = False
        rep.ob('R07.7', '%s:const_expr:returns-folder-value' % U, ok,
               'const_expr does not return eval(conditional(...)) as a 64-bit value: every enumerator, case label, array bound and #if would see a changed value',
               where='%s:%d' % (U, u.fn('const_expr').line))
    except Unsupported as e:
        rep.undecided('R07.7', '%s:const_expr:returns-folder-value' % U, 'cannot summarise const_expr: %s' % e)
    # (b) every call of const_expr / eval: narrow local that is widened again
    producers = ('const_expr', 'eval', 'eval2', 'eval_const_expr')
    nsites = 0
    for un in P.unit_names:
        cu = P.unit(un)
        family = _folder_family(cu)
        for fname, fd in cu.functions.items():
            if fname in family:
                continue
            for c in fd.calls(producers):
                nsites += 1
                # first conversion applied to the result
                p = c.parent
                while p is not None and p.kind == 'ParenExpr':
                    p = p.parent
                narrowed = None
                if p is not None and p.kind in ('ImplicitCastExpr', 'CStyleCastExpr') and p.cast_kind == 'IntegralCast':
                    T = ctype(p.dtype)
                    if T[0] == 'i' and T[1] < 64:
                        narrowed = (T, p)
                sink = _sink_name(c)
                key = '%s:%s:%s->%s' % (un, fname, c.callee(), sink)
                # a conversion chain directly on the call that narrows and then widens again
                q = c.parent
                lo = 64
                rewiden = None
                while q is not None and q.kind in ('ParenExpr', 'ImplicitCastExpr', 'CStyleCastExpr'):
                    if q.kind != 'ParenExpr' and q.cast_kind == 'IntegralCast':
                        T2 = ctype(q.dtype)
                        if T2[0] == 'i':
                            if T2[1] > lo:
                                rewiden = (lo, T2)
                            lo = min(lo, T2[1])
                    q = q.parent
                if rewiden:
                    rep.ob('R07.7', key + '/narrowed-then-widened', False,
                           'the folded value is cut to %d bits and then widened to %s for `%s`: the consumer receives a value that lost its upper bits although it could hold them' % (
                               rewiden[0], tshow(rewiden[1]), sink), where='%s:%d' % (un, c.line))
                    continue
                if narrowed is None:
                    # the value is kept in full width; a local that receives it must not be cut and widened again where it is used
                    # (`uint64_t val = eval2(..); write_buf(p, (int)val, size);`)
                    cut = _wide_local_cut(fd, c)
                    if cut:
                        var, lo, W, use = cut
                        rep.ob('R07.7', key + '/local-%s-narrowed-then-widened' % var.name, False,
                               'the folded value is held in the 64-bit local `%s`, cut to %d bits where it is used and widened to %s again for `%s`: the consumer receives a value that lost '
                               'its upper bits although it could hold them (`static long x = 0x100000000;` style values are truncated)' % (var.name, lo, tshow(W), _dest_name(use)),
                               where='%s:%d' % (un, use.line))
                        continue
                    rep.ob('R07.7', key, True, '', where='%s:%d' % (un, c.line))
                    continue
                T, castnode = narrowed
                # where does the narrowed value go? a local variable: look for widening reads of it
                var = _stored_local(castnode)
                wide_use = None
                if var is not None:
                    for r in fd.walk():
                        if r.kind == 'DeclRefExpr' and r.ref_id == var.id:
                            q = r.parent
                            while q is not None and q.kind in ('ParenExpr',) or (q is not None and q.kind == 'ImplicitCastExpr' and q.cast_kind == 'LValueToRValue'):
                                q = q.parent
                            if q is not None and q.kind == 'ImplicitCastExpr' and q.cast_kind == 'IntegralCast':
                                W = ctype(q.dtype)
                                if W[0] == 'i' and W[1] > T[1]:
                                    wide_use = (q, W)
                if wide_use is None:
                    rep.ob('R07.7', key, True, '', where='%s:%d' % (un, c.line))
                    continue
                q, W = wide_use
                dest = _dest_name(q)
                owned = (fname == 'stmt' and dest in ('begin', 'end'))
                if owned:
                    # case labels: the finding is owned by R03.2 (C03); listed here, not reported twice
                    rep.ob('R07.7', key + '/see-R03.2', True, '', where='%s:%d' % (un, c.line))
                    rep.notes.append('R07.7: %s:%s stores const_expr() in a %s local and widens it into %s (%s): see R03.2' % (un, fname, tshow(T), dest, tshow(W)))
                    continue
                rep.ob('R07.7', key + '/narrow-local-%s' % var.name, False,
                       'the folded 64-bit value is stored in the %s local `%s` and later widened to %s for `%s`: bits above bit %d are lost and the sign is re-extended, although the sink could hold them' % (
                           tshow(T), var.name, tshow(W), dest, T[1] - 1),
                       where='%s:%d' % (un, c.line))
    if nsites < 10:
        rep.undecided('R07.7', 'all:consumers', 'only %d call sites of the folder found' % nsites)
    # (c) int-typed shift by a bit-field geometry field, widened afterwards (mask / position arithmetic of bit-fields)
    nshift = 0
    for un in P.unit_names:
        cu = P.unit(un)
        for fname, fd in cu.functions.items():
            for n in fd.walk():
                if n.kind != 'BinaryOperator' or n.opcode != '<<':
                    continue
                fields = [m.name for m in n.inner[1].walk() if m.kind == 'MemberExpr' and m.name in ('bit_width', 'bit_offset')]
                if not fields:
                    continue
                nshift += 1
                T = ctype(n.dtype)
                ok = T[0] == 'i' and T[1] >= 64
                rep.ob('R07.7', '%s:%s:shift-by-%s%s' % (un, fname, fields[0], '' if ok else '/computed-in-' + tshow(T)), ok,
                       '`%s` is computed in %s: bit-fields may be up to 64 bits wide, so for %s >= %d the shift overflows the type before any widening and the mask/position is wrong '
                       '(e.g. `long a:40` in a static initializer keeps only the low bits)' % (n.src(), tshow(T), fields[0], (T[1] - 1) if T[0] == 'i' else 31),
                       where='%s:%d' % (un, n.line))
    if nshift < 2:
        rep.undecided('R07.7', 'all:bitfield-shifts', 'only %d shifts by bit_width/bit_offset found' % nshift)


def _wide_local_cut(fd, c):
    """the producer call c initialises / is assigned to a local of a 64-bit integer type: a use of that local under a chain of integral conversions
    that narrows below 64 bits and widens again -> (VarDecl, narrow bits, wide type, outermost conversion node); None otherwise"""
    x = c      # the node directly under the declaration / assignment
    while x.parent is not None and x.parent.kind in ('ParenExpr', 'ImplicitCastExpr', 'CStyleCastExpr'):
        if x.parent.kind != 'ParenExpr' and x.parent.cast_kind not in ('IntegralCast', 'NoOp'):
            return None
        x = x.parent
    var = _stored_local(x)
    if var is None:
        return None
    T = ctype(var.dtype)
    if T[0] != 'i' or T[1] < 64:
        return None
    for r in fd.walk():
        if r.kind != 'DeclRefExpr' or r.ref_id != var.id:
            continue
        q = r.parent
        while q is not None and (q.kind == 'ParenExpr' or (q.kind == 'ImplicitCastExpr' and q.cast_kind in ('LValueToRValue', 'NoOp'))):
            q = q.parent
        lo = 64
        while q is not None and q.kind in ('ParenExpr', 'ImplicitCastExpr', 'CStyleCastExpr'):
            if q.kind != 'ParenExpr':
                if q.cast_kind != 'IntegralCast':
                    break
                T2 = ctype(q.dtype)
                if T2[0] != 'i':
                    break
                if T2[1] > lo:
                    pp, under = _up(q)
                    if pp is not None and pp.kind == 'BinaryOperator' and pp.opcode in ('==', '!='):
                        other = pp.inner[1] if under is pp.inner[0] else pp.inner[0]
                        o = other.strip()
                        if o.kind == 'DeclRefExpr' and o.ref_id == var.id:
                            break        # `v != (int)v`: the round trip is the range test itself (R07.16), not a consumer
                    return var, lo, T2, q
                lo = min(lo, T2[1])
            q = q.parent
    return None


def _sink_name(c):
    """what the call's value initialises or is assigned to (for the key)"""
    p = c.parent
    while p is not None and p.kind in ('ParenExpr', 'ImplicitCastExpr', 'CStyleCastExpr'):
        p = p.parent
    if p is None:
        return '?'
    if p.kind == 'VarDecl':
        return p.name
    if p.kind == 'BinaryOperator' and p.opcode == '=':
        l = p.inner[0].strip()
        if l.kind == 'MemberExpr':
            return l.name
        if l.kind == 'DeclRefExpr':
            return l.ref_name
        if l.kind == 'UnaryOperator' and l.opcode == '*':
            return '*' + l.inner[0].src()
        return l.src()
    if p.kind == 'CallExpr':
        return 'arg-of-%s' % (p.callee() or '?')
    if p.kind == 'ReturnStmt':
        return 'return'
    if p.kind in ('IfStmt', 'BinaryOperator', 'UnaryOperator', 'ConditionalOperator'):
        return 'condition'
    return p.kind


def _stored_local(castnode):
    """VarDecl node of the local that receives the value of castnode, if any"""
    p = castnode.parent
    while p is not None and p.kind == 'ParenExpr':
        p = p.parent
    if p is None:
        return None
    if p.kind == 'VarDecl':
        return p
    if p.kind == 'BinaryOperator' and p.opcode == '=':
        l = p.inner[0].strip()
        if l.kind == 'DeclRefExpr' and l.ref_kind == 'VarDecl':
            fd = castnode.enclosing('FunctionDecl')
            if fd is not None:
                for d in fd.walk():
                    if d.kind == 'VarDecl' and d.id == l.ref_id:
                        return d
    return None


def _dest_name(q):
    p = q.parent
    while p is not None and p.kind == 'ParenExpr':
        p = p.parent
    if p is not None and p.kind == 'BinaryOperator' and p.opcode == '=':
        l = p.inner[0].strip()
        return l.name if l.kind == 'MemberExpr' else l.src()
    if p is not None and p.kind == 'VarDecl':
        return p.name
    if p is not None and p.kind == 'CallExpr':
        return 'arg-of-%s' % (p.callee() or '?')
    if p is not None and p.kind in ('BinaryOperator', 'CompoundAssignOperator'):
        return 'operand of `%s`' % p.opcode
    return 'return'


# ----------------------------------------------------------------- R07.16 ---
DIAG = ('error', 'error_at', 'error_tok', 'exit', 'abort', '__assert_fail')


def _up(n, kinds=('ParenExpr',), casts=()):
    """the nearest ancestor of n that is not a parenthesis / one of the given implicit conversions; the node directly under it"""
    x = n; p = n.parent
    while p is not None and (p.kind in kinds or (p.kind in ('ImplicitCastExpr', 'CStyleCastExpr') and p.cast_kind in casts)):
        x = p; p = p.parent
    return p, x


def _sink_of(x, fd, seen=None):
    """x: an expression node whose value is the (already narrow) folded value.  Where does the value come to rest?  -> name of a sink that outlives the
    expression (`field f`, `argument of g`, `*p`), or None when it only flows through locals / arithmetic / the return value of the function"""
    seen = seen if seen is not None else set()
    p, x = _up(x, casts=('IntegralCast', 'NoOp', 'LValueToRValue'))
    if p is None:
        return None
    if p.kind == 'UnaryOperator' and p.opcode in ('++', '--', '+', 'post++', 'post--'):
        return _sink_of(p, fd, seen)
    if p.kind == 'ConditionalOperator' and x is not p.inner[0]:
        return _sink_of(p, fd, seen)
    if p.kind == 'CallExpr':
        cal = p.callee()
        if x is p.inner[0] or cal in DIAG or cal is None:
            return None
        return 'argument of %s' % cal
    var = None
    if p.kind == 'VarDecl':
        var = p
    elif p.kind == 'BinaryOperator' and p.opcode == '=' and x is p.inner[1]:
        l = p.inner[0].strip()
        if l.kind == 'MemberExpr':
            return 'field %s' % l.name
        if l.kind == 'UnaryOperator' and l.opcode == '*':
            return '*%s' % l.inner[0].src()
        if l.kind == 'ArraySubscriptExpr':
            return 'element of %s' % l.inner[0].src()
        if l.kind == 'DeclRefExpr' and l.ref_kind == 'VarDecl':
            for d in fd.walk():
                if d.kind == 'VarDecl' and d.id == l.ref_id:
                    var = d
            if var is None:
                return 'global %s' % l.ref_name
    if var is None or var.id in seen:
        return None
    seen.add(var.id)
    for r in fd.walk():
        if r.kind == 'DeclRefExpr' and r.ref_id == var.id:
            q, under = _up(r)
            if q is not None and q.kind == 'BinaryOperator' and q.opcode == '=' and under is q.inner[0]:
                continue          # a write of the local
            sk = _sink_of(r, fd, seen)
            if sk:
                return sk
    return None


def _fits(e, T, fd=None, depth=0):
    """the expression e (a bound the 64-bit value is compared with) has, before the comparison's conversions, only values of the integer type T:
    True / False / None (a 64-bit expression whose range is not known)"""
    e = e.strip()
    v = e.int_value()
    lo, hi = (-(1 << (T[1] - 1)), (1 << (T[1] - 1)) - 1) if T[2] else (0, (1 << T[1]) - 1)
    if v is not None:
        return lo <= v <= hi
    E = ctype(e.dtype)
    if E[0] == 'b':
        return True
    if E[0] == 'i' and _holds_range(T, E[1], E[2]):
        return True
    if e.kind == 'DeclRefExpr' and e.ref_kind == 'VarDecl' and fd is not None and depth < 3:
        # a local written once, by its initializer: the range of the initializer
        for d in fd.walk():
            if d.kind == 'VarDecl' and d.id == e.ref_id and d.inner and _written_once(fd, d):
                init = d.inner[-1]
                if init.kind not in ('IntegerLiteral',) and not init.kind.endswith('Expr') and not init.kind.endswith('Operator'):
                    return None
                return _fits(init, T, fd, depth + 1)
    return None


def _written_once(fd, var):
    """the local is written by its initializer (or one assignment) only and its address is not taken"""
    writes = 0
    for r in fd.walk():
        if r.kind == 'DeclRefExpr' and r.ref_id == var.id:
            q2, under = _up(r)
            if q2 is not None and ((q2.kind in ('BinaryOperator', 'CompoundAssignOperator') and q2.opcode.endswith('=') and q2.opcode not in ('==', '!=', '<=', '>=') and under is q2.inner[0])
                                   or (q2.kind == 'UnaryOperator' and q2.opcode in ('++', '--', '&', 'post++', 'post--'))):
                writes += 1
    return writes <= (0 if var.inner else 1)


def _range_checked(fd, var, use, T, depth=0):
    """is the use of the 64-bit local var dominated by comparisons of var with bounds of the narrow type T (both sides) whose failing side ends in a diagnostic?
    -> (has lower bound, has upper bound)"""
    lower = upper = False
    unknown = []
    anc = [use] + list(use.ancestors())

    def bound(c, sense):
        """the comparison c is known to be `sense` where the use is: (lower, upper) it establishes"""
        c = c.strip()
        if c.kind != 'BinaryOperator' or c.opcode not in ('<', '<=', '>', '>=', '!=', '=='):
            return False, False
        L, R, op = c.inner[0].strip(), c.inner[1].strip(), c.opcode
        if R.kind == 'DeclRefExpr' and R.ref_id == var.id:
            L, R, op = R, L, {'<': '>', '<=': '>=', '>': '<', '>=': '<=', '!=': '!=', '==': '=='}[op]
        if not (L.kind == 'DeclRefExpr' and L.ref_id == var.id):
            return False, False
        if ctype(c.inner[0].dtype) != ctype(var.dtype) or ctype(c.inner[1].dtype) != ctype(var.dtype):
            return False, False      # compared after a conversion that changes the reading of the value (`val < 5ul`)
        if op in ('!=', '=='):
            # `v == (T)v` holds / `v != (T)v` was diagnosed: the value survives the narrowing to T, so it is a value of T
            Rc = c.inner[1] if L is c.inner[0].strip() else c.inner[0]
            x = Rc
            while x.kind in ('ParenExpr',) or (x.kind == 'ImplicitCastExpr' and x.cast_kind in ('IntegralCast', 'NoOp')):
                if x.kind == 'ImplicitCastExpr' and ctype(x.dtype)[1:] != ctype(var.dtype)[1:]:
                    break
                x = x.inner[0]
            if (sense == (op == '==')) and x.kind in ('CStyleCastExpr', 'ImplicitCastExpr') and ctype(x.dtype)[0] == 'i' and _holds_range(T, ctype(x.dtype)[1], ctype(x.dtype)[2]):
                y = x.inner[0].strip()
                if y.kind == 'DeclRefExpr' and y.ref_id == var.id:
                    return True, True
            return False, False
        if not sense:
            op = {'<': '>=', '<=': '>', '>': '<=', '>=': '<'}[op]
        ft_ = _fits(R, T, fd)
        if not ft_:
            if ft_ is None:
                unknown.append(R.src())
            return False, False
        return (op in ('>', '>=')), (op in ('<', '<='))

    # conditions of enclosing if statements that hold where the use is
    for i, a in enumerate(anc):
        if a.kind == 'IfStmt' and i and len(a.inner) >= 2 and anc[i - 1] is not a.inner[0]:
            in_then = anc[i - 1] is a.inner[1]
            conds = [a.inner[0]]
            while conds:
                c = conds.pop().strip()
                if c.kind == 'BinaryOperator' and c.opcode == ('&&' if in_then else '||'):
                    conds += [c.inner[0], c.inner[1]]; continue
                lo2, hi2 = bound(c, in_then)
                lower = lower or lo2; upper = upper or hi2
    # statements that precede the use in a compound statement enclosing it
    for i, a in enumerate(anc):
        if a.kind != 'CompoundStmt':
            continue
        inside = anc[i - 1] if i else None
        for st in a.inner:
            if st is inside:
                break
            if st.kind != 'IfStmt' or len(st.inner) < 2:
                continue
            then = st.inner[1]
            body = then.inner if then.kind == 'CompoundStmt' else [then]
            if not body or body[-1].kind != 'CallExpr' or body[-1].callee() not in DIAG:
                continue
            conds = [st.inner[0]]
            while conds:
                c = conds.pop().strip()
                if c.kind == 'BinaryOperator' and c.opcode == '||':
                    conds += [c.inner[0], c.inner[1]]; continue
                if c.kind != 'BinaryOperator' or c.opcode not in ('<', '<=', '>', '>=', '!='):
                    continue
                if c.opcode == '!=':
                    lo2, hi2 = bound(c, False)       # diagnosed when it differs: equal afterwards
                    lower = lower or lo2; upper = upper or hi2
                    continue
                L, R, op = c.inner[0].strip(), c.inner[1].strip(), c.opcode
                if R.kind == 'DeclRefExpr' and R.ref_id == var.id:
                    L, R, op = R, L, {'<': '>', '<=': '>=', '>': '<', '>=': '<='}[op]
                if not (L.kind == 'DeclRefExpr' and L.ref_id == var.id):
                    continue
                if ctype(c.inner[0].dtype) != ctype(var.dtype) or ctype(c.inner[1].dtype) != ctype(var.dtype):
                    continue          # compared after a conversion that changes the reading of the value (`val < 5ul`)
                ft_ = _fits(R, T, fd)
                if not ft_:
                    # bounded by another local that is itself inside T on that side at this point (`if (val2 < val) error(..)` after `if (val < 0) error(..)`)
                    ok2 = False
                    if R.kind == 'DeclRefExpr' and R.ref_kind == 'VarDecl' and depth < 3:
                        for d in fd.walk():
                            if d.kind == 'VarDecl' and d.id == R.ref_id and d.id != var.id and _written_once(fd, d):
                                lo2, hi2, _u = _range_checked(fd, d, st, T, depth + 1)
                                ok2 = lo2 if op in ('<', '<=') else hi2
                    if not ok2:
                        if ft_ is None:
                            unknown.append(R.src())
                        continue
                if op in ('<', '<='):
                    lower = True        # diagnosed when below a bound of T: what remains is >= a value of T
                else:
                    upper = True
    if upper and not ctype(var.dtype)[2]:
        lower = True          # an unsigned 64-bit object below a bound of T is a value of T
    return lower, upper, unknown


def r0716(F, P, rep):
    """The folder computes in 64 bits.  A consumer whose object is narrower (int enumerator value, int array length, int bit-field width, int alignment)
    changes the value when it does not fit: the constant the program then uses differs from the value of the constant expression (and C11 makes each of
    these a constraint: the value shall be representable / in range, so a diagnostic is required).  The only sound shape is: keep the value in a 64-bit
    object, compare it with bounds that lie inside the narrow type on both sides, diagnose, then narrow."""
    rep.rule('R07.16', 'a consumer that puts the folded 64-bit value into a narrower object that outlives the expression (a record field, an argument of a call, a store '
                       'through a pointer) holds it in a 64-bit object first and narrows it only after comparisons with bounds inside the narrow type, on both sides, whose failing '
                       'side ends in a diagnostic: a value that does not fit is never silently reduced modulo 2^32 (C11 6.7.2.2p2 enumerators, 6.7.2.1p4 bit-field widths, '
                       '6.7.5p3 _Alignas, 6.7.6.2p1 array sizes, 6.7.9p6 designators)', floor=5)
    producers = ('const_expr', 'eval', 'eval2')
    for un in P.unit_names:
        cu = P.unit(un)
        for fname, fd in sorted(cu.functions.items()):
            if fname in FOLD + ('eval', 'const_expr', 'eval_truth'):
                continue
            done = set()
            for c in fd.calls(producers):
                base = '%s:%s:%s->%s' % (un, fname, c.callee(), _sink_name(c))
                if base in done:
                    continue
                where = '%s:%d' % (un, c.line)
                p, x = _up(c)
                if p is not None and p.kind in ('ImplicitCastExpr', 'CStyleCastExpr') and p.cast_kind == 'IntegralCast' and ctype(p.dtype)[0] == 'i' and ctype(p.dtype)[1] < 64:
                    T = ctype(p.dtype)
                    sk = _sink_of(p, fd)
                    if sk is None:
                        continue           # flows on through locals / the return value: not a resting place of the constant
                    done.add(base)
                    rep.ob('R07.16', '%s/unchecked-narrowing-to-%s' % (base, tshow(T)), False,
                           '%s converts the 64-bit result of %s() to %s at once and the value comes to rest in `%s`: a constant that does not fit is reduced modulo 2^%d without a diagnostic, '
                           'so the program is translated with a different constant than the expression denotes (`enum { A = 0x80000000 }; static long ea = A;` holds -2147483648, '
                           '`sizeof(char[0x100000001])` is 1, `int w : 0x100000001` is accepted as width 1, `_Alignas(0x100000008)` as 8); C11 requires the value to be representable '
                           '(constraint, diagnostic required)' % (fname, c.callee(), tshow(T), sk, T[1]), where=where, facts={'sink': sk, 'narrow_type': tshow(T)})
                    continue
                # held in a 64-bit local: every narrowing use that comes to rest somewhere must be range-checked before
                q, x = _up(c, casts=('IntegralCast', 'NoOp'))
                var = _stored_local(x) if q is not None else None
                if var is None or ctype(var.dtype)[0] != 'i' or ctype(var.dtype)[1] < 64:
                    continue
                once = _written_once(fd, var)
                bad = {}; n = 0; und = None
                for r in fd.walk():
                    if r.kind != 'DeclRefExpr' or r.ref_id != var.id:
                        continue
                    q2, under = _up(r, casts=('LValueToRValue', 'NoOp'))
                    if q2 is None or q2.kind not in ('ImplicitCastExpr', 'CStyleCastExpr') or q2.cast_kind != 'IntegralCast':
                        continue
                    T = ctype(q2.dtype)
                    if T[0] != 'i' or T[1] >= 64:
                        continue
                    sk = _sink_of(q2, fd)
                    if sk is None:
                        continue
                    n += 1
                    if not once:
                        und = 'the 64-bit local `%s` is written more than once: which value its range checks saw is not decided' % var.name
                        continue
                    lo, hi, unk = _range_checked(fd, var, q2, T)
                    if not (lo and hi) and unk:
                        und = ('`%s` is compared with %s before it is narrowed to %s for `%s`: whether that bound lies inside %s is not decided' % (
                            var.name, ', '.join('`%s`' % x for x in sorted(set(unk))), tshow(T), sk, tshow(T)))
                        continue
                    if not (lo and hi):
                        miss = 'lower and upper' if not (lo or hi) else ('lower' if not lo else 'upper')
                        bad['%s:%s-bound-unchecked' % (sk.replace(' ', '-'), miss.replace(' ', '-'))] = (
                            '%s narrows the folded value held in `%s` to %s for `%s` without a preceding comparison with a%s bound inside %s that ends in a diagnostic: '
                            'a constant outside the range is reduced modulo 2^%d silently' % (fname, var.name, tshow(T), sk, ' ' + miss if miss != 'lower and upper' else ' lower and an upper', tshow(T), T[1]))
                if not n:
                    continue
                done.add(base)
                for k, m in sorted(bad.items()):
                    rep.ob('R07.16', '%s/%s' % (base, k), False, m, where=where)
                if bad:
                    continue
                if und:
                    rep.undecided('R07.16', base, und, where=where)
                else:
                    rep.ob('R07.16', base, True, '', where=where)


# ----------------------------------------------------------------- R07.17 ---
def _flo_closure(u):
    """eval_double and the functions it inlines (everything it reaches without passing through a folder entry): their roundings are the arms' own (R07.13)"""
    seen = {'eval_double'}; st = ['eval_double']
    while st:
        f = st.pop()
        fd = u.functions.get(f)
        if fd is None:
            continue
        for c in fd.walk():
            if c.kind == 'CallExpr':
                g = c.callee()
                if g in u.functions and g not in seen and g not in FOLD:
                    seen.add(g); st.append(g)
    return seen


def r0717(F, P, rep):
    """eval_double returns the value of the folded expression exactly, in a long double: the expression may have any arithmetic type, so the value may need all 64
    digits (a long double expression; a long / unsigned long expression such as 9007199791611905).  The run-time evaluation converts that value ONCE, directly to
    the type of the object it initialises (cvtsi2ss, fstps ...), compares it unrounded, tests it against zero unrounded, converts it to an integer unrounded.  A consumer
    that parks the value in a narrower floating object first (`double val = eval_double(e); *(float *)p = val;`) rounds twice: values within a double ulp of a float
    midpoint land on the midpoint and are then rounded to even - one ulp off the run-time result; a value rounded before a comparison / truth test / integer
    conversion changes the outcome (1e-400L != 0).  Decided on the typed def-use relation of every call of eval_double outside the folder's own arms."""
    from ..lib_c07_flo import FloFlow, Unknown
    u = F.u
    rep.rule('R07.17', 'every consumer of the floating folder: from a call of eval_double (outside eval_double\'s own arms) to the place where the value comes to rest - through '
                       'conversions, locals, parameters, helper functions and return values - the value passes only through host floating types that hold every long double exactly, '
                       'until the single conversion to the type of the object it is stored in; it is not rounded at all before it is compared, tested against zero, converted to an '
                       'integer type or used in arithmetic (the generated code converts / compares the unrounded value once)', floor=5)
    closure = _flo_closure(u)
    fl = FloFlow(u)
    p_src = max(PREC.values())
    groups = {}          # key -> [n ok, {construct: message}, undecided, where]
    nsites = 0
    for fname, fd in sorted(u.functions.items()):
        if fname in closure:
            continue
        for c in fd.calls('eval_double'):
            nsites += 1
            where = '%s:%d' % (U, c.line)
            try:
                terms = fl.trace(c, stop_fns=closure)
            except Unknown as e:
                g = groups.setdefault('%s:%s:eval_double->flow' % (U, fname), [0, {}, None, where])
                g[2] = 'where the value of eval_double() goes is not described by the def-use relation: %s' % e
                continue
            if not terms:
                g = groups.setdefault('%s:%s:eval_double->flow' % (U, fname), [0, {}, None, where])
                g[2] = 'the value of eval_double() reaches no store, comparison or conversion'
                continue
            for t in terms:
                tn = tshow(t.T).replace(' ', '-') if t.T is not None else ''
                sink = t.kind + ('-' + tn if tn else '')
                key = '%s:%s:eval_double->%s' % (U, fname, sink)
                if t.fn is not None and t.fn.name != fname:
                    key += '@' + t.fn.name
                g = groups.setdefault(key, [0, {}, None, where])
                if any(T[1] not in PREC for T in t.chain) or (t.kind == 'store' and t.T[1] not in PREC):
                    g[2] = 'a floating format of unknown precision on the way to the %s' % t.what
                    continue
                rs = _roundings([(T, None) for T in t.chain], p_src)
                names = [PREC_NAME[r] for r in rs]
                tw = '%s:%d' % (U, t.node.line)
                if t.kind == 'store':
                    p_t = PREC[t.T[1]]
                    if len(rs) > 1:
                        g[1]['rounded-twice:' + '-'.join(n.replace(' ', '-') for n in names)] = (
                            '%s: the value eval_double() returned for %s is rounded to %s and then to %s on its way to the %s (%s): two roundings differ from the single conversion of the '
                            'generated code for values within one %s ulp of a %s rounding midpoint: `static float f = 9007199791611905;` holds 0x1p+53, the run-time conversion '
                            '(and gcc) 0x1.000002p+53; the same for long double initializers such as 0x1.000001000000001p0L' % (
                                fname, c.args()[0].src() if c.args() else '?', names[0], names[-1], t.what, tw, names[0], names[-1]), tw)
                    elif rs and rs[0] < p_t:
                        g[1]['rounded-to-%s-stored-as-%s' % (names[0].replace(' ', '-'), PREC_NAME[p_t].replace(' ', '-'))] = (
                            '%s: the value eval_double() returned is rounded to %s before it is stored in the %s of type %s (%s): digits the object can hold, and holds at run time, are lost' % (
                                fname, names[0], t.what, PREC_NAME[p_t], tw), tw)
                    else:
                        g[0] += 1
                elif rs:
                    verb = {'compare': 'compared', 'truth': 'tested against zero', 'to-int': 'converted to an integer type', 'arith': 'used in arithmetic'}[t.kind]
                    g[1]['rounded-to-%s-before-%s' % (names[-1].replace(' ', '-'), t.kind)] = (
                        '%s: the value eval_double() returned is rounded to %s before it is %s (%s, %s): the generated code uses the unrounded value of the expression\'s type '
                        '(`1e-400L` rounds to 0 in double and is no longer true; `0x1.00000000000008p0L > 1.0` values that differ beyond double compare equal; '
                        '`(long)9007199254740993.0L` becomes 9007199254740992)' % (fname, names[-1], verb, t.what, tw), tw)
                else:
                    g[0] += 1
    if nsites < 5:
        rep.undecided('R07.17', '%s:consumers-of-eval_double' % U, 'only %d calls of eval_double outside the folder found' % nsites)
    for key, (n, bad, und, where) in sorted(groups.items()):
        for cst, (m, tw) in sorted(bad.items()):
            rep.ob('R07.17', '%s/%s' % (key, cst), False, m, where=tw)
        if bad:
            continue
        if und:
            rep.undecided('R07.17', key, und, where=where)
        else:
            rep.ob('R07.17', key, True, '', where=where)
